// hunt: generic element types + exact references
use ohsl::{Polynomial, Number, Signed, Zero, One, Complex};
use std::ops::*;

// ---------- exact rational over i128 ----------
#[derive(Clone, Copy, Debug)]
struct Q { n: i128, d: i128 }
fn gcd(a: i128, b: i128) -> i128 { let (mut a, mut b) = (a.abs(), b.abs()); while b != 0 { let t = a % b; a = b; b = t; } a }
impl Q {
    fn new(n: i128, d: i128) -> Q { assert!(d != 0, "rational divide by zero"); let g = gcd(n, d); let g = if g == 0 { 1 } else { g }; let s = if d < 0 { -1 } else { 1 }; Q { n: s * n / g, d: s * d / g } }
    fn int(n: i128) -> Q { Q { n, d: 1 } }
}
impl PartialEq for Q { fn eq(&self, o: &Q) -> bool { self.n == o.n && self.d == o.d } }
impl Add for Q { type Output = Q; fn add(self, o: Q) -> Q { Q::new(self.n.checked_mul(o.d).unwrap().checked_add(o.n.checked_mul(self.d).unwrap()).unwrap(), self.d.checked_mul(o.d).unwrap()) } }
impl Sub for Q { type Output = Q; fn sub(self, o: Q) -> Q { self + Q { n: -o.n, d: o.d } } }
impl Mul for Q { type Output = Q; fn mul(self, o: Q) -> Q { let g1 = gcd(self.n, o.d).max(1); let g2 = gcd(o.n, self.d).max(1); Q::new((self.n / g1).checked_mul(o.n / g2).unwrap(), (self.d / g2).checked_mul(o.d / g1).unwrap()) } }
impl Div for Q { type Output = Q; fn div(self, o: Q) -> Q { self * Q::new(o.d, o.n) } }
impl Neg for Q { type Output = Q; fn neg(self) -> Q { Q { n: -self.n, d: self.d } } }
impl AddAssign for Q { fn add_assign(&mut self, o: Q) { *self = *self + o; } }
impl SubAssign for Q { fn sub_assign(&mut self, o: Q) { *self = *self - o; } }
impl MulAssign for Q { fn mul_assign(&mut self, o: Q) { *self = *self * o; } }
impl DivAssign for Q { fn div_assign(&mut self, o: Q) { *self = *self / o; } }
impl Zero for Q { fn zero() -> Q { Q::int(0) } }
impl One for Q { fn one() -> Q { Q::int(1) } }
impl Number for Q {}
impl Signed for Q { fn abs(&self) -> Q { Q { n: self.n.abs(), d: self.d } } }

// ---------- GF(p) ----------
const P: i64 = 10007;
#[derive(Clone, Copy, Debug, PartialEq)]
struct F(i64);
fn fpow(mut b: i64, mut e: i64) -> i64 { let mut r = 1; b %= P; while e > 0 { if e & 1 == 1 { r = r * b % P; } b = b * b % P; e >>= 1; } r }
impl Add for F { type Output = F; fn add(self, o: F) -> F { F((self.0 + o.0) % P) } }
impl Sub for F { type Output = F; fn sub(self, o: F) -> F { F((self.0 - o.0 + P) % P) } }
impl Mul for F { type Output = F; fn mul(self, o: F) -> F { F(self.0 * o.0 % P) } }
impl Div for F { type Output = F; fn div(self, o: F) -> F { assert!(o.0 != 0); F(self.0 * fpow(o.0, P - 2) % P) } }
impl Neg for F { type Output = F; fn neg(self) -> F { F((P - self.0) % P) } }
impl AddAssign for F { fn add_assign(&mut self, o: F) { *self = *self + o; } }
impl SubAssign for F { fn sub_assign(&mut self, o: F) { *self = *self - o; } }
impl MulAssign for F { fn mul_assign(&mut self, o: F) { *self = *self * o; } }
impl DivAssign for F { fn div_assign(&mut self, o: F) { *self = *self / o; } }
impl Zero for F { fn zero() -> F { F(0) } }
impl One for F { fn one() -> F { F(1) } }
impl Number for F {}
impl Signed for F { fn abs(&self) -> F { *self } }

struct Rng(u64);
impl Rng {
    fn next(&mut self) -> u64 { self.0 ^= self.0 << 13; self.0 ^= self.0 >> 7; self.0 ^= self.0 << 17; self.0 }
    fn range(&mut self, lo: i64, hi: i64) -> i64 { lo + (self.next() % ((hi - lo + 1) as u64)) as i64 }
    fn unit(&mut self) -> f64 { (self.next() >> 11) as f64 / (1u64 << 53) as f64 }
}

fn to_vec<T: Copy>(p: &Polynomial<T>) -> Vec<T> { (0..p.size()).map(|i| p[i]).collect() }

// generic independent check: u == q*v + r and (r == 0 or deg r < deg v), textbook convolution
fn check_exact<T>(u: &[T], v: &[T], q: &[T], r: &[T]) -> Result<(), String>
where T: Copy + PartialEq + Add<Output = T> + Mul<Output = T> + Zero + std::fmt::Debug {
    let n = u.len().max(r.len()).max(if q.is_empty() { 0 } else { q.len() + v.len() - 1 });
    let mut s = vec![T::zero(); n];
    for (i, a) in q.iter().enumerate() { for (j, b) in v.iter().enumerate() { s[i + j] = s[i + j] + *a * *b; } }
    for (i, a) in r.iter().enumerate() { s[i] = s[i] + *a; }
    for i in 0..n {
        let ui = if i < u.len() { u[i] } else { T::zero() };
        if s[i] != ui { return Err(format!("identity fails at x^{}: q*v+r = {:?}, u = {:?}\n u={:?}\n v={:?}\n q={:?}\n r={:?}", i, s[i], ui, u, v, q, r)); }
    }
    // true degree of r
    let dr = r.iter().rposition(|c| *c != T::zero());
    let dv = v.iter().rposition(|c| *c != T::zero()).unwrap();
    if let Some(dr) = dr { if dr >= dv { return Err(format!("deg r = {} >= deg v = {}\n u={:?}\n v={:?}\n q={:?}\n r={:?}", dr, dv, u, v, q, r)); } }
    Ok(())
}

#[test]
fn rationals_sweep() {
    let mut rng = Rng(0x1234_5678_9abc_def1);
    let mut n = 0;
    for du in 0..=10usize { for dv in 0..=6usize { for rep in 0..40 {
        let big = rep % 4 == 3;
        let mut gen = |rng: &mut Rng, lead: bool| -> Q {
            loop {
                let nn = if big { rng.range(-9, 9) } else { rng.range(-3, 3) } as i128;
                let dd = if big { rng.range(1, 3) } else { rng.range(1, 2) } as i128;
                if lead && nn == 0 { continue; }
                return Q::new(nn, dd);
            }
        };
        let mut u: Vec<Q> = (0..=du).map(|_| gen(&mut rng, false)).collect();
        // dividend may carry leading zeros in some repetitions; otherwise force nonzero
        if rep % 5 != 0 { u[du] = gen(&mut rng, true); }
        let mut v: Vec<Q> = (0..=dv).map(|_| gen(&mut rng, false)).collect();
        v[dv] = gen(&mut rng, true);
        let pu = Polynomial::new(u.clone()); let pv = Polynomial::new(v.clone());
        let (q, r) = pu.polydiv(&pv).unwrap_or_else(|e| panic!("Err {} for u={:?} v={:?}", e, u, v));
        check_exact(&u, &v, &to_vec(&q), &to_vec(&r)).unwrap();
        n += 1;
    }}}
    println!("rationals ok: {}", n);
}

#[test]
fn gfp_sweep() {
    let mut rng = Rng(0xdead_beef_1234_5671);
    for du in 0..=10usize { for dv in 0..=6usize { for _ in 0..50 {
        let u: Vec<F> = (0..=du).map(|_| F(rng.range(0, P - 1))).collect();
        let mut v: Vec<F> = (0..=dv).map(|_| F(rng.range(0, P - 1))).collect();
        v[dv] = F(rng.range(1, P - 1));
        let (q, r) = Polynomial::new(u.clone()).polydiv(&Polynomial::new(v.clone())).unwrap();
        check_exact(&u, &v, &to_vec(&q), &to_vec(&r)).unwrap();
    }}}
}

#[test]
fn integers_monic_sweep() {
    let mut rng = Rng(0xfeed_f00d_1234_5671);
    for du in 0..=10usize { for dv in 0..=6usize { for _ in 0..50 {
        let u: Vec<i64> = (0..=du).map(|_| rng.range(-5, 5)).collect();
        let mut v: Vec<i64> = (0..=dv).map(|_| rng.range(-3, 3)).collect();
        v[dv] = if rng.next() & 1 == 0 { 1 } else { -1 };
        let (q, r) = Polynomial::new(u.clone()).polydiv(&Polynomial::new(v.clone())).unwrap();
        check_exact(&u, &v, &to_vec(&q), &to_vec(&r)).unwrap();
        let u32v: Vec<i32> = u.iter().map(|x| *x as i32).collect();
        let v32v: Vec<i32> = v.iter().map(|x| *x as i32).collect();
        let (q, r) = Polynomial::new(u32v.clone()).polydiv(&Polynomial::new(v32v.clone())).unwrap();
        check_exact(&u32v, &v32v, &to_vec(&q), &to_vec(&r)).unwrap();
    }}}
}

#[test]
fn integers_nonmonic_observation() {
    // NOT in the quantifier (i32 is not a field) -- just record what happens
    let u = Polynomial::new(vec![1i32, 0, 3]);
    let v = Polynomial::new(vec![1i32, 2]);
    let res = u.polydiv(&v);
    println!("i32 3x^2+1 / 2x+1 -> {:?}", res);
}

#[test]
fn integer_valued_f64_sweep() {
    // every value integer; compare to exact rational division, q and r must be the correctly rounded/ exact result when exact
    let mut rng = Rng(0xabcd_ef01_2345_6789);
    for du in 0..=10usize { for dv in 0..=6usize { for rep in 0..60 {
        let u: Vec<i64> = (0..=du).map(|_| rng.range(-9, 9)).collect();
        let mut v: Vec<i64> = (0..=dv).map(|_| rng.range(-9, 9)).collect();
        // leads: +-1, +-2, +-4 (exact in binary) or arbitrary
        v[dv] = match rep % 3 { 0 => [1, -1][(rng.next() & 1) as usize], 1 => [2, -2, 4, -4, 8][(rng.next() % 5) as usize], _ => { let mut l = 0; while l == 0 { l = rng.range(-9, 9); } l } };
        let uf: Vec<f64> = u.iter().map(|x| *x as f64).collect();
        let vf: Vec<f64> = v.iter().map(|x| *x as f64).collect();
        let (q, r) = Polynomial::new(uf.clone()).polydiv(&Polynomial::new(vf.clone())).unwrap();
        // exact reference
        let uq: Vec<Q> = u.iter().map(|x| Q::int(*x as i128)).collect();
        let vq: Vec<Q> = v.iter().map(|x| Q::int(*x as i128)).collect();
        let (qe, re) = ref_div(&uq, &vq);
        let qv = to_vec(&q); let rv = to_vec(&r);
        if rep % 3 != 2 {
            // dyadic: every intermediate exact => results must be exactly equal
            let f = |x: &Q| x.n as f64 / x.d as f64;
            let qe_f: Vec<f64> = qe.iter().map(f).collect();
            let re_f: Vec<f64> = re.iter().map(f).collect();
            assert!(same_poly(&qv, &qe_f), "q differs: u={:?} v={:?} q={:?} exact={:?}", u, v, qv, qe_f);
            assert!(same_poly(&rv, &re_f), "r differs: u={:?} v={:?} r={:?} exact={:?}", u, v, rv, re_f);
        } else {
            let f = |x: &Q| x.n as f64 / x.d as f64;
            let qmax = qe.iter().map(|x| f(x).abs()).fold(0.0, f64::max).max(1.0);
            for i in 0..qe.len().max(qv.len()) {
                let a = if i < qv.len() { qv[i] } else { 0.0 }; let b = if i < qe.len() { f(&qe[i]) } else { 0.0 };
                assert!((a - b).abs() <= 1e-9 * qmax * 1e3, "q far off: u={:?} v={:?} q={:?} exact={:?}", u, v, qv, qe);
            }
            let dr = rv.iter().rposition(|c| *c != 0.0);
            if let Some(dr) = dr { assert!(dr < dv, "deg r"); }
        }
    }}}
}

fn same_poly(a: &[f64], b: &[f64]) -> bool {
    let n = a.len().max(b.len());
    (0..n).all(|i| { let x = if i < a.len() { a[i] } else { 0.0 }; let y = if i < b.len() { b[i] } else { 0.0 }; x == y })
}

// textbook synthetic division over rationals (independent of the crate)
fn ref_div(u: &[Q], v: &[Q]) -> (Vec<Q>, Vec<Q>) {
    let dv = v.iter().rposition(|c| c.n != 0).unwrap();
    let mut r: Vec<Q> = u.to_vec();
    if u.len() <= dv { return (vec![], r); }
    let mut q = vec![Q::int(0); u.len() - dv];
    for k in (0..u.len() - dv).rev() {
        let c = r[k + dv] / v[dv];
        q[k] = c;
        for j in 0..=dv { r[k + j] = r[k + j] - c * v[j]; }
    }
    r.truncate(dv);
    (q, r)
}

#[test]
fn complex_exact_gaussian() {
    // Gaussian-integer coefficients with unit leading coefficient of v (1, -1, i, -i): every intermediate exact
    let mut rng = Rng(0x1111_2222_3333_4445);
    for du in 0..=10usize { for dv in 0..=6usize { for _ in 0..40 {
        let u: Vec<(i64, i64)> = (0..=du).map(|_| (rng.range(-4, 4), rng.range(-4, 4))).collect();
        let mut v: Vec<(i64, i64)> = (0..=dv).map(|_| (rng.range(-3, 3), rng.range(-3, 3))).collect();
        v[dv] = [(1, 0), (-1, 0), (0, 1), (0, -1)][(rng.next() % 4) as usize];
        let uc: Vec<Complex<f64>> = u.iter().map(|c| Complex::new(c.0 as f64, c.1 as f64)).collect();
        let vc: Vec<Complex<f64>> = v.iter().map(|c| Complex::new(c.0 as f64, c.1 as f64)).collect();
        let (q, r) = Polynomial::new(uc.clone()).polydiv(&Polynomial::new(vc.clone())).unwrap();
        let qv = to_vec(&q); let rv = to_vec(&r);
        // exact check with integer arithmetic
        let n = u.len().max(rv.len()).max(if qv.is_empty() { 0 } else { qv.len() + v.len() - 1 });
        let mut s = vec![(0.0f64, 0.0f64); n];
        for (i, a) in qv.iter().enumerate() { for (j, b) in v.iter().enumerate() {
            s[i + j].0 += a.real * b.0 as f64 - a.imag * b.1 as f64; s[i + j].1 += a.real * b.1 as f64 + a.imag * b.0 as f64; } }
        for (i, a) in rv.iter().enumerate() { s[i].0 += a.real; s[i].1 += a.imag; }
        for i in 0..n { let ui = if i < u.len() { u[i] } else { (0, 0) };
            assert!(s[i].0 == ui.0 as f64 && s[i].1 == ui.1 as f64, "identity: u={:?} v={:?} q={:?} r={:?}", u, v, qv, rv); }
        if let Some(dr) = rv.iter().rposition(|c| c.real != 0.0 || c.imag != 0.0) { assert!(dr < dv, "deg r: u={:?} v={:?} q={:?} r={:?}", u, v, qv, rv); }
    }}}
}
