// hunt: general f64 / f32 / Complex<f64> backward-residual sweeps with an error-free reference
use ohsl::{Polynomial, Complex};

struct Rng(u64);
impl Rng {
    fn next(&mut self) -> u64 { self.0 ^= self.0 << 13; self.0 ^= self.0 >> 7; self.0 ^= self.0 << 17; self.0 }
    fn unit(&mut self) -> f64 { (self.next() >> 11) as f64 / (1u64 << 53) as f64 }
    fn sign(&mut self) -> f64 { if self.next() & 1 == 0 { 1.0 } else { -1.0 } }
}

// Shewchuk grow-expansion: exact sum of f64s (no overflow assumed)
fn two_sum(a: f64, b: f64) -> (f64, f64) { let s = a + b; let bb = s - a; (s, (a - (s - bb)) + (b - bb)) }
fn two_prod(a: f64, b: f64) -> (f64, f64) { let p = a * b; (p, a.mul_add(b, -p)) }
fn grow(e: &mut Vec<f64>, b: f64) { let mut q = b; let mut out = Vec::with_capacity(e.len() + 1); for &x in e.iter() { let (s, err) = two_sum(q, x); if err != 0.0 { out.push(err); } q = s; } out.push(q); *e = out; }
fn approx(e: &[f64]) -> f64 { e.iter().sum() }

// residual metric: max_i |u_i - (q*v+r)_i| / (eps * (sum_j |q_j||v_{i-j}| + |r_i| + |u_i|))
fn metric(u: &[f64], v: &[f64], q: &[f64], r: &[f64]) -> f64 {
    let n = u.len().max(r.len()).max(if q.is_empty() { 0 } else { q.len() + v.len() - 1 });
    let mut worst: f64 = 0.0;
    for i in 0..n {
        let mut e: Vec<f64> = vec![]; let mut scale = 0.0;
        if i < u.len() { grow(&mut e, u[i]); scale += u[i].abs(); }
        if i < r.len() { grow(&mut e, -r[i]); scale += r[i].abs(); }
        for j in 0..q.len() { if i >= j && i - j < v.len() { let (p, pe) = two_prod(q[j], v[i - j]); grow(&mut e, -p); grow(&mut e, -pe); scale += (q[j] * v[i - j]).abs(); } }
        let res = approx(&e).abs();
        if res == 0.0 { continue; }
        // underflow floor: a few units of the smallest subnormal times the largest |v_j| and |q_j|
        let vmax = v.iter().fold(1.0f64, |a, b| a.max(b.abs())); let qmax = q.iter().fold(1.0f64, |a, b| a.max(b.abs()));
        if res <= 100.0 * 4.95e-324 * vmax.max(qmax) * (q.len() + 2) as f64 { continue; }
        if scale == 0.0 { return f64::INFINITY; }
        worst = worst.max(res / (f64::EPSILON * scale));
    }
    worst
}
fn to_vec<T: Copy>(p: &Polynomial<T>) -> Vec<T> { (0..p.size()).map(|i| p[i]).collect() }
fn deg_ok(r: &[f64], dv: usize) -> bool { match r.iter().rposition(|c| *c != 0.0) { None => true, Some(d) => d < dv } }

fn gen(rng: &mut Rng, mode: usize, lo: f64, hi: f64) -> f64 {
    // magnitudes 10^[lo,hi]
    match mode % 4 {
        0 => rng.sign() * 10f64.powf(lo + (hi - lo) * rng.unit()),
        1 => rng.sign() * if rng.next() & 1 == 0 { 10f64.powf(lo) } else { 10f64.powf(hi) } * (1.0 + rng.unit()),
        2 => rng.sign() * 10f64.powf(lo + (hi - lo) * rng.unit()).round().max(10f64.powf(lo)),
        _ => if rng.next() % 4 == 0 { 0.0 } else { rng.sign() * 10f64.powf(lo + (hi - lo) * rng.unit()) },
    }
}

#[test]
fn f64_general_sweep() {
    let mut rng = Rng(0x9e37_79b9_7f4a_7c15);
    let mut worst = 0.0f64; let mut wcase = String::new(); let mut n = 0u64;
    for scale_exp in [0.0f64, 100.0, -100.0, 140.0, -140.0] {
    for du in 0..=10usize { for dv in 0..=6usize { for rep in 0..200usize {
        let s = 10f64.powf(scale_exp);
        let u: Vec<f64> = (0..=du).map(|_| s * gen(&mut rng, rep, -3.0, 3.0)).collect();
        let mut v: Vec<f64> = (0..=dv).map(|_| gen(&mut rng, rep / 4, -3.0, 3.0)).collect();
        if v[dv] == 0.0 { v[dv] = 1e-3; }
        if rep % 7 == 0 { v[dv] = rng.sign() * 1e-3 * (1.0 + rng.unit()); } // small leading coefficient -> growth
        let res = Polynomial::new(u.clone()).polydiv(&Polynomial::new(v.clone()));
        let (q, r) = match res { Ok(x) => x, Err(e) => panic!("Err {} u={:?} v={:?}", e, u, v) };
        let (qv, rv) = (to_vec(&q), to_vec(&r));
        assert!(qv.iter().chain(rv.iter()).all(|x| x.is_finite()), "non-finite u={:?} v={:?} q={:?} r={:?}", u, v, qv, rv);
        assert!(deg_ok(&rv, dv), "deg r >= deg v: u={:?} v={:?} q={:?} r={:?}", u, v, qv, rv);
        let m = metric(&u, &v, &qv, &rv);
        if m > worst { worst = m; wcase = format!("u={:?}\nv={:?}\nq={:?}\nr={:?}", u, v, qv, rv); }
        n += 1;
    }}}}
    println!("f64 general: {} cases, worst residual metric {} (units of eps * sum|terms|)\n{}", n, worst, wcase);
    assert!(worst < 16.0);
}

#[test]
fn f64_one_ulp_and_ties() {
    // coefficients 1 ulp apart, repeated values, u = multiple of v (+ tiny), v == u, u = v * (1+ulp)
    let mut rng = Rng(0x1357_9bdf_2468_ace1);
    let mut worst = 0.0f64;
    for dv in 0..=6usize { for du in 0..=10usize { for rep in 0..100 {
        let base = 1.0 + rng.unit();
        let mut v: Vec<f64> = (0..=dv).map(|i| if rep % 2 == 0 { base } else { f64::from_bits(base.to_bits() + (i as u64 % 3)) }).collect();
        if rep % 3 == 0 { for x in v.iter_mut() { if rng.next() & 1 == 0 { *x = -*x; } } }
        let u: Vec<f64> = (0..=du).map(|i| { let x = if i <= dv { v[i] } else { base }; match rep % 4 { 0 => x, 1 => f64::from_bits(x.to_bits() + 1), 2 => f64::from_bits(x.to_bits() - 1), _ => x * 3.0 } }).collect();
        let (q, r) = Polynomial::new(u.clone()).polydiv(&Polynomial::new(v.clone())).unwrap();
        let (qv, rv) = (to_vec(&q), to_vec(&r));
        assert!(deg_ok(&rv, dv), "deg r: u={:?} v={:?} q={:?} r={:?}", u, v, qv, rv);
        let m = metric(&u, &v, &qv, &rv);
        assert!(m < 16.0, "metric {} u={:?} v={:?} q={:?} r={:?}", m, u, v, qv, rv);
        worst = worst.max(m);
    }}}
    println!("ulp/ties worst {}", worst);
}

#[test]
fn f32_sweep() {
    let mut rng = Rng(0x0f0f_1e1e_2d2d_3c3d);
    let mut worst = 0.0f64;
    for du in 0..=10usize { for dv in 0..=6usize { for rep in 0..200usize {
        let u: Vec<f32> = (0..=du).map(|_| gen(&mut rng, rep, -3.0, 3.0) as f32).collect();
        let mut v: Vec<f32> = (0..=dv).map(|_| gen(&mut rng, rep / 4, -3.0, 3.0) as f32).collect();
        if v[dv] == 0.0 { v[dv] = 1e-3; }
        let (q, r) = Polynomial::new(u.clone()).polydiv(&Polynomial::new(v.clone())).unwrap();
        let (qv, rv) = (to_vec(&q), to_vec(&r));
        if !qv.iter().chain(rv.iter()).all(|x| x.is_finite()) { let g = (v.iter().map(|x| x.abs() as f64).fold(0.0, f64::max) / v[dv].abs() as f64).powi((du + 1 - dv.min(du)) as i32) * 1e6; assert!(g > 1e30, "non-finite f32 without growth u={:?} v={:?} q={:?} r={:?}", u, v, qv, rv); continue; }
        let rd: Vec<f64> = rv.iter().map(|x| *x as f64).collect();
        assert!(deg_ok(&rd, dv));
        // residual in f64 (exact enough for f32 data)
        let n = u.len().max(rv.len()).max(if qv.is_empty() { 0 } else { qv.len() + v.len() - 1 });
        for i in 0..n {
            let mut s = 0.0f64; let mut sc = 0.0f64;
            if i < u.len() { s += u[i] as f64; sc += (u[i] as f64).abs(); }
            if i < rv.len() { s -= rv[i] as f64; sc += (rv[i] as f64).abs(); }
            for j in 0..qv.len() { if i >= j && i - j < v.len() { let p = qv[j] as f64 * v[i - j] as f64; s -= p; sc += p.abs(); } }
            if s != 0.0 { let m = s.abs() / (f32::EPSILON as f64 * sc); if m > worst { worst = m; } assert!(m < 16.0, "f32 metric {} u={:?} v={:?} q={:?} r={:?}", m, u, v, qv, rv); }
        }
    }}}
    println!("f32 worst {}", worst);
}

#[test]
fn complex_general_sweep() {
    let mut rng = Rng(0x7777_8888_9999_aaab);
    let mut worst = 0.0f64; let mut wcase = String::new();
    for (scale_exp, vs) in [(0.0f64, 1.0f64), (100.0, 1.0), (-100.0, 1.0), (140.0, 1.0), (-140.0, 1.0), (120.0, 1e120), (-120.0, 1e-120), (100.0, 1e-100), (-100.0, 1e100), (0.0, 1e120), (0.0, 1e-120)] {
    for du in 0..=10usize { for dv in 0..=6usize { for rep in 0..150usize {
        let s = 10f64.powf(scale_exp);
        let cg = |rng: &mut Rng, m: usize, s: f64| -> Complex<f64> {
            match (rng.next() % 6, m % 3) {
                (0, _) => Complex::new(s * gen(rng, m, -3.0, 3.0), 0.0),          // purely real
                (1, _) => Complex::new(0.0, s * gen(rng, m, -3.0, 3.0)),          // purely imaginary
                (2, 1) => Complex::new(-0.0, s * gen(rng, m, -3.0, 3.0)),         // signed zero
                (3, 2) => { let a = gen(rng, m, -3.0, 3.0); Complex::new(s * a, s * a) } // equal parts
                _ => Complex::new(s * gen(rng, m, -3.0, 3.0), s * gen(rng, m, -3.0, 3.0)),
            }
        };
        let u: Vec<Complex<f64>> = (0..=du).map(|_| cg(&mut rng, rep, s)).collect();
        let mut v: Vec<Complex<f64>> = (0..=dv).map(|_| cg(&mut rng, rep / 3, vs)).collect();
        if v[dv].real == 0.0 && v[dv].imag == 0.0 { v[dv] = Complex::new(0.0, -1e-3 * vs); }
        if vs != 1.0 || scale_exp.abs() > 100.0 { let m = v.iter().map(|c| c.real.hypot(c.imag)).fold(0.0, f64::max); let l = v[dv]; let a = l.real.hypot(l.imag); v[dv] = Complex::new(l.real / a * m, l.imag / a * m); }
        let (q, r) = match Polynomial::new(u.clone()).polydiv(&Polynomial::new(v.clone())) { Ok(x) => x, Err(e) => panic!("Err {} u={:?} v={:?}", e, u, v) };
        let (qv, rv) = (to_vec(&q), to_vec(&r));
        assert!(qv.iter().chain(rv.iter()).all(|x| x.real.is_finite() && x.imag.is_finite()), "non-finite u={:?} v={:?} q={:?} r={:?}", u, v, qv, rv);
        if let Some(d) = rv.iter().rposition(|c| c.real != 0.0 || c.imag != 0.0) { assert!(d < dv, "deg r: u={:?} v={:?} q={:?} r={:?}", u, v, qv, rv); }
        // residual, normwise per coefficient
        let n = u.len().max(rv.len()).max(if qv.is_empty() { 0 } else { qv.len() + v.len() - 1 });
        for i in 0..n {
            let mut er: Vec<f64> = vec![]; let mut ei: Vec<f64> = vec![]; let mut sc = 0.0;
            if i < u.len() { grow(&mut er, u[i].real); grow(&mut ei, u[i].imag); sc += u[i].real.hypot(u[i].imag); }
            if i < rv.len() { grow(&mut er, -rv[i].real); grow(&mut ei, -rv[i].imag); sc += rv[i].real.hypot(rv[i].imag); }
            for j in 0..qv.len() { if i >= j && i - j < v.len() {
                let (a, b) = (qv[j], v[i - j]);
                for (x, y, sg, re) in [(a.real, b.real, -1.0, true), (a.imag, b.imag, 1.0, true), (a.real, b.imag, -1.0, false), (a.imag, b.real, -1.0, false)] {
                    let (p, pe) = two_prod(x, y); let e = if re { &mut er } else { &mut ei }; grow(e, sg * p); grow(e, sg * pe);
                }
                sc += a.real.hypot(a.imag) * b.real.hypot(b.imag);
            } }
            let res = approx(&er).hypot(approx(&ei));
            if res != 0.0 { let m = res / (f64::EPSILON * sc); if m > worst { worst = m; wcase = format!("i={} u={:?}\nv={:?}\nq={:?}\nr={:?}", i, u, v, qv, rv); } }
        }
    }}}}
    println!("complex worst {} \n{}", worst, wcase);
    assert!(worst < 32.0);
}

#[test]
fn f64_extreme_scales_no_growth() {
    let mut rng = Rng(0x4242_4242_1717_1719);
    let mut worst = 0.0f64; let mut n = 0;
    for (su, sv) in [(1e290, 1e290), (1e-290, 1e-290), (1e290, 1.0), (1e-290, 1.0), (1.0, 1e290), (1.0, 1e-290), (1e150, 1e-150), (1e-150, 1e150), (1e300, 1e300), (1e-300, 1e-300)] {
    for du in 0..=10usize { for dv in 0..=6usize { for rep in 0..50usize {
        let u: Vec<f64> = (0..=du).map(|_| su * gen(&mut rng, rep, -3.0, 3.0)).collect();
        let mut v: Vec<f64> = (0..=dv).map(|_| sv * gen(&mut rng, rep / 4, -3.0, 3.0)).collect();
        v[dv] = rng.sign() * sv * 1e3 * (1.0 + rng.unit()); // dominant leading coefficient: |q_k| <= 2^k |u|/|v_lead|
        let (q, r) = Polynomial::new(u.clone()).polydiv(&Polynomial::new(v.clone())).unwrap();
        let (qv, rv) = (to_vec(&q), to_vec(&r));
        assert!(qv.iter().chain(rv.iter()).all(|x| x.is_finite()), "non-finite u={:?} v={:?} q={:?} r={:?}", u, v, qv, rv);
        assert!(deg_ok(&rv, dv));
        // rescale to compute the metric safely when products would leave the range
        let m = metric(&u, &v, &qv, &rv);
        if m.is_finite() { worst = worst.max(m); } else { println!("metric not finite for su={} sv={}", su, sv); }
        assert!(!(m > 16.0), "metric {} u={:?} v={:?} q={:?} r={:?}", m, u, v, qv, rv);
        n += 1;
    }}}}
    println!("extreme scales: {} cases worst {}", n, worst);
}
