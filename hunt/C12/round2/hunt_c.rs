// hunt: degenerate shapes, call sequences, edits through coeffs(), aliasing, Euclid chains
use ohsl::{Polynomial, Complex};

fn to_vec<T: Copy>(p: &Polynomial<T>) -> Vec<T> { (0..p.size()).map(|i| p[i]).collect() }
fn conv_add(q: &[f64], v: &[f64], r: &[f64], n: usize) -> Vec<f64> {
    let mut s = vec![0.0; n.max(r.len()).max(if q.is_empty() { 0 } else { q.len() + v.len() - 1 })];
    for (i, a) in q.iter().enumerate() { for (j, b) in v.iter().enumerate() { s[i + j] += a * b; } }
    for (i, a) in r.iter().enumerate() { s[i] += a; }
    s
}
fn check(u: &[f64], v: &[f64]) {
    let (q, r) = Polynomial::new(u.to_vec()).polydiv(&Polynomial::new(v.to_vec())).unwrap_or_else(|e| panic!("Err {} u={:?} v={:?}", e, u, v));
    let (qv, rv) = (to_vec(&q), to_vec(&r));
    let s = conv_add(&qv, v, &rv, u.len());
    for i in 0..s.len() { let ui = if i < u.len() { u[i] } else { 0.0 }; assert!(s[i] == ui, "identity x^{} u={:?} v={:?} q={:?} r={:?}", i, u, v, qv, rv); }
    let dv = v.iter().rposition(|c| *c != 0.0).unwrap();
    if let Some(d) = rv.iter().rposition(|c| *c != 0.0) { assert!(d < dv, "deg r u={:?} v={:?} q={:?} r={:?}", u, v, qv, rv); }
}

#[test]
fn degenerate_dividends_exact() {
    let divisors: Vec<Vec<f64>> = vec![vec![1.0], vec![-2.0], vec![0.0, 1.0], vec![1.0, -1.0], vec![-0.0, 0.0, 4.0], vec![1.0, 0.0, 0.0, 0.0, 0.0, 0.0, -1.0], vec![3.0, 0.0, 0.5]];
    let mut dividends: Vec<Vec<f64>> = vec![vec![], vec![0.0], vec![-0.0], vec![0.0; 11], vec![5.0], vec![5.0, 0.0, 0.0], vec![0.0, 0.0, 5.0], vec![1.0, 2.0, 3.0, 0.0, 0.0, 0.0, 0.0, 0.0],
        vec![-0.0, -0.0, 1.0, -0.0], vec![1.0; 11], vec![0.0, 0.0, 0.0, 0.0, 0.0, 0.0, 0.0, 0.0, 0.0, 0.0, 1.0]];
    // long padded dividend: true degree 2, stored length 3003
    let mut long = vec![1.0, 2.0, 3.0]; long.extend(std::iter::repeat(0.0).take(3000)); dividends.push(long);
    for u in &dividends { for v in &divisors { check(u, v); } }
}

#[test]
fn zero_divisors_are_errors() {
    for n in 0..=7usize {
        for z in [0.0f64, -0.0] {
            let v = Polynomial::new(vec![z; n]);
            for u in [vec![], vec![0.0], vec![1.0, 2.0, 3.0], vec![0.0; 4]] {
                assert!(Polynomial::new(u).polydiv(&v).is_err());
            }
        }
        let vc = Polynomial::new(vec![Complex::new(-0.0f64, 0.0); n]);
        assert!(Polynomial::new(vec![Complex::new(1.0f64, 1.0)]).polydiv(&vc).is_err());
        let vi = Polynomial::new(vec![0i32; n]);
        assert!(Polynomial::new(vec![1i32, 2]).polydiv(&vi).is_err());
    }
}

#[test]
fn sequences_and_edits() {
    // failed call then good call on the same objects
    let mut u = Polynomial::new(vec![1.0, 2.0, 3.0, 4.0]);
    let mut v = Polynomial::<f64>::empty();
    assert!(u.polydiv(&v).is_err());
    v.coeffs().push(1.0); v.coeffs().push(2.0);
    let (q, r) = u.polydiv(&v).unwrap();
    assert_eq!(to_vec(&q), vec![0.75, 0.5, 2.0]); assert_eq!(to_vec(&r), vec![0.25]);
    // edit through index, divide again
    v[1] = -2.0; v[0] = 0.0;
    let (q, r) = u.polydiv(&v).unwrap();
    assert_eq!(to_vec(&q), vec![-1.0, -1.5, -2.0]); assert_eq!(to_vec(&r), vec![1.0]);
    // make v zero through the index -> error, then non-zero again
    v[1] = 0.0; assert!(u.polydiv(&v).is_err());
    v[0] = 2.0; v.coeffs().pop();
    let (q, r) = u.polydiv(&v).unwrap();
    assert_eq!(to_vec(&q), vec![0.5, 1.0, 1.5, 2.0]); assert!(r.is_zero());
    // dividend emptied
    u.coeffs().clear();
    let (q, r) = u.polydiv(&v).unwrap();
    assert!(q.is_zero() && r.is_zero());
    // aliasing
    let w = Polynomial::new(vec![3.0, -7.0, 0.1, 1e-3]);
    let (q, r) = w.polydiv(&w).unwrap();
    assert_eq!(to_vec(&q), vec![1.0]); assert!(r.is_zero());
    // results reused as operands: quotient/remainder of a short-by-long division
    let a = Polynomial::new(vec![1.0, 1.0]); let b = Polynomial::new(vec![1.0, 2.0, 1.0]);
    let (q, r) = a.polydiv(&b).unwrap();
    assert!(q.is_zero()); assert_eq!(to_vec(&r), vec![1.0, 1.0]);
    assert!(b.polydiv(&q).is_err()); // q is the zero polynomial
    let (q2, r2) = b.polydiv(&r).unwrap();
    assert_eq!(to_vec(&q2), vec![1.0, 1.0]); assert!(r2.is_zero());
    assert!(r.polydiv(&r2).is_err());
    let (q3, r3) = q.polydiv(&b).unwrap(); assert!(q3.is_zero() && r3.is_zero());
    // constructors
    let c = Polynomial::cubic(0.0, 0.0, 2.0, 4.0); // leading zeros in the dividend
    let (q, r) = c.polydiv(&Polynomial::quadratic(0.5, 0.0, 1.0)).unwrap();
    assert!(q.is_zero()); assert_eq!(r[0], 4.0); assert_eq!(r[1], 2.0);
    let (q, r) = c.polydiv(&Polynomial::new(vec![2.0])).unwrap();
    assert_eq!(to_vec(&q), vec![2.0, 1.0]); assert!(r.is_zero());
}

#[test]
fn small_int_types_monic() {
    macro_rules! t { ($ty:ty) => {{
        let u = Polynomial::new(vec![3 as $ty, -2, 0, 5, 1, -1]);
        for v in [vec![1 as $ty], vec![-1 as $ty], vec![2 as $ty, 1], vec![-3 as $ty, 0, -1], vec![1 as $ty, 1, 1, 1, 1, 1, 1]] {
            let (q, r) = u.polydiv(&Polynomial::new(v.clone())).unwrap();
            let (qv, rv, uv) = (to_vec(&q), to_vec(&r), to_vec(&u));
            let n = 12; let mut s = vec![0i64; n];
            for (i, a) in qv.iter().enumerate() { for (j, b) in v.iter().enumerate() { s[i + j] += *a as i64 * *b as i64; } }
            for (i, a) in rv.iter().enumerate() { s[i] += *a as i64; }
            for i in 0..n { assert_eq!(s[i], if i < uv.len() { uv[i] as i64 } else { 0 }, "{} v={:?} q={:?} r={:?}", stringify!($ty), v, qv, rv); }
            if let Some(d) = rv.iter().rposition(|c| *c != 0) { assert!(d < v.len() - 1); }
        }
    }}}
    t!(i8); t!(i16); t!(i32); t!(i64); t!(isize);
}

#[test]
fn euclid_chain_f64_terminates() {
    // gcd by repeated division: every remainder handed back as the next divisor; must stop in <= deg+2 steps
    let mut seed = 0x2545_f491_4f6c_dd1du64;
    let mut rnd = || { seed ^= seed << 13; seed ^= seed >> 7; seed ^= seed << 17; ((seed >> 11) as f64 / (1u64 << 53) as f64) * 2.0 - 1.0 };
    for _ in 0..2000 {
        let da = 1 + (rnd().abs() * 10.0) as usize % 10; let db = (rnd().abs() * 7.0) as usize % 7;
        let mut a = Polynomial::new((0..=da).map(|_| rnd() * 1000.0).collect::<Vec<f64>>());
        let mut b = Polynomial::new((0..=db).map(|_| rnd() * 1000.0).collect::<Vec<f64>>());
        let mut steps = 0;
        loop {
            match a.polydiv(&b) {
                Err(_) => { assert!(b.is_zero()); break; }
                Ok((_q, r)) => {
                    if !r.is_zero() { assert!(r.degree().unwrap() < b.degree().unwrap(), "a={:?} b={:?} r={:?}", a, b, r); assert!(r[r.size() - 1] != 0.0); }
                    a = b; b = r;
                }
            }
            steps += 1; assert!(steps < 20);
        }
    }
}
