// C12 finding 1: Polynomial<Complex<f64>>::polydiv returns NaN (or a silently wrong quotient) when the
// divisor's leading coefficient has modulus above ~1.3e154 or below ~1e-154, although every coefficient
// is an ordinary finite normal f64, all coefficient ratios are O(1) and the exact q, r are O(1) / O(scale).
use ohsl::{Polynomial, Complex};
type C = Complex<f64>;

fn coeffs(p: &Polynomial<C>) -> Vec<C> { let mut c = p.clone(); c.coeffs().clone() }

// Independent check of u = q*v + r (plain complex arithmetic on the parts, all values rescaled by 1/s so
// that nothing in the check itself can overflow/underflow) and of deg r < deg v.
fn check(u: &[C], v: &[C], s: f64) {
    let (q, r) = Polynomial::new(u.to_vec()).polydiv(&Polynomial::new(v.to_vec())).expect("nonzero divisor must succeed");
    let (q, r) = (coeffs(&q), coeffs(&r));
    for z in q.iter().chain(r.iter()) {
        assert!(z.real.is_finite() && z.imag.is_finite(), "non-finite result: q = {:?}, r = {:?}", q, r);
    }
    if let Some(dr) = (0..r.len()).rev().find(|&i| r[i].real != 0.0 || r[i].imag != 0.0) {
        assert!(dr < v.len() - 1, "deg r = {} not below deg v = {}", dr, v.len() - 1);
    }
    let n = u.len().max(r.len()).max(if q.is_empty() { 0 } else { q.len() + v.len() - 1 });
    let (mut re, mut im) = (vec![0.0f64; n], vec![0.0f64; n]);
    for (i, a) in q.iter().enumerate() {
        for (j, b) in v.iter().enumerate() {
            let (br, bi) = (b.real / s, b.imag / s);
            re[i + j] += a.real * br - a.imag * bi;
            im[i + j] += a.real * bi + a.imag * br;
        }
    }
    for (i, a) in r.iter().enumerate() { re[i] += a.real / s; im[i] += a.imag / s; }
    for i in 0..n {
        let (ur, ui) = if i < u.len() { (u[i].real / s, u[i].imag / s) } else { (0.0, 0.0) };
        assert!((re[i] - ur).abs() <= 1e-12 && (im[i] - ui).abs() <= 1e-12,
            "u != q*v + r at x^{}: got ({}, {}), want ({}, {}); q = {:?}, r = {:?}", i, re[i], im[i], ur, ui, q, r);
    }
}

#[test]
fn constant_by_constant_large() {      // 3e200 / 1e200 : q = 3, r = 0      (crate: q = NaN)
    check(&[C::new(3e200, 0.0)], &[C::new(1e200, 0.0)], 1e200);
}

#[test]
fn constant_by_constant_small() {      // 3e-200 / 1e-200 : q = 3, r = 0    (crate: q = NaN)
    check(&[C::new(3e-200, 0.0)], &[C::new(1e-200, 0.0)], 1e-200);
}

#[test]
fn constant_by_constant_silently_wrong() { // 1.2345e-159 / 9.8765e-160 : q = 1.2499367184731434, r = 0 (crate: q = 1.2499366877032325, wrong in the 8th digit)
    check(&[C::new(1.2345e-159, 0.0)], &[C::new(9.8765e-160, 0.0)], 1e-160);
}

#[test]
fn quadratic_by_linear_scaled() {
    // u = s * [ 3+i, 2-5i, 1+2i ], v = s * [ 1-i, 2+i ]; exact q = [ -0.72-2.04i, 0.8+0.6i ], r = s*[ 5.76+2.32i ]
    for &s in &[1e155, 1e200, 1e-158, 1e-162, 1e-200] {
        let u = [C::new(3.0 * s, 1.0 * s), C::new(2.0 * s, -5.0 * s), C::new(1.0 * s, 2.0 * s)];
        let v = [C::new(1.0 * s, -1.0 * s), C::new(2.0 * s, 1.0 * s)];
        check(&u, &v, s);
    }
}

#[test]
fn sanity_moderate_scales_pass() {
    for &s in &[1.0, 1e100, 1e-100, 1e150, 1e-150] {
        let u = [C::new(3.0 * s, 1.0 * s), C::new(2.0 * s, -5.0 * s), C::new(1.0 * s, 2.0 * s)];
        let v = [C::new(1.0 * s, -1.0 * s), C::new(2.0 * s, 1.0 * s)];
        check(&u, &v, s);
        check(&[C::new(7.0 * s, 0.0)], &[C::new(3.0 * s, 0.0)], s);
    }
}
