// C14 finding 1: acsch (= asinh(1/z)) loses ~6 digits for small z in the left half-plane,
// so csch(acsch(z)) != z and acsch(x) != real asinh(1/x) on the negative real axis.
use ohsl::complex::Complex;
type C = Complex<f64>;

#[test]
fn acsch_is_right_inverse_of_csch_at_minus_1e_3() {
    let z = C::new(-1.0e-3, 0.0);
    let w = z.acsch();
    let back = w.csch();
    let rel = (back - z).abs() / z.abs();
    // a backward-stable asinh gives ~1e-15 here (the point is well conditioned)
    assert!(rel < 1.0e-11, "csch(acsch(-1e-3)) = {:?}, relative error {:e}", back, rel);
}

#[test]
fn acsch_reduces_to_real_asinh_on_negative_real_axis() {
    // asinh(-1000) = -ln(1000 + sqrt(1000001)) = -7.60090270954198861152...
    let exact = -7.600902709541988_f64;
    let w = C::new(-1.0e-3, 0.0).acsch();
    let rel = (w.real - exact).abs() / exact.abs();
    assert!(w.imag == 0.0 && rel < 1.0e-12, "acsch(-1e-3) = {:?}, expected {:?}, relative error {:e}", w, exact, rel);
}

#[test]
fn acsch_round_trip_on_circle_of_radius_1e_3() {
    // every point of the circle |z| = 1e-3 is inside the property's domain
    let mut worst = 0.0_f64;
    let mut at = C::new(0.0, 0.0);
    for k in 0..360 {
        let th = (k as f64).to_radians();
        let z = C::new(1.0e-3 * th.cos(), 1.0e-3 * th.sin());
        let rel = (z.acsch().csch() - z).abs() / z.abs();
        if rel > worst { worst = rel; at = z; }
    }
    assert!(worst < 1.0e-11, "worst relative round-trip error {:e} at z = {:?}", worst, at);
}
