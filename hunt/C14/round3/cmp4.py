import struct, cmath, math, sys
exec(open('/tmp/wt11/C14/_hunt/cmp.py').read().split("worst = {}")[0])
def nxt(x, k):
    if x == 0: return k*5e-324
    b = struct.unpack('<q', struct.pack('<d', x))[0]; return struct.unpack('<d', struct.pack('<q', b+k))[0]
def variants(z):
    rs = [z.real] if z.real != 0 else [0.0, -0.0]
    im = [z.imag] if z.imag != 0 else [0.0, -0.0]
    return [complex(a,b) for a in rs for b in im]
def rel(g, r):
    if g != g or math.isinf(g.real) or math.isinf(g.imag): return float('inf')
    d = abs(g-r); m = abs(r)
    return d/m if m>0 else (0.0 if d==0 else float('inf'))
rows = {}
for line in open('/tmp/wt11/C14/_hunt/out.txt'):
    p = line.split(); i = int(p[0]); name = p[1]
    if name == 'abs': continue
    z = ins[i]
    got = complex(fb(p[2]), fb(p[3]))
    f = ref[name]
    best = None
    for v in variants(z):
        try: r = f(v)
        except Exception: continue
        e = rel(got, r)
        if best is None or e < best[0]: best = (e, r, v)
    if best is None: continue
    if (z.real == 0 or z.imag == 0) and name in ('asec','acsc','acot','asech','acsch','acoth'): continue
    if name in ('asec','acsc','acsch') and abs(z) < 0.05: continue
    e, r, v = best
    if e < 1e-12: continue
    # conditioning filter
    c = 0.0
    for dz in [(1,0),(-1,0),(0,1),(0,-1)]:
        zz = complex(nxt(v.real,dz[0]) if dz[0] and v.real != 0 else v.real, nxt(v.imag,dz[1]) if dz[1] and v.imag != 0 else v.imag)
        try: c = max(c, rel(f(zz), r))
        except Exception: pass
    if e > 1e-12 + 20*c:
        rows.setdefault(name, []).append((e, c, z, got, r))
for name in rows:
    w = rows[name]; w.sort(key=lambda x: -x[0])
    print('==', name, len(w))
    for e, c, z, g, r in w[:int(sys.argv[1])]:
        print('   err=%.3g cond=%.2g z=(%r,%r) got=(%r,%r) ref=(%r,%r)' % (e, c, z.real, z.imag, g.real, g.imag, r.real, r.imag))
