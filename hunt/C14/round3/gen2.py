import struct, random, math
def bits(x): return '%x' % struct.unpack('<Q', struct.pack('<d', x))[0]
random.seed(2024)
def nxt(x, k): 
    b = struct.unpack('<q', struct.pack('<d', x))[0]; return struct.unpack('<d', struct.pack('<q', b+k))[0]
spec = [0.0, 0.5, 1.0, 2.0, nxt(1.0,1), nxt(1.0,-1), nxt(1.0,2), nxt(1.0,-3), 0.25, 3.0, 10.0, math.pi, math.pi/2, 1e-3]
def coord():
    u = random.random()
    s = random.choice([-1,1])
    if u < 0.45: return s*10**random.uniform(-3,1)
    if u < 0.75: return s*10**random.uniform(-320,-3)
    if u < 0.85: return s*(1 + random.choice([-1,1])*10**random.uniform(-16,-2))
    return s*random.choice(spec)
pts = []
while len(pts) < 400000:
    a = coord(); b = coord()
    if 1e-3 <= math.hypot(a,b) <= 10: pts.append((a,b))
with open('/tmp/wt11/C14/_hunt/in.txt','w') as f:
    for a,b in pts: f.write(bits(a)+' '+bits(b)+'\n')
print(len(pts))
