// C14: general powers must satisfy z^w = exp(w ln z), also at points adjacent to the branch point 0.
// pow/powf work from abs_sqr() = x^2 + y^2, which falls into the subnormal range (gradual underflow)
// for 1.0e-160 < |z| < 1.5e-154 and keeps only a few bits there; sqrt(), ln(), abs() at the same
// points are accurate to rounding.
use ohsl::complex::Complex;
type C = Complex<f64>;

fn rel(a: C, b: C) -> f64 { (a - b).abs() / b.abs() }

#[test]
fn powers_of_a_tiny_z_agree_with_exp_w_ln_z() {
    // z = u * 2^-525 with a generic u; |z| = 5.7e-159 ( further than 1e-160 from the branch point )
    let s = f64::powi(2.0, -525);
    let u = C::new(-0.3, 0.55);
    let z = C::new(u.real * s, u.imag * s);                 // exact scaling
    let mut worst: f64 = 0.0;

    // z^1 = z ( exactly known reference )
    let e1 = rel(z.powf(1.0), z);
    let e2 = rel(z.pow(&C::new(1.0, 0.0)), z);
    // z^(1/2) = sqrt(u) * 2^-262.5 : textbook half-angle formula on u, exact power-of-two scaling
    let m = (u.real * u.real + u.imag * u.imag).sqrt();
    let su = C::new(((m + u.real) / 2.0).sqrt(), ((m - u.real) / 2.0).sqrt());   // Im u > 0
    let half = f64::powi(2.0, -263) * std::f64::consts::SQRT_2;                    // 2^-262.5
    let r = C::new(su.real * half, su.imag * half);
    let e3 = rel(z.powf(0.5), r);
    // z^-1 = conj(u) / |u|^2 * 2^525
    let t = f64::powi(2.0, 525) / (m * m);
    let inv = C::new(u.real * t, -u.imag * t);
    let e4 = rel(z.powf(-1.0), inv);
    // complex exponent: z^w = exp( w * ( ln|u| - 525 ln 2 + i arg u ) ), reference in plain f64
    let w = C::new(0.7, -0.4);
    let lr = m.ln() - 525.0 * std::f64::consts::LN_2;
    let li = u.imag.atan2(u.real);
    let er = w.real * lr - w.imag * li;
    let ei = w.real * li + w.imag * lr;
    let refw = C::new(er.exp() * ei.cos(), er.exp() * ei.sin());
    let e5 = rel(z.pow(&w), refw);
    // the crate's own exp( w ln z ) agrees with that reference
    let e6 = rel((w * z.ln()).exp(), refw);

    println!("powf(1) {:.2e}  pow(1) {:.2e}  powf(.5) {:.2e}  powf(-1) {:.2e}  pow(w) {:.2e}  exp(w ln z) {:.2e}", e1, e2, e3, e4, e5, e6);
    for e in [e1, e2, e3, e4, e5] { worst = worst.max(e); }
    assert!(e6 < 1.0e-12, "exp( w ln z ) itself is off: {:e}", e6);
    assert!(worst < 1.0e-12, "z^w differs from exp( w ln z ) by a relative {:e} at |z| = {:e}", worst, z.abs());
}
