import struct, cmath, math, sys
exec(open('/tmp/wt11/C14/_hunt/cmp.py').read().split("worst = {}")[0])
thr = float(sys.argv[1]); 
rows = {}
def variants(z):
    res = []
    rs = [z.real] if z.real != 0 else [0.0, -0.0]
    im = [z.imag] if z.imag != 0 else [0.0, -0.0]
    return [complex(a,b) for a in rs for b in im]
for line in open('/tmp/wt11/C14/_hunt/out.txt'):
    p = line.split(); i = int(p[0]); name = p[1]
    z = ins[i]
    if name == 'abs': continue
    if not (1e-3 <= abs(z) <= 10): continue
    if not (z.real == 0 or z.imag == 0): continue
    got = complex(fb(p[2]), fb(p[3]))
    best = None
    for v in variants(z):
        try: r = ref[name](v)
        except Exception: continue
        if got != got or math.isinf(got.real) or math.isinf(got.imag): err = float('inf')
        else:
            d = abs(got - r); m = abs(r); err = d/m if m > 0 else (0.0 if d == 0 else float('inf'))
        if best is None or err < best[0]: best = (err, z, got, r)
    if best and best[0] >= thr: rows.setdefault(name, []).append(best)
for name in rows:
    w = rows[name]; w.sort(key=lambda x: -x[0])
    print('==', name, len(w))
    for e, z, g, r in w[:int(sys.argv[2])]:
        print('   err=%.3g z=(%r,%r) got=(%r,%r) ref=(%r,%r)' % (e, z.real, z.imag, g.real, g.imag, r.real, r.imag))
