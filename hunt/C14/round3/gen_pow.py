import struct, random, math
def bits(x): return '%x' % struct.unpack('<Q', struct.pack('<d', x))[0]
random.seed(777)
ulp = 2.0**-52
zb = [0.0, 1e-120, 1e-40, 1e-16, 1e-7, 1e-3, 0.3, 0.55, 0.7, 1-ulp/2, 1.0, 1+ulp, 1.5, 2.3, 4.524, 7.1, 10.0]
wb = [0.0, 1e-120, 1e-16, 1e-7, 0.001, 0.3, 0.5, 0.55, 1/3, 1.0, 1.5, 2.0, 2.9, 3.0, math.pi]
def sg(l): return [s*x for x in l for s in (1,-1)]
pts = []
for a in sg(zb):
  for b in sg(zb):
    if not (1e-3 <= math.hypot(a,b) <= 10): continue
    for c in sg(wb):
      for d in sg(wb):
        if math.hypot(c,d) <= 3.2: pts.append((a,b,c,d))
for k in range(100000):
    r = 10**random.uniform(-3,1); t = random.uniform(-math.pi, math.pi)
    s = 3*random.random(); u = random.uniform(-math.pi, math.pi)
    pts.append((r*math.cos(t), r*math.sin(t), s*math.cos(u), s*math.sin(u)))
with open('/tmp/wt11/C14/_hunt/in_pow.txt','w') as f:
    for p in pts: f.write(' '.join(bits(x) for x in p)+'\n')
print(len(pts))
