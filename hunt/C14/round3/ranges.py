import struct, math
def fb(s): return struct.unpack('<d', struct.pack('<Q', int(s,16)))[0]
ins = []
for line in open('/tmp/wt11/C14/_hunt/in.txt'):
    p = line.split(); ins.append(complex(fb(p[0]), fb(p[1])))
H = math.pi/2; P = math.pi
chk = {
 'sqrt': lambda w: -w.real,
 'ln': lambda w: abs(w.imag)-P,
 'asin': lambda w: abs(w.real)-H, 'acsc': lambda w: abs(w.real)-H,
 'acos': lambda w: max(-w.real, w.real-P), 'asec': lambda w: max(-w.real, w.real-P),
 'atan': lambda w: abs(w.real)-H, 'acot': lambda w: abs(w.real)-H,
 'asinh': lambda w: abs(w.imag)-H, 'acsch': lambda w: abs(w.imag)-H,
 'atanh': lambda w: abs(w.imag)-H, 'acoth': lambda w: abs(w.imag)-H,
 'acosh': lambda w: max(-w.real, abs(w.imag)-P), 'asech': lambda w: max(-w.real, abs(w.imag)-P),
}
worst = {}
for line in open('/tmp/wt11/C14/_hunt/out.txt'):
    p = line.split(); i = int(p[0]); name = p[1]
    if name not in chk: continue
    z = ins[i]
    if not (1e-3 <= abs(z) <= 10): continue
    w = complex(fb(p[2]), fb(p[3]))
    if w != w: continue
    v = chk[name](w)
    if v > 0:
        worst.setdefault(name, []).append((v, z, w))
for k in worst:
    worst[k].sort(key=lambda x: -x[0])
    print(k, len(worst[k]))
    for r in worst[k][:4]: print('   ', r)
