import struct, cmath, math, sys
def fb(s): return struct.unpack('<d', struct.pack('<Q', int(s,16)))[0]
ins = []
for line in open('/tmp/wt11/C14/_hunt/in.txt'):
    p = line.split(); ins.append(complex(fb(p[0]), fb(p[1])))
def inv(z): return 1/z
ref = {
 'sqrt': cmath.sqrt, 'exp': cmath.exp, 'ln': cmath.log,
 'sin': cmath.sin, 'cos': cmath.cos, 'tan': cmath.tan,
 'sec': lambda z: 1/cmath.cos(z), 'csc': lambda z: 1/cmath.sin(z), 'cot': lambda z: 1/cmath.tan(z),
 'asin': cmath.asin, 'acos': cmath.acos, 'atan': cmath.atan,
 'asec': lambda z: cmath.acos(1/z), 'acsc': lambda z: cmath.asin(1/z), 'acot': lambda z: cmath.atan(1/z),
 'sinh': cmath.sinh, 'cosh': cmath.cosh, 'tanh': cmath.tanh,
 'sech': lambda z: 1/cmath.cosh(z), 'csch': lambda z: 1/cmath.sinh(z), 'coth': lambda z: 1/cmath.tanh(z),
 'asinh': cmath.asinh, 'acosh': cmath.acosh, 'atanh': cmath.atanh,
 'asech': lambda z: cmath.acosh(1/z), 'acsch': lambda z: cmath.asinh(1/z), 'acoth': lambda z: cmath.atanh(1/z),
}
worst = {}
import collections
hist = collections.defaultdict(lambda: collections.Counter())
for line in open('/tmp/wt11/C14/_hunt/out.txt'):
    p = line.split(); i = int(p[0]); name = p[1]
    z = ins[i]
    if name == 'abs': continue
    got = complex(fb(p[2]), fb(p[3]))
    try:
        r = ref[name](z)
    except Exception as e:
        r = None
    if r is None:
        err = float('nan')
    elif got != got or math.isinf(got.real) or math.isinf(got.imag):
        err = float('inf')
    else:
        d = abs(got - r); m = abs(r)
        err = d/m if m > 0 else (0.0 if d == 0 else float('inf'))
    if err != err: b = 'nanref'
    elif err == float('inf'): b = 'inf'
    elif err == 0: b = -20
    else: b = max(-20, math.floor(math.log10(err)))
    hist[name][b] += 1
    worst.setdefault(name, []).append((err, z, got, r))
for name in ref:
    w = [x for x in worst[name] if x[0] == x[0]]
    w.sort(key=lambda x: -x[0])
    print('==', name, sorted(hist[name].items(), key=lambda kv: str(kv[0])))
    for e, z, g, r in w[:int(sys.argv[1]) if len(sys.argv)>1 else 6]:
        print('   err=%.3g z=(%r,%r) got=(%r,%r) ref=(%r,%r)' % (e, z.real, z.imag, g.real, g.imag, r.real, r.imag))
