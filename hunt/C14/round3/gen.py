import struct, random, math
def bits(x): return '%x' % struct.unpack('<Q', struct.pack('<d', x))[0]
random.seed(12345)
ulp = 2.0**-52
base = [0.0, 1e-300, 1e-160, 1e-120, 1e-40, 1e-20, 1e-16, 3e-13, 1e-10, 1e-7, 1e-5, 1e-3, 0.013, 0.3, 0.55, 0.7, 0.999, 1-1e-7, 1-ulp/2, 1.0, 1+ulp, 1+1e-7, 1.001, 1.5, 2.3, 3.14159, 4.7, 7.1, 9.99, 10.0, math.pi/2, math.pi, 45.24e-1]
S = []
for b in base:
    S.append(b); S.append(-b)
pts = []
for a in S:
    for b in S:
        if math.hypot(a,b) <= 10.0 and (a != 0 or b != 0):
            pts.append((a,b))
for k in range(30000):
    r = 10**random.uniform(-3, 1)
    t = random.uniform(-math.pi, math.pi)
    pts.append((r*math.cos(t), r*math.sin(t)))
# near-axis generics
for k in range(10000):
    a = random.choice([-1,1])*10**random.uniform(-3,1)
    b = random.choice([-1,1])*10**random.uniform(-40,-3)
    if random.random()<0.5: pts.append((a,b))
    else: pts.append((b,a))
# near branch points
for k in range(10000):
    c = random.choice([(1,0),(-1,0),(0,1),(0,-1)])
    d = 10**random.uniform(-15,-1)
    t = random.uniform(-math.pi, math.pi)
    pts.append((c[0]+d*math.cos(t), c[1]+d*math.sin(t)))
with open('/tmp/wt11/C14/_hunt/in.txt','w') as f:
    for a,b in pts:
        f.write(bits(a)+' '+bits(b)+'\n')
print(len(pts))
