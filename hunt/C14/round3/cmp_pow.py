import struct, cmath, math, sys
def fb(s): return struct.unpack('<d', struct.pack('<Q', int(s,16)))[0]
ins = [tuple(fb(x) for x in l.split()) for l in open('/tmp/wt11/C14/_hunt/in_pow.txt')]
W = {'pow':[], 'powf':[], 'log':[], 'polar':[]}
def rel(g, r):
    if g != g or math.isinf(g.real) or math.isinf(g.imag): return float('inf')
    d = abs(g-r); m = abs(r)
    return d/m if m>0 else (0.0 if d==0 else float('inf'))
for l in open('/tmp/wt11/C14/_hunt/out_pow.txt'):
    p = l.split(); i = int(p[0]); v = [fb(x) for x in p[1:]]
    a,b,c,d = ins[i]
    z = complex(a,b); w = complex(c,d)
    onneg = (b == 0 and a < 0)
    if not onneg:
        lz = cmath.log(z)
        r = cmath.exp(w*lz)
        W['pow'].append((rel(complex(v[0],v[1]), r), z, w, complex(v[0],v[1]), r))
        r = cmath.exp(c*lz)
        W['powf'].append((rel(complex(v[2],v[3]), r), z, c, complex(v[2],v[3]), r))
        if not (d == 0 and c <= 0) and w != 0 and w != 1:
            r = lz/cmath.log(w)
            W['log'].append((rel(complex(v[4],v[5]), r), z, w, complex(v[4],v[5]), r))
    if abs(d) <= math.pi and a != 0:
        e = max(abs(v[6]-abs(a))/abs(a), abs(v[7]-d)/abs(d) if d != 0 else abs(v[7]))
        W['polar'].append((e, abs(a), d, v[6], v[7]))
for k in W:
    W[k].sort(key=lambda x: -(x[0] if x[0]==x[0] else 1e99))
    print('==', k, len(W[k]))
    for row in W[k][:int(sys.argv[1])]: print('   ', row)
