// acsch loses 6 digits for small |z| with Re z < 0 ( |z| = 1e-3 is inside the property's domain ):
// on the negative real axis it does not reduce to the real function, and csch( acsch z ) misses z by 1e-10 |z|.
use ohsl::complex::Cmplx;

fn inv(x: f64, y: f64) -> (f64, f64) { let d = x * x + y * y; (x / d, -y / d) }
fn csch(a: f64, b: f64) -> (f64, f64) { inv(a.sinh() * b.cos(), a.cosh() * b.sin()) }
fn rel(g: (f64, f64), z: (f64, f64)) -> f64 { (g.0 - z.0).hypot(g.1 - z.1) / z.0.hypot(z.1) }

#[test]
fn acsch_reduces_to_the_real_function() {
    for &x in [-0.001f64, -0.002, -0.005, 0.001, 0.002].iter() {
        let a = Cmplx::new(x, 0.0).acsch();
        let want = (1.0 / x).asinh(); // -7.600902709541988 for x = -0.001
        assert!(a.imag == 0.0);
        assert!((a.real - want).abs() < 1e-13 * want.abs(), "acsch( {} ) = {:e}, real asinh( 1/x ) = {:e}, rel. error {:e}", x, a.real, want, ((a.real - want) / want).abs());
    }
}

#[test]
fn csch_of_acsch_returns_z() {
    for &z in [(-0.001, 0.0), (-0.001, -0.001), (-0.001, 0.001), (-0.002, 0.0), (-0.0005, 0.002)].iter() {
        let a = Cmplx::new(z.0, z.1).acsch();
        let e = rel(csch(a.real, a.imag), z);
        assert!(e < 1e-12, "csch( acsch z ) misses z = {:?} by {:e} |z|", z, e);
    }
}
