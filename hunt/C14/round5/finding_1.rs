// asec / acsc lose 6 digits for small |z| (|z| = 1e-3 is inside the property's domain):
// sec( asec z ) and csc( acsc z ) miss z by 1.5e-10 |z|, and asec( -0.001 ) itself is off in the 10th digit.
use ohsl::complex::Cmplx;

// independent forward functions from the real ones
fn inv(x: f64, y: f64) -> (f64, f64) { let d = x * x + y * y; (x / d, -y / d) }
fn sec(a: f64, b: f64) -> (f64, f64) { inv(a.cos() * b.cosh(), -a.sin() * b.sinh()) }
fn csc(a: f64, b: f64) -> (f64, f64) { inv(a.sin() * b.cosh(), a.cos() * b.sinh()) }
fn rel(g: (f64, f64), z: (f64, f64)) -> f64 { (g.0 - z.0).hypot(g.1 - z.1) / z.0.hypot(z.1) }

#[test]
fn asec_value_on_the_negative_real_axis() {
    // asec( -0.001 ) = acos( -1000 ) = pi -+ i acosh( 1000 )
    let a = Cmplx::new(-0.001, 0.0).asec();
    let want_im = 1000f64.acosh(); // 7.600902209541989
    assert!((a.real - std::f64::consts::PI).abs() < 1e-13, "Re asec(-0.001) = {:e}, pi = {:e}", a.real, std::f64::consts::PI);
    assert!((a.imag.abs() - want_im).abs() < 1e-13 * want_im, "|Im asec(-0.001)| = {:e}, acosh(1000) = {:e}", a.imag.abs(), want_im);
}

#[test]
fn acsc_value_on_the_negative_real_axis() {
    // acsc( -0.001 ) = asin( -1000 ) = -pi/2 +- i acosh( 1000 )
    let a = Cmplx::new(-0.001, 0.0).acsc();
    let want_im = 1000f64.acosh();
    assert!((a.real + std::f64::consts::FRAC_PI_2).abs() < 1e-13, "Re acsc(-0.001) = {:e}", a.real);
    assert!((a.imag.abs() - want_im).abs() < 1e-13 * want_im, "|Im acsc(-0.001)| = {:e}, acosh(1000) = {:e}", a.imag.abs(), want_im);
}

#[test]
fn sec_of_asec_and_csc_of_acsc_return_z() {
    for &z in [(-0.001, 0.0), (-0.001, -0.001), (0.001, -0.001), (0.0, -0.001), (-0.002, 0.0), (-0.005, 0.0)].iter() {
        let a = Cmplx::new(z.0, z.1).asec();
        let e = rel(sec(a.real, a.imag), z);
        assert!(e < 1e-12, "sec( asec z ) misses z = {:?} by {:e} |z| ( own sec ); crate's sec gives {:?}", z, e, a.sec());
        let b = Cmplx::new(z.0, z.1).acsc();
        let e = rel(csc(b.real, b.imag), z);
        assert!(e < 1e-12, "csc( acsc z ) misses z = {:?} by {:e} |z|", z, e);
    }
}
