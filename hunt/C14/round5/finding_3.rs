// Just above the cuts [1, inf) and (-inf, -1] ( z = x + i y, y > 0 tiny ) the real parts of asin and acos leave the
// principal range: Re asin > pi/2, Re acos < 0 ( or > pi ) by up to 2e-14 - the true values are inside by ~1e-15.
// ( Borderline: the excess is ~50 ulp of pi/2; the slack below is 1e-15 = 4.5 ulp. )
use ohsl::complex::Cmplx;

#[test]
fn principal_range_of_asin_and_acos_next_to_the_cut() {
    let pi = std::f64::consts::PI;
    let slack = 1e-15;
    for &z in [(10.0, 1e-14), (8.0, 1e-14), (9.0, 1e-15), (-10.0, 1e-14), (9.801211573862377, 1.6300659018103033e-15)].iter() {
        let a = Cmplx::new(z.0, z.1).asin();
        let c = Cmplx::new(z.0, z.1).acos();
        assert!(a.real.abs() <= pi / 2.0 + slack, "Re asin{:?} = {:e} is outside [-pi/2, pi/2] by {:e}", z, a.real, a.real.abs() - pi / 2.0);
        assert!(c.real >= -slack && c.real <= pi + slack, "Re acos{:?} = {:e} is outside [0, pi]", z, c.real);
    }
}
