// Im ln z must lie in (-pi, pi]: every point of the negative real axis has Im ln z = +pi.
// The crate returns -pi when the (zero) imaginary part carries a minus sign, which is what
// unary minus, conj() and multiplication by a negative real produce from an ordinary real number.
use ohsl::Cmplx;
use ohsl::constant::PI;

#[test]
fn ln_of_negated_positive_real_is_on_the_principal_branch() {
    let one = Cmplx::new(1.0, 0.0);
    let z = -one;                                  // the point -1 on the negative real axis
    assert!(z == Cmplx::new(-1.0, 0.0));           // the crate itself says it is the same number
    let l = z.ln();
    assert!(l.imag > -PI && l.imag <= PI, "Im ln(-1) = {} is not in (-pi, pi]", l.imag);
    assert!((l.imag - PI).abs() < 1e-12, "ln(-1) = {:?}, expected i*pi", l);
}

#[test]
fn ln_of_conjugate_and_scaled_negative_reals() {
    for &x in &[1e-3, 0.5, 1.0, 2.0, 10.0] {
        let a = Cmplx::new(-x, 0.0).conj();        // still the real number -x
        let b = Cmplx::new(x, 0.0) * -1.0;         // still the real number -x
        for z in [a, b] {
            assert!(z == Cmplx::new(-x, 0.0));
            let l = z.ln();
            assert!(l.imag > -PI && l.imag <= PI, "Im ln({}) = {} is not in (-pi, pi]", -x, l.imag);
            // one number, one logarithm
            let r = Cmplx::new(-x, 0.0).ln();
            assert!((l.imag - r.imag).abs() < 1e-12, "ln gives {:?} and {:?} for the same number {}", l, r, -x);
        }
    }
}
