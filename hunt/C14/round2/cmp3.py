import cmath, math, sys, collections
fw = {'sqrt': lambda w: w*w, 'ln': cmath.exp, 'asin': cmath.sin, 'acos': cmath.cos, 'atan': cmath.tan,
 'asec': lambda w: 1/cmath.cos(w), 'acsc': lambda w: 1/cmath.sin(w), 'acot': lambda w: cmath.cos(w)/cmath.sin(w),
 'asinh': cmath.sinh, 'acosh': cmath.cosh, 'atanh': cmath.tanh,
 'asech': lambda w: 1/cmath.cosh(w), 'acsch': lambda w: 1/cmath.sinh(w), 'acoth': lambda w: cmath.cosh(w)/cmath.sinh(w)}
pi=math.pi
rng = {'sqrt': lambda w: w.real>=0, 'ln': lambda w: -pi < w.imag <= pi, 'asin': lambda w: abs(w.real)<=pi/2+1e-12, 'acos': lambda w: -1e-12<=w.real<=pi+1e-12,
  'acsc': lambda w: abs(w.real)<=pi/2+1e-12, 'asec': lambda w: -1e-12<=w.real<=pi+1e-12,
  'atan': lambda w: abs(w.real)<=pi/2+1e-12, 'acot': lambda w: abs(w.real)<=pi/2+1e-12,
  'asinh': lambda w: abs(w.imag)<=pi/2+1e-12, 'acosh': lambda w: w.real>=-1e-12 and -pi<w.imag<=pi, 'atanh': lambda w: abs(w.imag)<=pi/2+1e-12,
  'asech': lambda w: w.real>=-1e-12 and -pi<w.imag<=pi, 'acsch': lambda w: abs(w.imag)<=pi/2+1e-12, 'acoth': lambda w: abs(w.imag)<=pi/2+1e-12}
bad = collections.defaultdict(list); seen=set()
for line in open('DUMPFILE'):
    if line in seen: continue
    seen.add(line)
    n,x,y,a,b = line.split()
    if n not in fw: continue
    x,y,a,b = map(float,(x,y,a,b))
    z = complex(x,y); w = complex(a,b)
    if w!=w or abs(w)==float('inf'): bad[n+':nan'].append((z,w)); continue
    try: back = fw[n](w)
    except Exception as e: bad[n+':exc'].append((z,w)); continue
    if abs(back-z) > 1e-8*max(1,abs(z)): bad[n+':inv'].append((abs(back-z),z,w,back))
    if not rng[n](w): bad[n+':range'].append((z,w))
for n,l in bad.items():
    print(n,len(l))
    for t in l[:12]: print('   ',t)
