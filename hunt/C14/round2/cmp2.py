import cmath, math, sys, collections
sys.argv=[sys.argv[0]]
exec(open('cmp.py').read().split("worst =")[0])
worst = collections.defaultdict(list)
seen=set()
for line in open('DUMPFILE'):
    if line in seen: continue
    seen.add(line)
    n,x,y,a,b = line.split()
    x,y,a,b = map(float,(x,y,a,b))
    if x==0 or y==0: continue
    z = complex(x,y); w = complex(a,b)
    try: r = ref(n,z)
    except Exception as e:
        worst[n].append((float('inf'), z, w, str(e))); continue
    if w != w:
        worst[n].append((float('inf'), z, w, r)); continue
    err = abs(w-r)/max(1.0, abs(r))
    if err > 1e-8: worst[n].append((err, z, w, r))
for n,l in worst.items():
    l.sort(key=lambda t:(-t[0], abs(t[1])))
    print(n, len(l))
    for t in l[:40]: print('   ', t)
