import cmath, math, sys, collections
def ref(name, z):
    inv = lambda: 1/z
    f = {
     'sqrt': cmath.sqrt, 'exp': cmath.exp, 'ln': cmath.log, 'sin': cmath.sin, 'cos': cmath.cos, 'tan': cmath.tan,
     'sec': lambda z: 1/cmath.cos(z), 'csc': lambda z: 1/cmath.sin(z), 'cot': lambda z: cmath.cos(z)/cmath.sin(z),
     'asin': cmath.asin, 'acos': cmath.acos, 'atan': cmath.atan,
     'asec': lambda z: cmath.acos(1/z), 'acsc': lambda z: cmath.asin(1/z), 'acot': lambda z: cmath.atan(1/z),
     'sinh': cmath.sinh, 'cosh': cmath.cosh, 'tanh': cmath.tanh,
     'sech': lambda z: 1/cmath.cosh(z), 'csch': lambda z: 1/cmath.sinh(z), 'coth': lambda z: cmath.cosh(z)/cmath.sinh(z),
     'asinh': cmath.asinh, 'acosh': cmath.acosh, 'atanh': cmath.atanh,
     'asech': lambda z: cmath.acosh(1/z), 'acsch': lambda z: cmath.asinh(1/z), 'acoth': lambda z: cmath.atanh(1/z),
     'abs': lambda z: complex(abs(z),0), 'arg': lambda z: complex(cmath.phase(z),0), 'polar': lambda z: z,
    }[name]
    return f(z)
worst = collections.defaultdict(list)
tol = float(sys.argv[1]) if len(sys.argv)>1 else 1e-8
for line in open('dump.txt'):
    n,x,y,a,b = line.split()
    x,y,a,b = map(float,(x,y,a,b))
    z = complex(x,y); w = complex(a,b)
    try: r = ref(n,z)
    except Exception as e:
        worst[n].append((float('inf'), z, w, str(e))); continue
    if w != w:
        worst[n].append((float('inf'), z, w, r)); continue
    err = abs(w-r)/max(1.0, abs(r))
    if err > tol: worst[n].append((err, z, w, r))
for n,l in worst.items():
    l.sort(key=lambda t:-t[0])
    print(n, len(l))
    for t in l[:int(sys.argv[2]) if len(sys.argv)>2 else 6]: print('   ', t)
