import cmath, math, sys, collections
sys.argv=[sys.argv[0]]
exec(open('cmp.py').read().split("worst =")[0])
seen=set(); out=collections.defaultdict(set)
for line in open('dump.txt'):
    if line in seen: continue
    seen.add(line)
    n,x,y,a,b = line.split()
    x,y,a,b = map(float,(x,y,a,b))
    if not (x==0 or y==0): continue
    z = complex(x,y); w = complex(a,b)
    try: r = ref(n,z)
    except Exception as e: continue
    if w!=w: out[n].add(('nan',z)); continue
    err = abs(w-r)/max(1.0, abs(r))
    if err > 1e-8: out[n].add((str(z)))
for n,s in out.items(): print(n, sorted(s, key=str))
