import cmath, collections
bad=collections.defaultdict(list)
for line in open('dump_pow.txt'):
    n,x,y,u,v,a,b=line.split(); x,y,u,v,a,b=map(float,(x,y,u,v,a,b))
    z=complex(x,y); w=complex(u,v); r=complex(a,b)
    try:
        if n in('pow','powf'): ref=cmath.exp(w*cmath.log(z))
        else: ref=cmath.log(z)/cmath.log(w)
    except Exception as e:
        bad[n+':exc'].append((z,w,r)); continue
    if r!=r: bad[n+':nan'].append((z,w,r,ref)); continue
    err=abs(r-ref)/max(1,abs(ref))
    if err>1e-9: bad[n].append((err,z,w,r,ref))
for n,l in bad.items():
    print(n,len(l))
    if l and isinstance(l[0][0],float): l.sort(key=lambda t:-t[0])
    for t in l[:15]: print('  ',t)
