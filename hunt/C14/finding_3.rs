// C14 finding 3: atanh / atan / acoth / acot return inf or NaN at finite-valued points that lie
// very close (closer than ~1e-162) to their branch points +-1 / +-i.
use ohsl::complex::Complex;
type C = Complex<f64>;
use std::f64::consts::FRAC_PI_4;

// textbook value next to the branch point:  atanh(1 + i d) = 0.5*( ln(2 + i d) - ln(-i d) )
//   = 0.5*(ln 2 - ln d) + i*pi/4   for 0 < d << 1
fn expected_re(d: f64) -> f64 { 0.5 * (2.0_f64.ln() - d.ln()) }

#[test]
fn atanh_next_to_branch_point_plus_one_is_finite() {
    let d = 1.0e-200;
    let w = C::new(1.0, d).atanh();
    let e = expected_re(d); // 230.6051...
    assert!(w.real.is_finite() && w.imag.is_finite(), "atanh(1 + 1e-200 i) = {:?}, expected ({}, pi/4)", w, e);
    assert!((w.real - e).abs() < 1e-10 * e && (w.imag - FRAC_PI_4).abs() < 1e-12, "atanh(1 + 1e-200 i) = {:?}, expected ({}, pi/4)", w, e);
}

#[test]
fn atan_next_to_branch_point_i_is_finite() {
    // atan(z) = -i atanh(i z):  atan(d + i) = pi/4 + i*0.5*(ln 2 - ln d)
    let d = 1.0e-200;
    let w = C::new(d, 1.0).atan();
    let e = expected_re(d);
    assert!(!w.real.is_nan() && w.imag.is_finite(), "atan(1e-200 + i) = {:?}, expected (pi/4, {})", w, e);
    assert!((w.imag - e).abs() < 1e-10 * e && (w.real - FRAC_PI_4).abs() < 1e-12, "atan(1e-200 + i) = {:?}, expected (pi/4, {})", w, e);
}
