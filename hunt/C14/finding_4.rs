// C14 finding 4: just above the branch cuts of asin/acos (|x| > 1, 0 < y ~ 1e-15) the returned
// real part leaves the principal range: Re asin z > pi/2 (or < -pi/2), Re acos z < 0 (or > pi).
use ohsl::complex::Complex;
type C = Complex<f64>;
use std::f64::consts::{FRAC_PI_2, PI};

#[test]
fn asin_real_part_stays_in_principal_range_above_the_cut() {
    for &x in [10.0_f64, -10.0, 3.0].iter() {
        let z = C::new(x, 1.0e-15);
        let w = z.asin();
        assert!(w.real >= -FRAC_PI_2 && w.real <= FRAC_PI_2, "Re asin({:?}) = {:e} is outside [-pi/2, pi/2] by {:e}", z, w.real, w.real.abs() - FRAC_PI_2);
    }
}

#[test]
fn acos_real_part_stays_in_principal_range_above_the_cut() {
    for &x in [10.0_f64, -10.0, 3.0].iter() {
        let z = C::new(x, 1.0e-15);
        let w = z.acos();
        assert!(w.real >= 0.0 && w.real <= PI, "Re acos({:?}) = {:e} is outside [0, pi]", z, w.real);
    }
}
