// ln z loses its relative accuracy around z = 1 (a zero of ln, not a branch point of ln): the real part is formed as
// f64::ln( |z| ), and |z| = sqrt( x^2 + y^2 ) has already been rounded to 1 +- 1.1e-16 when Re ln z = ln |z| is small.
// For z = 1 + i 1e-8 the defining series ln( 1 + d ) = d - d^2/2 + d^3/3 - ... gives 5.0e-17 + i 1.0e-8, the crate
// returns 0 + i 1.0e-8: the real part has no correct digit and the value as a whole only 8 (the check asks for 10).
use ohsl::complex::Cmplx;

// reference: Re ln z = 0.5 * ln_1p( |z|^2 - 1 ) with |z|^2 - 1 = a ( 2 + a ) + y^2, a = x - 1 exact for x in [0.5, 2]
fn ln_ref( x: f64, y: f64 ) -> ( f64, f64 ) {
    let a = x - 1.0;
    ( 0.5 * ( a * ( 2.0 + a ) + y * y ).ln_1p(), y.atan2( x ) )
}

#[test]
fn ln_next_to_one_keeps_ten_digits() {
    let mut worst = 0.0f64;
    let mut failures = Vec::new();
    let pts: [ ( f64, f64 ); 8 ] = [ ( 1.0, 1.0e-8 ), ( 1.0, -1.0e-8 ), ( 1.0, 3.0e-8 ), ( 1.0, 1.0e-7 ), ( 1.0, -1.0e-6 ),
        ( 1.0 - 1.0e-15, 2.0e-8 ), ( 1.0 + 2.0e-16, 1.5e-8 ), ( 1.0, 1.0e-5 ) ];
    for &( x, y ) in pts.iter() {
        let ( re, im ) = ln_ref( x, y );
        // second, independent reference: the defining series of ln( 1 + d ), d = ( x - 1 ) + i y, |d| <= 1e-5
        let ( mut pr, mut pi, mut sr, mut si ) = ( 1.0f64, 0.0f64, 0.0f64, 0.0f64 );
        for k in 1..=8 {
            let t = ( pr * ( x - 1.0 ) - pi * y, pr * y + pi * ( x - 1.0 ) );
            pr = t.0; pi = t.1;
            let c = if k % 2 == 1 { 1.0 } else { -1.0 } / ( k as f64 );
            sr += c * pr; si += c * pi;
        }
        assert!( ( sr - re ).abs() <= 1.0e-12 * re.abs() + 1.0e-30 && ( si - im ).abs() <= 1.0e-12 * im.abs(),
            "the two references disagree at ({:e}, {:e}): {:e} {:e} / {:e} {:e}", x, y, sr, si, re, im );
        let got = Cmplx::new( x, y ).ln();
        let err = ( got.real - re ).hypot( got.imag - im ) / re.hypot( im );
        println!( "z = ( {:e}, {:e} ): ln z = ( {:e}, {:e} ), expected ( {:e}, {:e} ), relative error {:.2e}", x, y, got.real, got.imag, re, im, err );
        if err > worst { worst = err; }
        if !( err <= 1.0e-10 ) { failures.push( ( x, y, err ) ); }
    }
    assert!( failures.is_empty(), "ln z keeps fewer than 10 digits at {} of 8 points next to 1 (worst relative error {:.2e}): {:?}", failures.len(), worst, failures );
}
