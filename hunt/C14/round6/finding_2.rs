// asech on the upper side of its cut ( 1, inf ): for z = x + i y with x >= 2 and y the smallest positive double
// ( 5e-324, more generally 0 < y <~ 2.5e-324 x^2 ) the crate returns the value of the LOWER side ( + i acos( 1/x ) )
// although every other point of the upper side, e.g. y = 1e-323 or y = 1e-300, gives - i acos( 1/x ).
use ohsl::complex::Cmplx;

#[test]
fn asech_just_above_the_cut_is_on_the_upper_branch() {
    let tiny = f64::from_bits( 1 );                       // 5e-324, the smallest positive double
    let mut failures = Vec::new();
    for &x in [ 2.0f64, 2.5, 3.0, 5.0, 9.5 ].iter() {
        let expected = -( 1.0 / x ).acos();              // asech( x + i0+ ) = acosh( 1/x - i0+ ) = - i acos( 1/x )
        let just_above = Cmplx::new( x, tiny ).asech();
        let above = Cmplx::new( x, 1.0e-300 ).asech();    // same side of the cut, further away
        let below = Cmplx::new( x, -tiny ).asech();       // other side of the cut
        println!( "x = {}: asech( x + i 5e-324 ) = {:?}, asech( x + i 1e-300 ) = {:?}, asech( x - i 5e-324 ) = {:?}", x, just_above, above, below );
        assert!( ( above.imag - expected ).abs() <= 1.0e-14 && above.real.abs() <= 1.0e-14 );
        assert!( ( below.imag + expected ).abs() <= 1.0e-14 && below.real.abs() <= 1.0e-14 );
        if !( ( just_above.imag - expected ).abs() <= 1.0e-14 && just_above.real.abs() <= 1.0e-14 ) {
            failures.push( ( x, just_above.imag, expected ) );
        }
    }
    assert!( failures.is_empty(), "asech( x + i 5e-324 ) is on the wrong side of the cut (x, Im returned, Im expected): {:?}", failures );
}
