// C14 finding 2: acsc (= asin(1/z)) and asec (= acos(1/z)) lose ~6 digits for small z in the
// lower half-plane (1/z large in the upper half-plane): csc(acsc z) != z, sec(asec z) != z.
use ohsl::complex::Complex;
type C = Complex<f64>;
use std::f64::consts::FRAC_PI_2;

#[test]
fn acsc_is_right_inverse_of_csc_at_minus_1e_3_i() {
    let z = C::new(0.0, -1.0e-3);
    let back = z.acsc().csc();
    let rel = (back - z).abs() / z.abs();
    assert!(rel < 1.0e-11, "csc(acsc(-1e-3 i)) = {:?}, relative error {:e}", back, rel);
}

#[test]
fn asec_is_right_inverse_of_sec_at_minus_1e_3_i() {
    let z = C::new(0.0, -1.0e-3);
    let back = z.asec().sec();
    let rel = (back - z).abs() / z.abs();
    assert!(rel < 1.0e-11, "sec(asec(-1e-3 i)) = {:?}, relative error {:e}", back, rel);
}

#[test]
fn acsc_and_asec_match_closed_form_on_negative_imaginary_axis() {
    // 1/(-1e-3 i) = 1000 i;  asin(1000 i) = i asinh(1000),  acos(1000 i) = pi/2 - i asinh(1000)
    let a = 7.600902709541988_f64; // asinh(1000) = ln(1000 + sqrt(1000001))
    let z = C::new(0.0, -1.0e-3);
    let s = z.acsc();
    let c = z.asec();
    let es = ((s.real - 0.0).abs() + (s.imag - a).abs()) / a;
    let ec = ((c.real - FRAC_PI_2).abs() + (c.imag + a).abs()) / a;
    assert!(es < 1.0e-12, "acsc(-1e-3 i) = {:?}, expected (0, {}), rel. error {:e}", s, a, es);
    assert!(ec < 1.0e-12, "asec(-1e-3 i) = {:?}, expected (pi/2, -{}), rel. error {:e}", c, a, ec);
}
