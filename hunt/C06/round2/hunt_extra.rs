use ohsl::sparse::Sparse;
use ohsl::vector::Vector;
use std::panic::{catch_unwind, AssertUnwindSafe};

fn snapshot(s: &Sparse<f64>) -> (usize, usize, usize, Vec<u64>, Vec<usize>, Vec<usize>) {
    (s.rows, s.cols, s.nonzero, s.val.iter().map(|v| v.to_bits()).collect(), s.row_index.clone(), s.col_start.clone())
}

#[test]
fn failed_calls_leave_state() {
    let mut t = vec![(2usize, 3usize, 1.5f64), (0, 0, -0.0), (1, 3, 7.0), (2, 1, 4.0)];
    let mut s = Sparse::<f64>::from_triplets(3, 4, &mut t);
    let before = snapshot(&s);
    for &(r, c) in &[(3usize, 0usize), (0, 4), (3, 4), (usize::MAX, 0), (0, usize::MAX)] {
        let res = catch_unwind(AssertUnwindSafe(|| s.insert(r, c, 9.0)));
        assert!(res.is_err(), "insert({},{}) should be rejected", r, c);
        assert_eq!(snapshot(&s), before);
        let res = catch_unwind(AssertUnwindSafe(|| s.get(r, c)));
        assert!(res.is_err(), "get({},{}) should be rejected", r, c);
        assert_eq!(snapshot(&s), before);
    }
    // still works afterwards
    s.insert(2, 3, 2.5);
    assert_eq!(s.get(2, 3), Some(2.5));
    s.insert(0, 3, 8.0);
    assert_eq!(s.get(0, 3), Some(8.0));
    assert_eq!(s.nonzero, 5);
    assert_eq!(s.to_triplets().len(), 5);
}

#[test]
fn multiply_views_agree() {
    // multiply / transpose_multiply as further views, rectangular with empty end columns
    let mut seed = 88172645463325252u64;
    let mut next = move || { seed ^= seed << 13; seed ^= seed >> 7; seed ^= seed << 17; seed };
    for _ in 0..500 {
        let rows = (next() % 9) as usize; let cols = (next() % 9) as usize;
        let mut dense = vec![vec![0i64; cols]; rows];
        let mut t = vec![];
        for r in 0..rows { for c in 0..cols { if next() % 3 == 0 { let v = (next() % 9) as i64 - 4; dense[r][c] = v; t.push((r, c, v as f64)); } } }
        // shuffle
        for i in (1..t.len()).rev() { let j = (next() % (i as u64 + 1)) as usize; t.swap(i, j); }
        let mut s = Sparse::<f64>::from_triplets(rows, cols, &mut t);
        if rows > 0 && cols > 0 { let r = (next() % rows as u64) as usize; let c = (next() % cols as u64) as usize; s.insert(r, c, 3.0); dense[r][c] = 3; }
        let x: Vec<i64> = (0..cols).map(|_| (next() % 7) as i64 - 3).collect();
        let y: Vec<i64> = (0..rows).map(|_| (next() % 7) as i64 - 3).collect();
        let ax = s.multiply(&Vector::create(x.iter().map(|&v| v as f64).collect()));
        assert_eq!(ax.size(), rows);
        for r in 0..rows { let e: i64 = (0..cols).map(|c| dense[r][c] * x[c]).sum(); assert_eq!(ax[r], e as f64); }
        let aty = s.transpose_multiply(&Vector::create(y.iter().map(|&v| v as f64).collect()));
        assert_eq!(aty.size(), cols);
        for c in 0..cols { let e: i64 = (0..rows).map(|r| dense[r][c] * y[r]).sum(); assert_eq!(aty[c], e as f64); }
        let st = s.transpose();
        let aty2 = st.multiply(&Vector::create(y.iter().map(|&v| v as f64).collect()));
        assert_eq!(aty2.vec, aty.vec);
    }
}

#[test]
fn triplet_vec_reuse_and_drain() {
    // the same Vec reused for two constructions; second must not see leftovers from the first
    let mut t = vec![(1usize, 1usize, 2.0f64), (0, 0, 1.0)];
    let a = Sparse::<f64>::from_triplets(2, 2, &mut t);
    assert!(t.is_empty());
    t.push((0, 1, 5.0));
    let b = Sparse::<f64>::from_triplets(2, 2, &mut t);
    assert_eq!(a.nonzero, 2);
    assert_eq!(b.nonzero, 1);
    assert_eq!(b.get(0, 1), Some(5.0));
    assert_eq!(b.get(0, 0), None);
    assert_eq!(b.col_start, vec![0, 0, 1]);
}
