use ohsl::sparse::Sparse;
use ohsl::complex::Complex;
use std::fmt::Debug;

// ---------- tiny rng ----------
struct Rng(u64);
impl Rng {
    fn next(&mut self) -> u64 {
        self.0 ^= self.0 << 13; self.0 ^= self.0 >> 7; self.0 ^= self.0 << 17; self.0
    }
    fn below(&mut self, n: usize) -> usize { if n == 0 { 0 } else { (self.next() % n as u64) as usize } }
}

// ---------- reference model ----------
#[derive(Clone)]
struct Model<T> { rows: usize, cols: usize, g: Vec<Option<T>> }
impl<T: Copy> Model<T> {
    fn new(rows: usize, cols: usize) -> Self { Model { rows, cols, g: vec![None; rows * cols] } }
    fn set(&mut self, r: usize, c: usize, v: T) { self.g[r * self.cols + c] = Some(v); }
    fn get(&self, r: usize, c: usize) -> Option<T> { self.g[r * self.cols + c] }
    fn count(&self) -> usize { self.g.iter().filter(|x| x.is_some()).count() }
    fn transpose(&self) -> Self {
        let mut t = Model::new(self.cols, self.rows);
        for r in 0..self.rows { for c in 0..self.cols { if let Some(v) = self.get(r, c) { t.set(c, r, v); } } }
        t
    }
}

fn d<T: Debug>(x: &T) -> String { format!("{:?}", x) }

fn check<T>(s: &Sparse<T>, m: &Model<T>, zero: T, ctx: &str)
where T: Copy + ohsl::traits::Number + Debug
{
    // shape
    assert_eq!(s.rows, m.rows, "rows {}", ctx);
    assert_eq!(s.cols, m.cols, "cols {}", ctx);
    // well-formedness
    assert_eq!(s.col_start.len(), s.cols + 1, "col_start len {}", ctx);
    assert_eq!(s.col_start[0], 0, "col_start[0] {}", ctx);
    for j in 0..s.cols { assert!(s.col_start[j] <= s.col_start[j + 1], "col_start monotone {}", ctx); }
    assert_eq!(s.col_start[s.cols], s.nonzero, "last==nonzero {}", ctx);
    assert_eq!(s.val.len(), s.nonzero, "val len {}", ctx);
    assert_eq!(s.row_index.len(), s.nonzero, "row_index len {}", ctx);
    for &r in &s.row_index { assert!(r < s.rows, "row in range {}", ctx); }
    assert_eq!(s.nonzero, m.count(), "entry count {}", ctx);
    // get
    for r in 0..m.rows { for c in 0..m.cols {
        assert_eq!(d(&s.get(r, c)), d(&m.get(r, c)), "get({},{}) {}", r, c, ctx);
    } }
    // triplets
    let t = s.to_triplets();
    assert_eq!(t.len(), m.count(), "triplet count {}", ctx);
    let mut seen = vec![false; m.rows * m.cols];
    for (r, c, v) in &t {
        assert!(*r < m.rows && *c < m.cols, "triplet range {}", ctx);
        assert!(!seen[r * m.cols + c], "dup triplet {}", ctx);
        seen[r * m.cols + c] = true;
        assert_eq!(d(&Some(*v)), d(&m.get(*r, *c)), "triplet value {}", ctx);
    }
    // dense
    let dm = s.to_dense();
    assert_eq!(dm.rows(), m.rows, "dense rows {}", ctx);
    assert_eq!(dm.cols(), m.cols, "dense cols {}", ctx);
    assert_eq!(dm.numel(), m.rows * m.cols, "dense numel {}", ctx);
    for r in 0..m.rows { for c in 0..m.cols {
        let e = m.get(r, c).unwrap_or(zero);
        assert_eq!(d(&dm[(r, c)]), d(&e), "dense({},{}) {}", r, c, ctx);
    } }
    // col_index expansion
    let ci = s.col_index();
    assert_eq!(ci.size(), s.nonzero, "col_index len {}", ctx);
    let mut seen = vec![false; m.rows * m.cols];
    for k in 0..s.nonzero {
        let c = ci[k];
        assert!(c < s.cols, "col_index range {}", ctx);
        assert!(s.col_start[c] <= k && k < s.col_start[c + 1], "col_index consistent with col_start {}", ctx);
        let r = s.row_index[k];
        assert!(!seen[r * m.cols + c], "dup via col_index {}", ctx);
        seen[r * m.cols + c] = true;
        assert_eq!(d(&Some(s.val[k])), d(&m.get(r, c)), "col_index value {}", ctx);
    }
    // col_start_from_index round trip
    assert_eq!(s.col_start_from_index(&ci), s.col_start, "col_start_from_index {}", ctx);
}

fn shuffle<X>(v: &mut Vec<X>, rng: &mut Rng) {
    for i in (1..v.len()).rev() { let j = rng.below(i + 1); v.swap(i, j); }
}

// random history
fn history<T, F, G>(seed: u64, maxdim: usize, steps: usize, zero: T, mut gen: F, mul: G)
where T: Copy + ohsl::traits::Number + Debug, F: FnMut(&mut Rng) -> T, G: Fn(T, T) -> T
{
    let mut rng = Rng(seed.wrapping_mul(0x9E3779B97F4A7C15).wrapping_add(12345));
    let rows = rng.below(maxdim + 1);
    let cols = rng.below(maxdim + 1);
    let mut m = Model::<T>::new(rows, cols);
    // initial fill
    let fill = rng.below(rows * cols + 1);
    let mut pos: Vec<(usize, usize)> = (0..rows).flat_map(|r| (0..cols).map(move |c| (r, c))).collect();
    shuffle(&mut pos, &mut rng);
    pos.truncate(fill);
    let mut trip = vec![];
    for &(r, c) in &pos { let v = gen(&mut rng); m.set(r, c, v); trip.push((r, c, v)); }
    let mut s = if rng.below(2) == 0 {
        let s = Sparse::<T>::from_triplets(rows, cols, &mut trip);
        assert!(trip.is_empty());
        s
    } else {
        // raw arrays, rows in shuffled order inside each column
        let mut val = vec![]; let mut ri = vec![]; let mut cs = vec![0usize];
        for c in 0..cols {
            let mut col: Vec<(usize, T)> = trip.iter().filter(|t| t.1 == c).map(|t| (t.0, t.2)).collect();
            shuffle(&mut col, &mut rng);
            for (r, v) in col { ri.push(r); val.push(v); }
            cs.push(val.len());
        }
        Sparse::<T>::from_vecs(rows, cols, val, ri, cs)
    };
    check(&s, &m, zero, &format!("seed {} init {}x{}", seed, rows, cols));
    for step in 0..steps {
        let op = rng.below(10);
        let ctx = format!("seed {} step {} op {} shape {}x{}", seed, step, op, m.rows, m.cols);
        match op {
            0..=4 => { // insert / overwrite
                if m.rows > 0 && m.cols > 0 {
                    let r = rng.below(m.rows); let c = rng.below(m.cols); let v = gen(&mut rng);
                    s.insert(r, c, v); m.set(r, c, v);
                }
            }
            5 => { // overwrite existing deliberately
                let ex: Vec<(usize, usize)> = (0..m.rows).flat_map(|r| (0..m.cols).map(move |c| (r, c))).filter(|&(r, c)| m.get(r, c).is_some()).collect();
                if !ex.is_empty() { let (r, c) = ex[rng.below(ex.len())]; let v = gen(&mut rng); s.insert(r, c, v); m.set(r, c, v); }
            }
            6 | 7 => { // scale
                let f = gen(&mut rng);
                s.scale(&f);
                for x in m.g.iter_mut() { if let Some(v) = x { *x = Some(mul(*v, f)); } }
            }
            8 => { s = s.transpose(); m = m.transpose(); }
            _ => { // rebuild via triplets round trip in random order
                let mut t = s.to_triplets(); shuffle(&mut t, &mut rng);
                s = Sparse::<T>::from_triplets(m.rows, m.cols, &mut t);
            }
        }
        check(&s, &m, zero, &ctx);
    }
}

#[test]
fn hist_f64() {
    for seed in 1..=400u64 {
        history::<f64, _, _>(seed, 8, 40, 0.0, |r| {
            match r.below(12) {
                0 => 0.0, 1 => -0.0, 2 => 1e300, 3 => -1e-300, 4 => 5e-324, 5 => f64::MAX, 6 => 1.0, 7 => -1.0,
                8 => 1.0 + f64::EPSILON, _ => (r.below(2001) as f64 - 1000.0) / 8.0 }
        }, |a, b| a * b);
    }
}

#[test]
fn hist_f64_big() {
    for seed in 1..=20u64 {
        history::<f64, _, _>(seed + 1000, 70, 60, 0.0, |r| (r.below(2001) as f64 - 1000.0) / 8.0, |a, b| a * b);
    }
}

#[test]
fn hist_f32() {
    for seed in 1..=200u64 {
        history::<f32, _, _>(seed, 8, 30, 0.0, |r| (r.below(41) as f32 - 20.0) / 4.0, |a, b| a * b);
    }
}

#[test]
fn hist_i32() {
    for seed in 1..=200u64 {
        history::<i32, _, _>(seed, 8, 12, 0, |r| r.below(5) as i32 - 2, |a, b| a * b);
    }
}

#[test]
fn hist_i64() {
    for seed in 1..=200u64 {
        history::<i64, _, _>(seed, 8, 20, 0, |r| r.below(7) as i64 - 3, |a, b| a.wrapping_mul(b));
    }
}

#[test]
fn hist_u8() {
    for seed in 1..=200u64 {
        history::<u8, _, _>(seed, 8, 30, 0, |r| r.below(2) as u8, |a, b| a * b);
    }
}

#[test]
fn hist_usize() {
    for seed in 1..=200u64 {
        history::<usize, _, _>(seed, 8, 30, 0, |r| r.below(2), |a, b| a * b);
    }
}

#[test]
fn hist_complex() {
    let z = Complex::new(0.0, 0.0);
    for seed in 1..=300u64 {
        history::<Complex<f64>, _, _>(seed, 8, 30, z, |r| {
            let a = (r.below(41) as f64 - 20.0) / 4.0; let b = (r.below(41) as f64 - 20.0) / 4.0;
            match r.below(6) { 0 => Complex::new(a, 0.0), 1 => Complex::new(0.0, b), 2 => Complex::new(-0.0, b), 3 => Complex::new(1e200, 1e-200), _ => Complex::new(a, b) }
        }, |a, b| a * b);
    }
}

// exhaustive: every pattern, every permutation of the triplet order for small shapes
fn permutations(n: usize) -> Vec<Vec<usize>> {
    if n == 0 { return vec![vec![]]; }
    let mut out = vec![];
    for p in permutations(n - 1) {
        for i in 0..n { let mut q = p.clone(); q.insert(i, n - 1); out.push(q); }
    }
    out
}

#[test]
fn exhaustive_small() {
    for rows in 0..=4usize { for cols in 0..=4usize {
        let cells = rows * cols;
        if cells > 9 { continue; }
        for mask in 0u32..(1u32 << cells) {
            let pos: Vec<(usize, usize)> = (0..cells).filter(|k| mask >> k & 1 == 1).map(|k| (k / cols, k % cols)).collect();
            if pos.len() > 6 { continue; }
            let mut m = Model::<f64>::new(rows, cols);
            for (i, &(r, c)) in pos.iter().enumerate() { m.set(r, c, (i + 1) as f64); }
            for p in permutations(pos.len()) {
                let mut t: Vec<(usize, usize, f64)> = p.iter().map(|&i| (pos[i].0, pos[i].1, (i + 1) as f64)).collect();
                let s = Sparse::<f64>::from_triplets(rows, cols, &mut t);
                let ctx = format!("{}x{} mask {:b} perm {:?}", rows, cols, mask, p);
                check(&s, &m, 0.0, &ctx);
                let st = s.transpose();
                check(&st, &m.transpose(), 0.0, &ctx);
                let stt = st.transpose();
                check(&stt, &m, 0.0, &ctx);
            }
            // insertion one at a time into empty, every order (<=5)
            if pos.len() <= 5 {
                for p in permutations(pos.len()) {
                    let mut s = Sparse::<f64>::from_triplets(rows, cols, &mut vec![]);
                    let mut mm = Model::<f64>::new(rows, cols);
                    for &i in &p {
                        s.insert(pos[i].0, pos[i].1, (i + 1) as f64); mm.set(pos[i].0, pos[i].1, (i + 1) as f64);
                        check(&s, &mm, 0.0, "insert seq");
                    }
                    check(&s, &m, 0.0, "insert seq final");
                }
            }
        }
    } }
}

#[test]
fn wide_tall_empty() {
    for &(rows, cols) in &[(0usize, 0usize), (0, 8), (8, 0), (1, 8), (8, 1), (1, 1), (1, 70), (70, 1), (0, 70), (70, 0)] {
        let m = Model::<f64>::new(rows, cols);
        let s = Sparse::<f64>::from_triplets(rows, cols, &mut vec![]);
        check(&s, &m, 0.0, "empty trip");
        let s2 = Sparse::<f64>::from_vecs(rows, cols, vec![], vec![], vec![0; cols + 1]);
        check(&s2, &m, 0.0, "empty vecs");
        let t = s.transpose();
        check(&t, &m.transpose(), 0.0, "empty transpose");
        let mut s3 = s2.transpose().transpose();
        s3.scale(&2.0);
        check(&s3, &m, 0.0, "empty scale");
        if rows > 0 && cols > 0 {
            // full fill by insertion from last to first
            let mut mm = Model::<f64>::new(rows, cols);
            let mut s4 = Sparse::<f64>::from_vecs(rows, cols, vec![], vec![], vec![0; cols + 1]);
            for r in (0..rows).rev() { for c in (0..cols).rev() {
                s4.insert(r, c, (r * cols + c) as f64); mm.set(r, c, (r * cols + c) as f64);
            } }
            check(&s4, &mm, 0.0, "full fill");
            let s5 = s4.transpose();
            check(&s5, &mm.transpose(), 0.0, "full fill T");
        }
    }
}
