// C05 finding 4 (arguable, see finding_4.txt): "add the same value to every element" on a
// tridiagonal matrix of order >= 3 does not agree with the same operation on its dense twin.
use ohsl::{Tridiagonal, Matrix};

#[test]
fn scalar_add_assign_disagrees_with_dense_twin() {
    for n in 1..=12usize {
        let mut t = Tridiagonal::<f64>::with_elements(1.0, 2.0, 3.0, n);
        let mut d: Matrix<f64> = t.convert(); // the dense matrix with the same three diagonals
        t += 1.0; // "Add the same value to every element in a mutable tridiagonal matrix"
        d += 1.0; // "Add the same value to every element in a mutable matrix"
        let td = t.convert();
        for i in 0..n { for j in 0..n {
            assert_eq!(td[(i, j)], d[(i, j)], "n = {}: (T += 1)[({},{})] = {} but (dense(T) += 1)[({},{})] = {}", n, i, j, td[(i, j)], i, j, d[(i, j)]);
        } }
    }
}

#[test]
fn scalar_sub_assign_disagrees_with_dense_twin() {
    let mut t = Tridiagonal::<f64>::with_elements(1.0, 2.0, 3.0, 3);
    let mut d: Matrix<f64> = t.convert();
    t -= 1.0;
    d -= 1.0;
    let td = t.convert();
    for i in 0..3 { for j in 0..3 { assert_eq!(td[(i, j)], d[(i, j)], "({},{})", i, j); } }
}
