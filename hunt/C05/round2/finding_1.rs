// C05 finding 1: Tridiagonal::<f64>::solve on a strictly (row) diagonally dominant system
// loses a super-diagonal entry completely when sup[j]/pivot underflows, although sup[j]*x[j+1]
// is as large as the other terms of that row.  All data and the exact solution are ordinary
// finite f64 values between 1e-300 and 1e300.
use ohsl::{Tridiagonal, Vector};

// componentwise residual of row i relative to the size of the terms of that row
fn row_error(sub: &[f64], main: &[f64], sup: &[f64], x: &[f64], b: &[f64], i: usize) -> f64 {
    let n = main.len();
    let mut terms = vec![main[i] * x[i]];
    if i > 0 { terms.push(sub[i - 1] * x[i - 1]); }
    if i + 1 < n { terms.push(sup[i] * x[i + 1]); }
    let res = terms.iter().fold(b[i], |s, t| s - t);
    let den = terms.iter().fold(b[i].abs(), |s, t| s + t.abs());
    res.abs() / den
}

#[test]
fn upper_triangular_2x2_decimal() {
    // [ 1e200  1e-150 ] [x0]   [ 2e150 ]        x1 = 1e300,  x0 = (2e150 - 1e-150*1e300)/1e200 = 1e-50
    // [ 0      1      ] [x1] = [ 1e300 ]
    let (sub, main, sup, b): (Vec<f64>, Vec<f64>, Vec<f64>, Vec<f64>) = (vec![0.0], vec![1e200, 1.0], vec![1e-150], vec![2e150, 1e300]);
    let t = Tridiagonal::with_vecs(sub.clone(), main.clone(), sup.clone());
    let x = t.solve(&Vector::create(b.clone()));
    // textbook back substitution
    let x1 = b[1] / main[1];
    let x0 = (b[0] - sup[0] * x1) / main[0];
    assert!((x[1] - x1).abs() <= 1e-12 * x1.abs(), "x1 = {:e}", x[1]);
    assert!((x[0] - x0).abs() <= 1e-12 * x0.abs(), "x0 = {:e}, back substitution gives {:e}", x[0], x0);
}

#[test]
fn dominant_2x2_powers_of_two_row_residual() {
    // every product below is an exact power of two; exact solution x = [ 2^-280 (1 - tiny), ~2^800 ]
    let p = |e: i32| 2f64.powi(e);
    let (sub, main, sup, b): (Vec<f64>, Vec<f64>, Vec<f64>, Vec<f64>) = (vec![0.5], vec![p(540), 1.0], vec![p(-540)], vec![p(261), p(800)]);
    let t = Tridiagonal::with_vecs(sub.clone(), main.clone(), sup.clone());
    let x = t.solve(&Vector::create(b.clone()));
    for i in 0..2 {
        let w = row_error(&sub, &main, &sup, &x.vec, &b, i);
        assert!(w < 1e-12, "row {i}: |b - A x| / (|A||x| + |b|) = {w:e}, x = {:?}", x.vec);
    }
}
