// C05 finding 3 (adjacent to the property: Display is not among the operations its statement lists):
// formatting a 1 x 1 tridiagonal matrix panics, the dense twin prints fine.
use ohsl::{Tridiagonal, Matrix};

#[test]
fn display_1x1() {
    let t = Tridiagonal::<f64>::with_vecs(vec![], vec![2.0], vec![]);
    let dense: Matrix<f64> = t.convert();
    assert_eq!(format!("{}", dense).trim(), "2.0");
    let s = format!("{}", t);                 // panics: index out of bounds (self.sup[0] on an empty Vec)
    assert!(s.contains('2'));
}
