// C05 finding 2: Tridiagonal::<Complex<f64>>::solve returns NaN / inf (no panic) for non-zero pivots
// that are small (|pivot| < ~1e-162) or whose product with the numerator overflows although the
// pivot itself is far below 1e154.  The same systems over f64 are solved exactly.
use ohsl::{Tridiagonal, Vector, Complex};

fn c(x: f64) -> Complex<f64> { Complex::new(x, 0.0) }

#[test]
fn tiny_pivot_n1() {
    let p = 2f64.powi(-600);                       // 2.4e-181
    let t = Tridiagonal::with_vecs(vec![], vec![c(p)], vec![]);
    let x = t.solve(&Vector::create(vec![c(p)]));  // p x = p  ->  x = 1
    assert!(x[0].real == 1.0 && x[0].imag == 0.0, "x = {:?}", x[0]);
}

#[test]
fn tiny_dominant_n2() {
    // 2^-600 * [[2,1],[1,2]] x = 2^-600 * [3,3]  ->  x = [1,1]; the f64 solver returns exactly that
    let p = 2f64.powi(-600);
    let tr = Tridiagonal::with_vecs(vec![p], vec![2.0 * p, 2.0 * p], vec![p]);
    let xr = tr.solve(&Vector::create(vec![3.0 * p, 3.0 * p]));
    assert!((xr[0] - 1.0).abs() < 1e-15 && (xr[1] - 1.0).abs() < 1e-15);
    let t = Tridiagonal::with_vecs(vec![c(p)], vec![c(2.0 * p), c(2.0 * p)], vec![c(p)]);
    let x = t.solve(&Vector::create(vec![c(3.0 * p), c(3.0 * p)]));
    for i in 0..2 {
        assert!((x[i].real - 1.0).abs() < 1e-14 && x[i].imag.abs() < 1e-14, "x[{i}] = {:?}", x[i]);
    }
}

#[test]
fn moderate_pivot_overflowing_product_n1() {
    // pivot 1e120 (well below 1e154), right-hand side 1e200, solution 1e80
    let t = Tridiagonal::with_vecs(vec![], vec![Complex::new(0.0, 1e120)], vec![]);
    let x = t.solve(&Vector::create(vec![Complex::new(0.0, 1e200)]));
    assert!((x[0].real - 1e80).abs() < 1e66 && x[0].imag.abs() < 1e66, "x = {:?}", x[0]);
}
