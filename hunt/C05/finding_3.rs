// C05 finding 3: Tridiagonal::<Complex<f64>>::solve returns NaN (no panic) as soon as a pivot has
// modulus above ~1.3e154 or below ~1e-162, even for a 1x1 system  z * x = z.
use ohsl::{Tridiagonal, Vector, Cmplx};

fn close(z: Cmplx, re: f64, im: f64) -> bool {
    z.real.is_finite() && z.imag.is_finite() && (z.real - re).abs() <= 1e-12 && (z.imag - im).abs() <= 1e-12
}

#[test]
fn one_by_one_large_purely_real_complex() {
    let z = Cmplx::new(2e160, 0.0);
    let t = Tridiagonal::<Cmplx>::with_vecs(vec![], vec![z], vec![]);
    let x = t.solve(&Vector::create(vec![z]));
    assert!(close(x[0], 1.0, 0.0), "(2e160 + 0i) x = (2e160 + 0i) solved as x = {:?}", x[0]);
}

#[test]
fn one_by_one_small_purely_imaginary_complex() {
    let z = Cmplx::new(0.0, 1e-170);
    let t = Tridiagonal::<Cmplx>::with_vecs(vec![], vec![z], vec![]);
    let x = t.solve(&Vector::create(vec![z]));
    assert!(close(x[0], 1.0, 0.0), "(1e-170 i) x = (1e-170 i) solved as x = {:?}", x[0]);
}

#[test]
fn two_by_two_diagonally_dominant() {
    // [ 3e160 i   1 ] [1]   [ 3e160 i + 1 ]
    // [ i         4 ] [1] = [ 4 + i       ]       strictly diagonally dominant, solution [1, 1]
    let t = Tridiagonal::<Cmplx>::with_vecs(
        vec![Cmplx::new(0.0, 1.0)], vec![Cmplx::new(0.0, 3e160), Cmplx::new(4.0, 0.0)], vec![Cmplx::new(1.0, 0.0)]);
    let x = t.solve(&Vector::create(vec![Cmplx::new(1.0, 3e160), Cmplx::new(4.0, 1.0)]));
    assert!(close(x[0], 1.0, 0.0) && close(x[1], 1.0, 0.0), "solution [1, 1] returned as {:?}", x.vec);
}
