// C05 finding 2: Tridiagonal::<f64>::det reports 0 (singular) or -inf for 3x3 matrices whose
// determinant is an ordinary finite non-zero number; the grouping (sub*sup)*f underflows / overflows.
use ohsl::Tridiagonal;

#[test]
fn det_is_zero_for_a_nonsingular_matrix() {
    let p = 2f64.powi(600); // ~4.1e180, every entry and every exact intermediate is a power of two
    // [ p    1    0   ]
    // [ 1    1/p  1/p ]      continuant: f1 = p, f2 = (1/p)*p - 1*1 = 0, f3 = 1*f2 - (1/p)(1/p)*p = -1/p
    // [ 0    1/p  1   ]      (cofactor expansion gives the same: det = -1/p ~ -2.4e-181)
    let t = Tridiagonal::<f64>::with_vecs(vec![1.0, 1.0 / p], vec![p, 1.0 / p, 1.0], vec![1.0, 1.0 / p]);
    let d = t.det();
    assert!(d != 0.0, "det = {:e}: a non-singular matrix is reported singular (exact det = {:e})", d, -1.0 / p);
    assert_eq!(d, -1.0 / p);
}

#[test]
fn det_is_infinite_for_a_modest_determinant() {
    let p = 2f64.powi(600);
    // [ 1/p  0  0 ]
    // [ 0    1  p ]      det = (1/p) * (1*1 - p*p) = 1/p - p, which rounds to -p ~ -4.1e180
    // [ 0    p  1 ]
    let t = Tridiagonal::<f64>::with_vecs(vec![0.0, p], vec![1.0 / p, 1.0, 1.0], vec![0.0, p]);
    let d = t.det();
    assert!(d.is_finite(), "det = {:e} but the exact determinant is {:e}", d, -p);
    assert_eq!(d, -p);
}
