// C05 finding 2: Tridiagonal::<f64>::det forms sub * sup first; for sub = sup = 1e-170 that product
// underflows to 0 although sub * sup * f[j-2] = 1e-140 is an ordinary number: the determinant comes
// back with the wrong sign ( and non-zero for the singular neighbour ), unlike the dense twin.
use ohsl::Tridiagonal;

fn pivots_det(sub: &[f64], main: &[f64], sup: &[f64]) -> f64 {
    // textbook LU without pivoting, determinant = product of the pivots
    let mut beta = main[0];
    let mut det = beta;
    for j in 1..main.len() {
        beta = main[j] - (sub[j - 1] / beta) * sup[j - 1];
        det *= beta;
    }
    det
}

#[test]
fn det_wrong_sign_when_sub_times_sup_underflows() {
    // [ 1e200  0       0      ]
    // [ 0      1e-150  1e-170 ]    det = 1e200 * ( 1e-150 * 5e-191 - 1e-170 * 1e-170 )
    // [ 0      1e-170  5e-191 ]        = 1e200 * ( 5e-341 - 1e-340 ) = -5e-141
    let sub = vec![0.0, 1e-170];
    let main = vec![1e200, 1e-150, 5e-191];
    let sup = vec![0.0, 1e-170];
    let want = pivots_det(&sub, &main, &sup);
    assert!(((want - (-5e-141)) / 5e-141).abs() < 1e-12, "reference {:e}", want);
    let t = Tridiagonal::with_vecs(sub, main, sup);
    let det = t.det();
    assert!(((det - want) / want).abs() < 1e-12, "det = {:e}, expected {:e}", det, want);
}
