// C05 finding 1: Tridiagonal::<f64>::solve on a diagonally dominant (upper bidiagonal) 2 x 2 system
// with entries of magnitude 1e+-165 returns x0 = 0 where the solution is -1e-130: the quotient
// sup[0] / beta = 1e-165 / 1e165 underflows to 0 before it is multiplied by u[1] = 1e200.
use ohsl::{Tridiagonal, Vector};

#[test]
fn solve_loses_component_to_underflow_of_gamma() {
    // [ 1e165  1e-165 ] [x0]   [ 0     ]      row diagonally dominant, well conditioned componentwise
    // [ 0      1      ] [x1] = [ 1e200 ]      exact: x1 = 1e200, x0 = -1e-165 * 1e200 / 1e165 = -1e-130
    let (d0, c0, a0, d1) = (1e165_f64, 1e-165_f64, 0.0_f64, 1.0_f64);
    let r = [0.0_f64, 1e200];
    let t = Tridiagonal::with_vecs(vec![a0], vec![d0, d1], vec![c0]);
    let x = t.solve(&Vector::create(r.to_vec()));
    // textbook back substitution as reference
    let x1 = r[1] / d1;
    let x0 = (r[0] - c0 * x1) / d0;
    assert!(((x[1] - x1) / x1).abs() < 1e-14, "x1 = {:e}", x[1]);
    assert!(((x[0] - x0) / x0).abs() < 1e-12, "x0 = {:e}, expected {:e}", x[0], x0);
    // componentwise backward error of row 0
    let res = (d0 * x[0] + c0 * x[1] - r[0]).abs();
    let den = (d0 * x[0]).abs() + (c0 * x[1]).abs() + r[0].abs();
    assert!(res <= 1e-12 * den, "row 0 residual {:e} of {:e}", res, den);
}

#[test]
fn solve_gamma_subnormal_loses_digits() {
    // same shape, milder: 1e-160 / 1e160 = 1e-320 is subnormal ( 11 bits ), x0 comes back with 5 digits
    let t = Tridiagonal::with_vecs(vec![0.0], vec![1e160, 1.0], vec![1e-160]);
    let x = t.solve(&Vector::create(vec![0.0, 1e150]));
    let x0: f64 = (0.0 - 1e-160 * 1e150) / 1e160; // -1e-170
    assert!(((x[0] - x0) / x0).abs() < 1e-12, "x0 = {:e}, expected {:e}", x[0], x0);
}
