import sys, struct
def f(h): return struct.unpack('>d', bytes.fromhex(h))[0]
def pv(tok):
    if tok=='-': return []
    out=[]
    for t in tok.split(','):
        if ':' in t:
            a,b=t.split(':'); out.append(complex(f(a),f(b)))
        else: out.append(f(t))
    return out
lines=open(sys.argv[1]).read().splitlines()
for k in sys.argv[2:]:
    t=lines[int(k)].split(' ')
    print('line',k,t[0],'n',t[1],'cls',t[2])
    for name,i in (('sub',3),('main',4),('sup',5),('rhs',6),('xin',7)):
        print(' ',name,pv(t[i]))
    print('  solve',t[8], pv(t[9]) if t[8]=='ok' else t[9])
    print('  det',pv(t[10]),' matvec',pv(t[11]))
