// Exact rational sweep: Tridiagonal<Rat> against an independent dense reference
use ohsl::{Tridiagonal, Vector, Matrix, Number, Zero, One};
use core::ops::*;
use std::panic::{catch_unwind, AssertUnwindSafe};

fn gcd(a: i128, b: i128) -> i128 { let (mut a, mut b) = (a.abs(), b.abs()); while b != 0 { let t = a % b; a = b; b = t; } a }

#[derive(Clone, Copy, Debug)]
struct Rat { n: i128, d: i128 }
impl Rat {
    fn new(n: i128, d: i128) -> Rat {
        if d == 0 { panic!("RATDIVZERO"); }
        let g = gcd(n, d); let g = if g == 0 { 1 } else { g };
        let (mut n, mut d) = (n / g, d / g);
        if d < 0 { n = -n; d = -d; }
        Rat { n, d }
    }
    fn int(i: i128) -> Rat { Rat { n: i, d: 1 } }
    fn is_zero(&self) -> bool { self.n == 0 }
}
fn m(a: i128, b: i128) -> i128 { a.checked_mul(b).unwrap_or_else(|| panic!("RATOVERFLOW")) }
fn ad(a: i128, b: i128) -> i128 { a.checked_add(b).unwrap_or_else(|| panic!("RATOVERFLOW")) }
impl PartialEq for Rat { fn eq(&self, o: &Rat) -> bool { self.n == o.n && self.d == o.d } }
impl Add for Rat { type Output = Rat; fn add(self, o: Rat) -> Rat { Rat::new(ad(m(self.n, o.d), m(o.n, self.d)), m(self.d, o.d)) } }
impl Sub for Rat { type Output = Rat; fn sub(self, o: Rat) -> Rat { Rat::new(ad(m(self.n, o.d), -m(o.n, self.d)), m(self.d, o.d)) } }
impl Mul for Rat { type Output = Rat; fn mul(self, o: Rat) -> Rat { Rat::new(m(self.n, o.n), m(self.d, o.d)) } }
impl Div for Rat { type Output = Rat; fn div(self, o: Rat) -> Rat { Rat::new(m(self.n, o.d), m(self.d, o.n)) } }
impl Neg for Rat { type Output = Rat; fn neg(self) -> Rat { Rat { n: -self.n, d: self.d } } }
impl AddAssign for Rat { fn add_assign(&mut self, o: Rat) { *self = *self + o; } }
impl SubAssign for Rat { fn sub_assign(&mut self, o: Rat) { *self = *self - o; } }
impl MulAssign for Rat { fn mul_assign(&mut self, o: Rat) { *self = *self * o; } }
impl DivAssign for Rat { fn div_assign(&mut self, o: Rat) { *self = *self / o; } }
impl Zero for Rat { fn zero() -> Rat { Rat::int(0) } }
impl One for Rat { fn one() -> Rat { Rat::int(1) } }
impl Number for Rat {}

struct Rng(u64);
impl Rng {
    fn next(&mut self) -> u64 { self.0 ^= self.0 << 13; self.0 ^= self.0 >> 7; self.0 ^= self.0 << 17; self.0 }
    fn below(&mut self, k: u64) -> u64 { (self.next() >> 11) % k }
}

// reference: dense determinant by exact Gaussian elimination with pivot search
fn ref_det(a: &Vec<Vec<Rat>>) -> Rat {
    let n = a.len();
    let mut a = a.clone();
    let mut det = Rat::int(1);
    for k in 0..n {
        let mut p = None;
        for i in k..n { if !a[i][k].is_zero() { p = Some(i); break; } }
        let p = match p { Some(p) => p, None => return Rat::int(0) };
        if p != k { a.swap(p, k); det = -det; }
        det = det * a[k][k];
        for i in k + 1..n {
            let f = a[i][k] / a[k][k];
            for j in k..n { let t = f * a[k][j]; a[i][j] = a[i][j] - t; }
        }
    }
    det
}

// reference solve by Gauss-Jordan with pivot search; None if singular
fn ref_solve(a: &Vec<Vec<Rat>>, r: &Vec<Rat>) -> Option<Vec<Rat>> {
    let n = a.len();
    let mut a = a.clone(); let mut r = r.clone();
    for k in 0..n {
        let mut p = None;
        for i in k..n { if !a[i][k].is_zero() { p = Some(i); break; } }
        let p = p?;
        a.swap(p, k); r.swap(p, k);
        for i in 0..n {
            if i == k { continue; }
            let f = a[i][k] / a[k][k];
            if f.is_zero() { continue; }
            for j in k..n { let t = f * a[k][j]; a[i][j] = a[i][j] - t; }
            let t = f * r[k]; r[i] = r[i] - t;
        }
    }
    Some((0..n).map(|i| r[i] / a[i][i]).collect())
}

fn dense_of(sub: &Vec<Rat>, main: &Vec<Rat>, sup: &Vec<Rat>) -> Vec<Vec<Rat>> {
    let n = main.len();
    let mut d = vec![vec![Rat::int(0); n]; n];
    for i in 0..n { d[i][i] = main[i]; }
    for i in 0..n.saturating_sub(1) { d[i + 1][i] = sub[i]; d[i][i + 1] = sup[i]; }
    d
}

fn panic_msg(e: Box<dyn std::any::Any + Send>) -> String {
    if let Some(s) = e.downcast_ref::<String>() { s.clone() } else if let Some(s) = e.downcast_ref::<&str>() { s.to_string() } else { "?".into() }
}

fn gen_val(rng: &mut Rng, mode: u64) -> Rat {
    match mode {
        0 => { // small ints with many zeros
            let v = rng.below(7) as i128 - 3; Rat::int(v) }
        1 => { let n = rng.below(11) as i128 - 5; let d = rng.below(4) as i128 + 1; Rat::new(n, d) }
        2 => { // generic-looking: k/10, k/7
            let n = rng.below(41) as i128 - 20; let d = [10, 7, 3, 1][rng.below(4) as usize]; Rat::new(n, d) }
        _ => { let v = rng.below(3) as i128 - 1; Rat::int(v) }
    }
}

#[test]
fn rational_sweep() {
    std::panic::set_hook(Box::new(|_| {}));
    let mut rng = Rng(0x9E3779B97F4A7C15);
    let mut stats = [0usize; 6];
    let mut fails: Vec<String> = vec![];
    let cases = 120000;
    for case in 0..cases {
        let n = 1 + (rng.below(12) as usize);
        let mode = rng.below(4);
        let mut sub: Vec<Rat> = (0..n - 1).map(|_| gen_val(&mut rng, mode)).collect();
        let mut main: Vec<Rat> = (0..n).map(|_| gen_val(&mut rng, mode)).collect();
        let mut sup: Vec<Rat> = (0..n - 1).map(|_| gen_val(&mut rng, mode)).collect();
        // engineered zero pivot at step k: main[k] = sub[k-1]*sup[k-1]/beta_{k-1}
        let engineer = rng.below(3) == 0 && n >= 2;
        if engineer {
            let k = 1 + rng.below((n - 1) as u64) as usize;
            // compute pivots exactly
            let r = catch_unwind(AssertUnwindSafe(|| {
                let mut beta = main[0];
                let mut ok = !beta.is_zero();
                for j in 1..k { if !ok { break; } beta = main[j] - sub[j - 1] * sup[j - 1] / beta; if beta.is_zero() { ok = false; } }
                if ok { Some(sub[k - 1] * sup[k - 1] / beta) } else { None }
            }));
            if let Ok(Some(v)) = r { main[k] = v; }
        }
        if rng.below(10) == 0 && n >= 2 { let k = rng.below((n - 1) as u64) as usize; sub[k] = Rat::int(0); }
        if rng.below(10) == 0 && n >= 2 { let k = rng.below((n - 1) as u64) as usize; sup[k] = Rat::int(0); }
        let rhs: Vec<Rat> = (0..n).map(|_| gen_val(&mut rng, 2)).collect();
        let xv: Vec<Rat> = (0..n).map(|_| gen_val(&mut rng, 1)).collect();
        let dense = dense_of(&sub, &main, &sup);

        let t = match rng.below(3) {
            0 => Tridiagonal::with_vecs(sub.clone(), main.clone(), sup.clone()),
            1 => Tridiagonal::with_vectors(Vector::create(sub.clone()), Vector::create(main.clone()), Vector::create(sup.clone())),
            _ => { let mut t = Tridiagonal::<Rat>::empty(); t.resize(n);
                   for i in 0..n { t[(i, i)] = main[i]; }
                   for i in 0..n - 1 { t[(i + 1, i)] = sub[i]; t[(i, i + 1)] = sup[i]; }
                   t }
        };
        let tag = format!("case {} n {} mode {} sub {:?} main {:?} sup {:?}", case, n, mode, sub, main, sup);
        if t.size() != n { fails.push(format!("size {}", tag)); }
        // element access
        for i in 0..n { for j in 0..n {
            if (i as isize - j as isize).abs() <= 1 && t[(i, j)] != dense[i][j] { fails.push(format!("index {} {} {}", i, j, tag)); }
        } }
        // convert
        let c: Matrix<Rat> = t.convert();
        if c.rows() != n || c.cols() != n { fails.push(format!("convert shape {}", tag)); }
        for i in 0..n { for j in 0..n { if c[(i, j)] != dense[i][j] { fails.push(format!("convert {} {} {}", i, j, tag)); } } }
        // transpose
        let tt = t.transpose(); let ct = tt.convert();
        for i in 0..n { for j in 0..n { if ct[(i, j)] != dense[j][i] { fails.push(format!("transpose {} {} {}", i, j, tag)); } } }
        let mut t2 = t.clone(); t2.transpose_in_place(); t2.transpose_in_place();
        let c2 = t2.convert();
        for i in 0..n { for j in 0..n { if c2[(i, j)] != dense[i][j] { fails.push(format!("transpose2 {}", tag)); } } }
        // mat-vec
        let xvec = Vector::create(xv.clone());
        let y = &t * &xvec;
        let y2 = t.clone() * xvec.clone();
        for i in 0..n {
            let mut s = Rat::int(0);
            for j in 0..n { s = s + dense[i][j] * xv[j]; }
            if y[i] != s || y2[i] != s || y.size() != n { fails.push(format!("matvec {} {}", i, tag)); }
        }
        // arithmetic with a second matrix
        let sub_b: Vec<Rat> = (0..n - 1).map(|_| gen_val(&mut rng, 1)).collect();
        let main_b: Vec<Rat> = (0..n).map(|_| gen_val(&mut rng, 1)).collect();
        let sup_b: Vec<Rat> = (0..n - 1).map(|_| gen_val(&mut rng, 1)).collect();
        let tb = Tridiagonal::with_vecs(sub_b.clone(), main_b.clone(), sup_b.clone());
        let db = dense_of(&sub_b, &main_b, &sup_b);
        let k = Rat::new(-7, 3);
        let s1 = (t.clone() + tb.clone()).convert();
        let s2 = (t.clone() - tb.clone()).convert();
        let s3 = (t.clone() * k).convert();
        let s4 = (t.clone() / k).convert();
        let s5 = (-t.clone()).convert();
        let mut t6 = t.clone(); t6 *= k; let s6 = t6.convert();
        let mut t7 = t.clone(); t7 /= k; let s7 = t7.convert();
        for i in 0..n { for j in 0..n {
            if s1[(i, j)] != dense[i][j] + db[i][j] { fails.push(format!("add {}", tag)); }
            if s2[(i, j)] != dense[i][j] - db[i][j] { fails.push(format!("sub {}", tag)); }
            if s3[(i, j)] != dense[i][j] * k { fails.push(format!("mul {}", tag)); }
            if s4[(i, j)] != dense[i][j] / k { fails.push(format!("div {}", tag)); }
            if s5[(i, j)] != -dense[i][j] { fails.push(format!("neg {}", tag)); }
            if s6[(i, j)] != dense[i][j] * k { fails.push(format!("mulassign {}", tag)); }
            if s7[(i, j)] != dense[i][j] / k { fails.push(format!("divassign {}", tag)); }
        } }
        // determinant
        let rd = catch_unwind(AssertUnwindSafe(|| ref_det(&dense)));
        let cd = catch_unwind(AssertUnwindSafe(|| t.det()));
        match (rd, cd) {
            (Ok(a), Ok(b)) => { if a != b { fails.push(format!("det ref {:?} got {:?} {}", a, b, tag)); } stats[0] += 1; }
            (Ok(_), Err(e)) => { let msg = panic_msg(e); if !msg.contains("RATOVERFLOW") { fails.push(format!("det panicked {} {}", msg, tag)); } }
            _ => {}
        }
        // solve
        let mut zero_pivot = false;
        let piv = catch_unwind(AssertUnwindSafe(|| {
            // leading principal minors via the independent dense determinant
            for k in 1..=n {
                let lead: Vec<Vec<Rat>> = (0..k).map(|i| dense[i][0..k].to_vec()).collect();
                if ref_det(&lead).is_zero() { return true; }
            }
            false
        }));
        match piv { Ok(z) => zero_pivot = z, Err(_) => { stats[5] += 1; continue; } }
        let rv = Vector::create(rhs.clone());
        let got = catch_unwind(AssertUnwindSafe(|| t.solve(&rv)));
        // repeat after possible failure: state must be unchanged
        let c3 = t.convert();
        for i in 0..n { for j in 0..n { if c3[(i, j)] != dense[i][j] { fails.push(format!("state changed after solve {}", tag)); } } }
        match got {
            Ok(x) => {
                if zero_pivot { fails.push(format!("solve returned although a zero pivot arises {}", tag)); }
                else {
                    let rs = catch_unwind(AssertUnwindSafe(|| ref_solve(&dense, &rhs)));
                    if let Ok(Some(xr)) = rs {
                        stats[1] += 1;
                        if x.size() != n { fails.push(format!("solve size {}", tag)); }
                        for i in 0..n { if x[i] != xr[i] { fails.push(format!("solve wrong comp {} got {:?} ref {:?} rhs {:?} {}", i, x[i], xr[i], rhs, tag)); break; } }
                    } else if let Ok(None) = rs { fails.push(format!("ref singular but no zero pivot?? {}", tag)); }
                }
            }
            Err(e) => {
                let msg = panic_msg(e);
                if msg.contains("RATOVERFLOW") { stats[4] += 1; }
                else if zero_pivot {
                    stats[2] += 1;
                    if !(msg.contains("zero pivot") || msg.contains("zero on leading diagonal")) { fails.push(format!("wrong message '{}' {}", msg, tag)); }
                } else { fails.push(format!("solve panicked '{}' without zero pivot {}", msg, tag)); }
            }
        }
        if fails.len() > 20 { break; }
    }
    eprintln!("stats det_ok {} solve_ok {} refused {} overflow_skips {} minors_overflow {}", stats[0], stats[1], stats[2], stats[4], stats[5]);
    for f in fails.iter().take(20) { eprintln!("FAIL {}", f); }
    assert!(fails.is_empty());
}
