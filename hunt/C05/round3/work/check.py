import sys, struct, math
from fractions import Fraction as Fr
EPS = 2.0**-53
def f(h):
    return struct.unpack('>d', bytes.fromhex(h))[0]
def pv(tok, cplx):
    if tok == '-': return []
    out=[]
    for t in tok.split(','):
        if cplx:
            a,b=t.split(':'); out.append((f(a),f(b)))
        else: out.append(f(t))
    return out
class CF:  # exact complex rational
    __slots__=('r','i')
    def __init__(s,r,i=0): s.r=Fr(r); s.i=Fr(i)
    def __add__(s,o): return CF(s.r+o.r,s.i+o.i)
    def __sub__(s,o): return CF(s.r-o.r,s.i-o.i)
    def __mul__(s,o): return CF(s.r*o.r-s.i*o.i, s.r*o.i+s.i*o.r)
    def mod(s):  # float modulus (approx, fine for ratios)
        return math.hypot(float_safe(s.r), float_safe(s.i))
def float_safe(q):
    # returns float, handling huge/small via log scaling
    try: return float(q)
    except OverflowError: return math.inf if q>0 else -math.inf
def ratio(num, den):
    # num, den Fractions >= 0
    if den == 0: return 0.0 if num == 0 else math.inf
    return float_safe(num/den)
def absq(z):
    # |z| as Fraction upper approx: use max(|r|,|i|)*sqrt2 bound avoided; compute via float of scaled
    r,i=abs(z.r),abs(z.i)
    m=max(r,i)
    if m==0: return Fr(0)
    # sqrt(r^2+i^2) = m*sqrt(1+(min/m)^2)
    q=float(min(r,i)/m)
    return m*Fr(math.sqrt(1+q*q))
def finite(v, cplx):
    if cplx: return all(math.isfinite(a) and math.isfinite(b) for a,b in v)
    return all(math.isfinite(a) for a in v)
def cdiv(x,y,cplx):
    if not cplx: return x/y
    d=y.r*y.r+y.i*y.i
    return CF((x.r*y.r+x.i*y.i)/d,(x.i*y.r-x.r*y.i)/d)
def iszero(x,cplx): return (x.r==0 and x.i==0) if cplx else x==0
def exact_pivots(a,b,c,cplx):
    n=len(b); piv=[b[0]]
    if iszero(b[0],cplx): return None
    for j in range(1,n):
        p=b[j]-a[j-1]*cdiv(c[j-1],piv[-1],cplx)
        if iszero(p,cplx): return None
        piv.append(p)
    return piv
def exact_solve(a,b,c,r,cplx):
    piv=exact_pivots(a,b,c,cplx)
    if piv is None: return None
    n=len(b); y=[r[0]]
    for j in range(1,n): y.append(r[j]-a[j-1]*cdiv(y[j-1],piv[j-1],cplx))
    x=[None]*n; x[n-1]=cdiv(y[n-1],piv[n-1],cplx)
    for j in range(n-2,-1,-1): x[j]=cdiv(y[j]-c[j]*x[j+1],piv[j],cplx)
    return x
worst={'mv':[],'det':[],'solve':[]}
counts={}
def note(k): counts[k]=counts.get(k,0)+1
lines=open(sys.argv[1]).read().splitlines()
for ln,line in enumerate(lines):
    t=line.split(' ')
    kind=t[0]; cplx = kind=='C'; n=int(t[1]); cls=int(t[2])
    sub=pv(t[3],cplx); main=pv(t[4],cplx); sup=pv(t[5],cplx); rhs=pv(t[6],cplx); xin=pv(t[7],cplx)
    status=t[8]; solt=t[9]; det=pv(t[10],cplx)[0]; yv=pv(t[11],cplx)
    if cplx:
        E=lambda z: CF(z[0],z[1]); A=absq; Z=CF(0)
    else:
        E=lambda z: Fr(z); A=abs; Z=Fr(0)
    a=[E(z) for z in sub]; b=[E(z) for z in main]; c=[E(z) for z in sup]
    def row(i, x):
        terms=[]
        if i>0: terms.append(a[i-1]*x[i-1])
        terms.append(b[i]*x[i])
        if i<n-1: terms.append(c[i]*x[i+1])
        return terms
    key=(kind,cls)
    # matvec
    if finite(yv,cplx):
        x=[E(z) for z in xin]
        w=0.0
        for i in range(n):
            ts=row(i,x); s=Z; sa=Fr(0)
            for q in ts: s=s+q; sa+=A(q)
            w=max(w, ratio(A(E(yv[i])-s), sa))
        worst['mv'].append((w/EPS, ln))
    else: note('mv nonfinite')
    # det
    if finite([det],cplx):
        f0=E((1.0,0.0)) if cplx else Fr(1); f1=b[0]; g0=Fr(1); g1=A(b[0]); inrange = Fr(10)**-290 < g1 < Fr(10)**290
        for j in range(1,n):
            f0,f1 = f1, b[j]*f1 - a[j-1]*c[j-1]*f0
            g0,g1 = g1, A(b[j])*g1 + A(a[j-1])*A(c[j-1])*g0
            if not (Fr(10)**-290 < g1 < Fr(10)**290): inrange=False
        w=ratio(A(E(det)-f1), g1)
        if inrange: worst['det'].append((w/EPS, ln))
        else: note('det skipped (minor bound out of 1e+-290)')
    else: note('det nonfinite')
    # solve
    if status=='ok':
        x=pv(solt,cplx)
        if not finite(x,cplx):
            note('solve nonfinite %s cls%d'%(kind,cls))
            xt=exact_solve(a,b,c,[E(z) for z in rhs],cplx)
            if xt is None: note('  nonfinite: exact zero pivot'); continue
            mx=max(float_safe(A(q)) for q in xt)
            mr=0.0
            for i in range(n):
                for q in row(i,xt): mr=max(mr,float_safe(A(q)))
            if mx<1e290 and mr<1e290: print('NONFINITE-BUT-REPRESENTABLE', ln, 'cls',cls,'max|x|',mx,'max|a_ij x_j|',mr)
            else: note('  nonfinite: true solution/products out of range')
            continue
        x=[E(z) for z in x]
        w=0.0
        for i in range(n):
            ts=row(i,x); s=Z; sa=Fr(0)
            for q in ts: s=s+q; sa+=A(q)
            r=E(rhs[i])
            w=max(w, ratio(A(r-s), sa+A(r)))
        worst['solve'].append((w/EPS, cls, ln))
        if cls==0 and w/EPS>1000:
            xt=exact_solve(a,b,c,[E(z) for z in rhs],cplx)
            mx=max(float_safe(A(q)) for q in xt) if xt else None
            mn=min([float_safe(A(q)) for q in xt if float_safe(A(q))>0] or [0]) if xt else None
            print('BAD-BACKWARD-ROWDOM', ln, w/EPS, 'true |x| range', mn, mx)
        note('solve ok %s cls%d'%(kind,cls))
    else:
        note('solve %s %s cls%d'%(solt,kind,cls))
        piv=exact_pivots(a,b,c,cplx)
        if piv is None: note('  refused: exact zero pivot')
        else:
            rel=min(ratio(A(p),A(b[j])) if A(b[j])!=0 else 1.0 for j,p in enumerate(piv))
            if rel>1e-13: print('REFUSED-WITHOUT-CANCELLATION', ln, solt, rel)
            else:
                note('  refused: pivot cancels to below 1e-13 of diagonal'); print('REFUSED-CANCEL', ln, rel)
for k in ('mv','det'):
    worst[k].sort(reverse=True); print(k, 'worst (in units of eps):', worst[k][:8])
for cl in (0,1,2):
    w=[(x,ln) for x,c,ln in worst['solve'] if c==cl]; w.sort(reverse=True)
    print('solve cls',cl,'worst backward error (eps):', w[:8])
for k in sorted(counts): print(k, counts[k])
