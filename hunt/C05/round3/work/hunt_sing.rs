use ohsl::{Tridiagonal, Vector, Cmplx};
struct Rng(u64);
impl Rng { fn next(&mut self) -> u64 { self.0 ^= self.0 << 13; self.0 ^= self.0 >> 7; self.0 ^= self.0 << 17; self.0 }
 fn g(&mut self) -> f64 { let s = if self.next() & 1 == 0 { 1.0 } else { -1.0 }; s * (0.05 + 0.95 * ((self.next() >> 11) as f64) / ((1u64 << 53) as f64)) } }
#[test]
fn singular_generic() {
    std::panic::set_hook(Box::new(|_| {}));
    let mut rng = Rng(88172645463325252);
    let (mut refused, mut answered) = (0, 0);
    for _ in 0..20000 {
        let (a, c) = (rng.g(), rng.g());
        let t = Tridiagonal::<f64>::with_vecs(vec![a], vec![a, c], vec![c]);
        assert_eq!(t.det(), 0.0);
        let r = Vector::create(vec![1.0, 2.0]);
        match std::panic::catch_unwind(|| t.solve(&r)) { Ok(_) => answered += 1, Err(_) => refused += 1 }
    }
    eprintln!("f64 duplicate-row 2x2: refused {} answered {}", refused, answered);
    let (mut refused, mut answered) = (0, 0);
    for _ in 0..20000 {
        let (a, c) = (Cmplx::new(rng.g(), rng.g()), Cmplx::new(rng.g(), rng.g()));
        let t = Tridiagonal::<Cmplx>::with_vecs(vec![a], vec![a, c], vec![c]);
        let r = Vector::create(vec![Cmplx::new(1.0, 0.0), Cmplx::new(2.0, 0.0)]);
        match std::panic::catch_unwind(|| t.solve(&r)) { Ok(_) => answered += 1, Err(_) => refused += 1 }
    }
    eprintln!("complex duplicate-row 2x2: refused {} answered {}", refused, answered);
    // conj, scalar-left product, negative zero
    let t = Tridiagonal::<Cmplx>::with_vecs(vec![Cmplx::new(0.7, -0.3)], vec![Cmplx::new(0.1, 0.2), Cmplx::new(-0.0, 0.55)], vec![Cmplx::new(45.24, -0.001)]);
    let c = t.conj().convert();
    assert!(c[(1,0)] == Cmplx::new(0.7, 0.3) && c[(0,1)] == Cmplx::new(45.24, 0.001) && c[(1,1)] == Cmplx::new(0.0, -0.55) && c[(0,0)] == Cmplx::new(0.1, -0.2));
    let t = Tridiagonal::<f64>::with_vecs(vec![0.7, -0.3], vec![0.1, 0.2, 0.55], vec![45.24, -0.001]);
    let d = (0.7 * t.clone()).convert(); let e = (t.clone() * 0.7).convert();
    for i in 0..3 { for j in 0..3 { assert_eq!(d[(i,j)], e[(i,j)]); assert_eq!(d[(i,j)], 0.7 * t.convert()[(i,j)]); } }
}
