use ohsl::{Tridiagonal, Vector};
#[test]
fn probe() {
    // forward-substitution underflow
    let t = Tridiagonal::<f64>::with_vecs(vec![1e-200], vec![1.0, 2e-200], vec![0.0]);
    let r = Vector::create(vec![1e-200, 0.0]);
    let x = t.solve(&r);
    println!("underflow case x = {:e} {:e}", x[0], x[1]);
    let t = Tridiagonal::<f64>::with_vecs(vec![1e200], vec![1.0, 2e200], vec![0.0]);
    let r = Vector::create(vec![1e200, 0.0]);
    let x = t.solve(&r);
    println!("overflow case x = {:e} {:e}", x[0], x[1]);
    // singular generic
    for (a, c) in [(0.1, 0.3), (0.7, 0.3), (0.7, -0.3), (0.3, 0.7), (45.24, -0.001), (0.55, 0.7)] {
        let t = Tridiagonal::<f64>::with_vecs(vec![a], vec![a, c], vec![c]);
        let r = Vector::create(vec![1.0, 2.0]);
        let res = std::panic::catch_unwind(|| { let x = t.solve(&r); (x[0], x[1]) });
        println!("singular [[{a},{c}],[{a},{c}]] -> {:?} det {:e}", res.map_err(|_| "panic"), t.det());
    }
}
