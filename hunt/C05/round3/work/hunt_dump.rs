// Dumps inputs/outputs of Tridiagonal<f64> and Tridiagonal<Cmplx> operations for an exact check in Python
use ohsl::{Tridiagonal, Vector, Cmplx};
use std::panic::{catch_unwind, AssertUnwindSafe};
use std::io::Write;

struct Rng(u64);
impl Rng {
    fn next(&mut self) -> u64 { self.0 ^= self.0 << 13; self.0 ^= self.0 >> 7; self.0 ^= self.0 << 17; self.0 }
    fn below(&mut self, k: u64) -> u64 { (self.next() >> 11) % k }
    fn unit(&mut self) -> f64 { ((self.next() >> 11) as f64) / ((1u64 << 53) as f64) }        // [0,1)
    fn generic(&mut self) -> f64 { let s = if self.below(2) == 0 { 1.0 } else { -1.0 }; s * (0.05 + 0.95 * self.unit()) }
    fn pick(&mut self, v: &[i32]) -> i32 { v[self.below(v.len() as u64) as usize] }
}

fn panic_msg(e: Box<dyn std::any::Any + Send>) -> String {
    if let Some(s) = e.downcast_ref::<String>() { s.clone() } else if let Some(s) = e.downcast_ref::<&str>() { s.to_string() } else { "?".into() }
}

fn hx(v: f64) -> String { format!("{:016x}", v.to_bits()) }
fn hv(v: &[f64]) -> String { if v.is_empty() { return "-".into(); } v.iter().map(|x| hx(*x)).collect::<Vec<_>>().join(",") }
fn hc(v: &[Cmplx]) -> String { if v.is_empty() { return "-".into(); } v.iter().map(|z| format!("{}:{}", hx(z.real), hx(z.imag))).collect::<Vec<_>>().join(",") }

fn is_wide() -> bool { std::env::var("HUNT_WIDE").is_ok() }
const EXPS0: [i32; 9] = [0, 0, 0, 7, -7, 40, -40, 60, -60];
const EXPSW: [i32; 9] = [0, 0, 7, -7, 40, -40, 100, 200, -200];
const SMALL: [i32; 8] = [0, 0, 0, 0, -7, -16, -40, -60];

fn p10(k: i32) -> f64 { 10f64.powi(k) }

// generate one real tridiagonal matrix of class cls
fn gen_real(rng: &mut Rng, n: usize, cls: u64) -> (Vec<f64>, Vec<f64>, Vec<f64>) {
    let mut sub = vec![0.0; n.saturating_sub(1)]; let mut main = vec![0.0; n]; let mut sup = vec![0.0; n.saturating_sub(1)];
    let wide = rng.below(2) == 0;
    for i in 0..n {
        let rs = if wide { p10(rng.pick(if is_wide() { &EXPSW } else { &EXPS0 })) } else { 1.0 };
        let a = if i > 0 { rng.generic() * p10(rng.pick(&SMALL)) * if rng.below(12) == 0 { 0.0 } else { 1.0 } } else { 0.0 };
        let c = if i + 1 < n { rng.generic() * p10(rng.pick(&SMALL)) * if rng.below(12) == 0 { 0.0 } else { 1.0 } } else { 0.0 };
        let b = match cls {
            0 | 1 => { // diagonally dominant (row; class 1 transposes later)
                let s = if rng.below(2) == 0 { 1.0 } else { -1.0 };
                let margin = match rng.below(6) { 0 => 0.0, 1 => 1e-15, 2 => 0.3 * rng.unit(), 3 => 10.0 * rng.unit(), 4 => 1e7, _ => 1e-7 };
                let d = (a.abs() + c.abs()) * (1.0 + margin);
                if d == 0.0 { s * (0.05 + rng.unit()) } else { s * d }
            }
            _ => rng.generic() * p10(rng.pick(&[0, 0, 0, 1, -1, -7])),
        };
        if i > 0 { sub[i - 1] = a * rs; }
        main[i] = b * rs;
        if i + 1 < n { sup[i] = c * rs; }
    }
    if cls == 1 { std::mem::swap(&mut sub, &mut sup); } // column dominant
    (sub, main, sup)
}

fn gen_cplx_val(rng: &mut Rng) -> Cmplx {
    match rng.below(8) {
        0 => Cmplx::new(rng.generic(), 0.0),
        1 => Cmplx::new(0.0, rng.generic()),
        2 => Cmplx::new(1.0, rng.generic() * p10(rng.pick(&[-7, -16, -40, -60]))),
        3 => Cmplx::new(rng.generic() * p10(rng.pick(&[-7, -16, -40, -60])), -1.0),
        4 => Cmplx::new(rng.generic(), rng.generic() * p10(rng.pick(&[-7, -40, -60]))),
        _ => Cmplx::new(rng.generic(), rng.generic()),
    }
}

fn gen_cplx(rng: &mut Rng, n: usize, cls: u64) -> (Vec<Cmplx>, Vec<Cmplx>, Vec<Cmplx>) {
    let z0 = Cmplx::new(0.0, 0.0);
    let mut sub = vec![z0; n.saturating_sub(1)]; let mut main = vec![z0; n]; let mut sup = vec![z0; n.saturating_sub(1)];
    let wide = rng.below(2) == 0;
    for i in 0..n {
        let rs = if wide { p10(rng.pick(if is_wide() { &EXPSW } else { &EXPS0 })) } else { 1.0 };
        let a = if i > 0 { gen_cplx_val(rng) * (p10(rng.pick(&SMALL)) * if rng.below(12) == 0 { 0.0 } else { 1.0 }) } else { z0 };
        let c = if i + 1 < n { gen_cplx_val(rng) * (p10(rng.pick(&SMALL)) * if rng.below(12) == 0 { 0.0 } else { 1.0 }) } else { z0 };
        let b = match cls {
            0 | 1 => {
                let margin = match rng.below(6) { 0 => 1e-14, 1 => 1e-12, 2 => 0.3 * rng.unit(), 3 => 10.0 * rng.unit(), 4 => 1e7, _ => 1e-7 };
                let d = (a.real.hypot(a.imag) + c.real.hypot(c.imag)) * (1.0 + margin);
                let d = if d == 0.0 { 0.05 + rng.unit() } else { d };
                // direction
                let dir = gen_cplx_val(rng); let m = dir.real.hypot(dir.imag);
                let mut z = Cmplx::new(dir.real / m * d, dir.imag / m * d);
                // make sure modulus is not below d by rounding
                if z.real.hypot(z.imag) < d { z = z * (1.0 + 4e-16); }
                z
            }
            _ => gen_cplx_val(rng) * p10(rng.pick(&[0, 0, 0, 1, -1, -7])),
        };
        if i > 0 { sub[i - 1] = a * rs; }
        main[i] = b * rs;
        if i + 1 < n { sup[i] = c * rs; }
    }
    if cls == 1 { std::mem::swap(&mut sub, &mut sup); }
    (sub, main, sup)
}

#[test]
fn dump() {
    std::panic::set_hook(Box::new(|_| {}));
    let cases: usize = std::env::var("HUNT_CASES").ok().and_then(|s| s.parse().ok()).unwrap_or(20000);
    let seed: u64 = std::env::var("HUNT_SEED").ok().and_then(|s| s.parse().ok()).unwrap_or(12345);
    let out = std::env::var("HUNT_OUT").unwrap_or("/tmp/wt11/C05/_hunt/work/dump.txt".into());
    let mut f = std::io::BufWriter::new(std::fs::File::create(&out).unwrap());
    let mut rng = Rng(seed.wrapping_mul(0x9E3779B97F4A7C15) | 1);
    for _ in 0..cases {
        let n = 1 + rng.below(12) as usize;
        let cls = rng.below(3);
        if rng.below(2) == 0 {
            let (sub, main, sup) = gen_real(&mut rng, n, cls);
            let xs = p10(rng.pick(if is_wide() { &[0, 7, -40, 100, -100, -200] } else { &[0, 0, 7, -7, 40, -40] }));
            let xin: Vec<f64> = (0..n).map(|_| rng.generic() * xs * if rng.below(4) == 0 { p10(rng.pick(&SMALL)) } else { 1.0 }).collect();
            let t = Tridiagonal::with_vecs(sub.clone(), main.clone(), sup.clone());
            let xv = Vector::create(xin.clone());
            let y = &t * &xv;
            let yv: Vec<f64> = (0..n).map(|i| y[i]).collect();
            // right-hand side: either A*x or generic
            let rhs: Vec<f64> = if rng.below(2) == 0 { yv.clone() } else { (0..n).map(|_| rng.generic() * p10(rng.pick(if is_wide() { &EXPSW } else { &EXPS0 }))).collect() };
            let rv = Vector::create(rhs.clone());
            let s = catch_unwind(AssertUnwindSafe(|| t.solve(&rv)));
            let sol = match s { Ok(x) => format!("ok {}", hv(&(0..n).map(|i| x[i]).collect::<Vec<_>>())), Err(e) => format!("panic {}", panic_msg(e).replace(' ', "_")) };
            let d = t.det();
            writeln!(f, "F {} {} {} {} {} {} {} {} {} {}", n, cls, hv(&sub), hv(&main), hv(&sup), hv(&rhs), hv(&xin), sol, hx(d), hv(&yv)).unwrap();
        } else {
            let (sub, main, sup) = gen_cplx(&mut rng, n, cls);
            let xs = p10(rng.pick(if is_wide() { &[0, 7, -40, 100, -100, -200] } else { &[0, 0, 7, -7, 40, -40] }));
            let xin: Vec<Cmplx> = (0..n).map(|_| gen_cplx_val(&mut rng) * xs).collect();
            let t = Tridiagonal::with_vecs(sub.clone(), main.clone(), sup.clone());
            let xv = Vector::create(xin.clone());
            let y = &t * &xv;
            let yv: Vec<Cmplx> = (0..n).map(|i| y[i]).collect();
            let rhs: Vec<Cmplx> = if rng.below(2) == 0 { yv.clone() } else { (0..n).map(|_| gen_cplx_val(&mut rng) * p10(rng.pick(if is_wide() { &EXPSW } else { &EXPS0 }))).collect() };
            let rv = Vector::create(rhs.clone());
            let s = catch_unwind(AssertUnwindSafe(|| t.solve(&rv)));
            let sol = match s { Ok(x) => format!("ok {}", hc(&(0..n).map(|i| x[i]).collect::<Vec<_>>())), Err(e) => format!("panic {}", panic_msg(e).replace(' ', "_")) };
            let d = t.det();
            writeln!(f, "C {} {} {} {} {} {} {} {} {} {}", n, cls, hc(&sub), hc(&main), hc(&sup), hc(&rhs), hc(&xin), sol, hc(&[d]), hc(&yv)).unwrap();
        }
    }
}
