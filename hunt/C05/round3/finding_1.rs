// C05 finding 1: Tridiagonal::solve forms r[j] - sub[j-1]*u[j-1] with the UNSCALED row, so the product
// underflows (silently wrong finite answer) or overflows (NaN / inf answer) although the matrix is
// diagonally dominant, no entries of one row are far apart, and matrix, right-hand side and the exact
// solution are all ordinary normal f64 numbers. No zero pivot arises, so the property demands the solution.
use ohsl::{Tridiagonal, Vector};

fn close(got: f64, want: f64) -> bool {
    got.is_finite() && (got - want).abs() <= 1e-12 * want.abs()
}

#[test]
fn underflow_in_forward_sweep_2x2() {
    // [ 1        0      ] x = [ 1e-200 ]      exact solution x = ( 1e-200, -0.5e-200 )
    // [ 1e-200   2e-200 ]     [ 0      ]
    let t = Tridiagonal::<f64>::with_vecs(vec![1e-200], vec![1.0, 2e-200], vec![0.0]);
    let r = Vector::create(vec![1e-200, 0.0]);
    let x = t.solve(&r);
    assert!(close(x[0], 1e-200), "x0 = {:e}", x[0]);
    assert!(close(x[1], -0.5e-200), "x1 = {:e}, expected -5e-201", x[1]);
}

#[test]
fn underflow_in_forward_sweep_3x3_strictly_dominant() {
    // [ 2       1       0      ]       [ 4e-200 ]
    // [ 1e-200  3e-200  1e-200 ] x  =  [ 0      ]    exact solution x = ( 3e-200, -2e-200, 3e-200 )
    // [ 0       1       2      ]       [ 4e-200 ]
    let t = Tridiagonal::<f64>::with_vecs(vec![1e-200, 1.0], vec![2.0, 3e-200, 2.0], vec![1.0, 1e-200]);
    let r = Vector::create(vec![4e-200, 0.0, 4e-200]);
    let x = t.solve(&r);
    assert!(close(x[0], 3e-200) && close(x[1], -2e-200) && close(x[2], 3e-200),
        "x = ( {:e}, {:e}, {:e} ), expected ( 3e-200, -2e-200, 3e-200 )", x[0], x[1], x[2]);
}

#[test]
fn overflow_in_forward_sweep_2x2() {
    // [ 1       0     ] x = [ 1e200 ]      exact solution x = ( 1e200, -0.5e200 )
    // [ 1e200   2e200 ]     [ 0     ]
    let t = Tridiagonal::<f64>::with_vecs(vec![1e200], vec![1.0, 2e200], vec![0.0]);
    let r = Vector::create(vec![1e200, 0.0]);
    let x = t.solve(&r);
    assert!(close(x[0], 1e200) && close(x[1], -0.5e200), "x = ( {:e}, {:e} ), expected ( 1e200, -5e199 )", x[0], x[1]);
}
