// C05 finding 2 (n = 1 special case): formatting a 1x1 tridiagonal matrix with Display panics
// ( index out of bounds on the empty super-diagonal ), while its dense twin and every n >= 2 print fine.
use ohsl::{Tridiagonal, Cmplx};

#[test]
fn display_of_1x1_f64() {
    let t = Tridiagonal::<f64>::with_vecs(vec![], vec![2.5], vec![]);
    assert_eq!(format!("{}", t.convert()).trim(), "2.5"); // dense twin prints
    let s = format!("{}", t);                              // panics on the unmodified crate
    assert!(s.contains("2.5"));
}

#[test]
fn display_of_1x1_complex() {
    let t = Tridiagonal::<Cmplx>::with_vecs(vec![], vec![Cmplx::new(1.0, -2.0)], vec![]);
    let s = format!("{}", t);
    assert!(s.contains("( 1, -2 )"));
}

#[test]
fn display_of_2x2_is_fine() {
    let t = Tridiagonal::<f64>::with_vecs(vec![1.0], vec![2.0, 3.0], vec![4.0]);
    let s = format!("{}", t);
    assert!(s.contains('2') && s.contains('4') && s.contains('1') && s.contains('3'));
}
