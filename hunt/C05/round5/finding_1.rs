// C05 finding 1: exactly singular integer systems (zero pivot in exact elimination) are not refused;
// solve() returns numbers of order 1e14..1e16 instead of panicking with the zero-pivot message.
use ohsl::{Tridiagonal, Vector, Cmplx};
use std::panic::{catch_unwind, AssertUnwindSafe};

fn msg(e: Box<dyn std::any::Any + Send>) -> String {
    e.downcast_ref::<&str>().map(|s| s.to_string()).or(e.downcast_ref::<String>().cloned()).unwrap_or_default()
}

#[test]
fn f64_two_identical_rows_must_be_refused() {
    // A = [[11, 15], [11, 15]] : second pivot is 15 - 11 * 15 / 11 = 0 exactly, det = 0, and
    // A x = (1, 2) has no solution at all.
    let t = Tridiagonal::<f64>::with_vecs(vec![11.0], vec![11.0, 15.0], vec![15.0]);
    assert_eq!(t.det(), 0.0); // the crate's own determinant says singular
    let r = catch_unwind(AssertUnwindSafe(|| t.solve(&Vector::create(vec![1.0, 2.0]))));
    match r {
        Err(e) => assert!(msg(e).contains("zero pivot")),
        Ok(x) => panic!("singular system was not refused, solve returned {:?}", x),
    }
}

#[test]
fn f64_proportional_rows_must_be_refused() {
    // A = [[3, 7], [27, 63]] ( row 2 = 9 * row 1 )
    let t = Tridiagonal::<f64>::with_vecs(vec![27.0], vec![3.0, 63.0], vec![7.0]);
    let r = catch_unwind(AssertUnwindSafe(|| t.solve(&Vector::create(vec![1.0, 2.0]))));
    match r {
        Err(e) => assert!(msg(e).contains("zero pivot")),
        Ok(x) => panic!("singular system was not refused, solve returned {:?}", x),
    }
}

#[test]
fn complex_two_identical_rows_must_be_refused() {
    // A = [[1+3i, 1], [1+3i, 1]]
    let z = Cmplx::new(1.0, 3.0); let one = Cmplx::new(1.0, 0.0);
    let t = Tridiagonal::<Cmplx>::with_vecs(vec![z], vec![z, one], vec![one]);
    assert!(t.det() == Cmplx::new(0.0, 0.0));
    let r = catch_unwind(AssertUnwindSafe(|| t.solve(&Vector::create(vec![one, Cmplx::new(2.0, 0.0)]))));
    match r {
        Err(e) => assert!(msg(e).contains("zero pivot")),
        Ok(x) => panic!("singular system was not refused, solve returned {:?}", x),
    }
}
