// C05 finding 1: Tridiagonal::<f64>::solve returns NaN (no panic) for a tiny upper-triangular
// system whose pivots are all non-zero and whose exact solution is [1, 0].
use ohsl::{Tridiagonal, Vector};

fn check(sub: Vec<f64>, main: Vec<f64>, sup: Vec<f64>, rhs: Vec<f64>, expect: [f64; 2]) {
    let t = Tridiagonal::<f64>::with_vecs(sub, main, sup);
    let x = t.solve(&Vector::create(rhs)); // no zero pivot: must not refuse, must be right
    for i in 0..2 {
        assert!(x[i].is_finite(), "x[{}] = {} is not finite (exact solution is {:?})", i, x[i], expect);
        assert!((x[i] - expect[i]).abs() <= 1e-12, "x[{}] = {} but exact solution is {:?}", i, x[i], expect);
    }
}

#[test]
fn upper_bidiagonal_mixed_magnitudes() {
    // [ 1e-200  1e200 ] [x0]   [1e-200]      pivots 1e-200 and 2e200 (sub-diagonal is zero),
    // [ 0       2e200 ] [x1] = [0     ]      column diagonally dominant, exact solution [1, 0]
    check(vec![0.0], vec![1e-200, 2e200], vec![1e200], vec![1e-200, 0.0], [1.0, 0.0]);
}

#[test]
fn same_with_exact_powers_of_two() {
    let p = 2f64.powi(600); // ~4.1e180
    check(vec![0.0], vec![1.0 / p, 2.0 * p], vec![p], vec![1.0 / p, 0.0], [1.0, 0.0]);
}

#[test]
fn same_with_nonzero_subdiagonal() {
    // pivots: 1e-200, then 2e200 - 1e-200*1e200/1e-200 = 1e200; exact solution [1, 0]
    check(vec![1e-200], vec![1e-200, 2e200], vec![1e200], vec![1e-200, 1e-200], [1.0, 0.0]);
}
