// C15 finding 4: norm_p loses up to ~100 ulps on exactly-representable data when the sum of p-th powers is far from 1
// (p not a power of two): the p-norm of a one-entry vector comes out BELOW its infinity norm.
use ohsl::vector::Vector;

#[test]
fn norm_p_of_one_entry_vector() {
    let x = f64::powi( 2.0, 290 ); // 1.989e87, exactly representable; x^3 = 2^870 = 7.9e261 is exact too
    let v = Vector::<f64>::create( vec![ x ] );
    let n3 = v.norm_p( 3.0 );
    let ulps = ( ( n3 - x ) / ( x * f64::EPSILON ) ).abs();
    assert!( ulps <= 4.0, "norm_p( [2^290], 3 ) = {:e}, exact value {:e}: {} ulps off", n3, x, ulps );
    assert!( n3 >= v.norm_inf(), "norm_p {:e} < norm_inf {:e}", n3, v.norm_inf() );
}

#[test]
fn norm_p_of_27_equal_entries() {
    let x = f64::powi( 2.0, -300 ); // 27 entries 2^-300: ( 27 * 2^-900 )^(1/3) = 3 * 2^-300 exactly
    let v = Vector::<f64>::create( vec![ x; 27 ] );
    let n3 = v.norm_p( 3.0 ); let want = 3.0 * x;
    let ulps = ( ( n3 - want ) / ( want * f64::EPSILON ) ).abs();
    assert!( ulps <= 4.0, "norm_p( 27 x [2^-300], 3 ) = {:e}, exact value {:e}: {} ulps off", n3, want, ulps );
}
