// C15 finding 1: linspace / powspace with limits whose difference b - a overflows
// (both limits are finite f64, n >= 2) return NaN / inf instead of a sequence from a to b.
use ohsl::vector::Vector;

fn check( v: &Vector<f64>, a: f64, b: f64, n: usize, what: &str ) {
    assert_eq!( v.size(), n );
    assert!( v[0] == a, "{}: starts at {:e}, not at a = {:e} ({:?})", what, v[0], a, v.vec );
    for i in 0..n { assert!( v[i].is_finite(), "{}: entry {} is {:e} ({:?})", what, i, v[i], v.vec ); }
    let ulp = 2.0 * f64::EPSILON * a.abs().max( b.abs() );
    assert!( ( v[n-1] - b ).abs() <= 4.0 * ulp, "{}: ends at {:e}, not at b = {:e}", what, v[n-1], b );
    for i in 1..n { assert!( v[i] >= v[i-1], "{}: not monotone at {}", what, i ); }
}

#[test]
fn linspace_between_large_limits_of_opposite_sign() {
    let ( a, b ) = ( -1.0e308, 1.0e308 );
    check( &Vector::<f64>::linspace( a, b, 3 ), a, b, 3, "linspace( -1e308, 1e308, 3 )" );
}

#[test]
fn powspace_between_large_limits_of_opposite_sign() {
    let ( a, b ) = ( -1.0e308, 1.0e308 );
    check( &Vector::<f64>::powspace( a, b, 3, 1.0 ), a, b, 3, "powspace( -1e308, 1e308, 3, 1 )" );
}

#[test]
fn linspace_up_to_the_largest_float() {
    // here b - a does not overflow, but h * ( n - 1 ) rounds above f64::MAX
    let ( a, b ) = ( 0.0, f64::MAX );
    check( &Vector::<f64>::linspace( a, b, 4 ), a, b, 4, "linspace( 0, f64::MAX, 4 )" );
}
