// C15 finding 2: Vector<Complex<f64>> / Complex<f64> (and /=) with a subnormal divisor returns 0 (or a badly wrong value)
// although dividend, divisor and the exact quotient are all exactly representable.
use ohsl::vector::Vector;
use ohsl::complex::Complex;

#[test]
fn complex_vector_divided_by_subnormal_scalar() {
    let q = 5.0e-324; // 2^-1074, the smallest positive f64
    // z = 16 * s with s = ( 3 + 4i ) * 2^-1074 : every part is an exact small multiple of 2^-1074
    let s = Complex::new( 3.0 * q, 4.0 * q );
    let z = Complex::new( 48.0 * q, 64.0 * q );
    assert!( s.real / q == 3.0 && s.imag / q == 4.0 && z.real / q == 48.0 && z.imag / q == 64.0 );
    let v = Vector::create( vec![ z ] );
    let r = v.clone() / s;
    assert!( r[0].real == 16.0 && r[0].imag == 0.0, "[ 16 s ] / s = {:?}, expected ( 16, 0 )", r[0] );
    let mut w = v.clone(); w /= s;
    assert!( w[0].real == 16.0 && w[0].imag == 0.0, "[ 16 s ] /= s gives {:?}, expected ( 16, 0 )", w[0] );
}

#[test]
fn purely_real_subnormal_scalar() {
    let q = 5.0e-324;
    let v = Vector::create( vec![ Complex::new( 16.0 * q, -48.0 * q ) ] );
    let r = v / Complex::new( q, 0.0 );
    assert!( r[0].real == 16.0 && r[0].imag == -48.0, "( 16q - 48q i ) / q = {:?}, expected ( 16, -48 )", r[0] );
}
