// C15 finding 3: linspace with limits so close together (in the lowest binades) that the step ( b - a ) / ( n - 1 ) is subnormal:
// the step is rounded to a whole number of 2^-1074 and the sequence ends many ulps away from b (or never leaves a).
use ohsl::vector::Vector;

const Q: f64 = 5.0e-324; // 2^-1074 = one ulp for every |x| < 4.45e-308

fn check( a: f64, b: f64, n: usize ) {
    let v = Vector::<f64>::linspace( a, b, n );
    assert!( v[0] == a );
    let err = ( ( v[n-1] - b ) / Q ).abs();
    assert!( err <= 4.0, "linspace( {:e}, {:e}, {} ) ends at {:e}: {} ulps away from b", a, b, n, v[n-1], err );
    for i in 0..n { assert!( v[i] >= a && v[i] <= b + 4.0 * Q, "entry {} = {:e} lies outside [a, b]", i, v[i] ); }
}

#[test]
fn normal_limits_twenty_ulps_apart() {
    let a = 3.0e-308; // a normal number ( > 2.2250738585072014e-308 )
    let b = a + 20.0 * Q;
    assert!( ( b - a ) / Q == 20.0 );
    check( a, b, 40 ); // step 20/39 ulp is rounded to 1 ulp: the last entry is a + 39 ulps, 19 ulps beyond b
}

#[test]
fn subnormal_upper_limit() {
    check( 0.0, 30.0 * Q, 64 ); // step 30/63 ulp is rounded to 0: all 64 entries are 0, the end is 30 ulps ( 100 % ) short of b
}
