// C15 finding 2: norm_inf() aborts on a length-0 vector (real and complex), while norm_1, norm_2 and
// norm_p of the same vector return 0 - so inf-norm <= 2-norm <= 1-norm cannot even be evaluated at length 0.
use ohsl::{Vector, Complex};

#[test]
fn norm_inf_of_empty_real_vector_is_zero() {
    let v = Vector::<f64>::empty();
    assert_eq!( v.norm_1(), 0.0 );
    assert_eq!( v.norm_2(), 0.0 );
    assert_eq!( v.norm_p( 3.0 ), 0.0 );
    let ninf = v.norm_inf();                 // max over an empty set of non-negative numbers = 0
    assert_eq!( ninf, 0.0 );
    assert!( ninf <= v.norm_2() && v.norm_2() <= v.norm_1() );
}

#[test]
fn norm_inf_of_empty_complex_vector_is_zero() {
    let v = Vector::<Complex<f64>>::empty();
    assert_eq!( v.norm_1().real, 0.0 );
    assert_eq!( v.norm_inf(), 0.0 );
}

#[test]
fn norm_inf_after_edits_down_to_length_zero() {
    let mut v = Vector::<f64>::create( vec![ -3.0, 2.0 ] );
    assert_eq!( v.norm_inf(), 3.0 );
    v.pop(); v.pop();
    assert_eq!( v.size(), 0 );
    assert_eq!( v.norm_inf(), 0.0 );
}
