// C15 finding 3: norm_inf / norm_1 / abs of a Vector<Complex<f64>> overflow to inf or underflow to 0
// for finite, exactly representable entries beyond about 1e+-154 (well inside 1e-300..1e300).
use ohsl::{Vector, Complex};

#[test]
fn complex_norm_inf_of_large_purely_real_entry_is_exact() {
    let x = 2.0f64.powi( 600 );                                  // 4.1e180, exactly representable
    let v = Vector::create( vec![ Complex::new( x, 0.0 ), Complex::new( 0.0, -x / 2.0 ) ] );
    assert_eq!( v.norm_inf(), x );                               // crate: inf
    assert_eq!( v.norm_1().real, x + x / 2.0 );                  // crate: inf
    assert_eq!( v.abs()[0].real, x );                            // crate: inf
}

#[test]
fn complex_norm_inf_of_small_entry_is_not_zero() {
    let x = 2.0f64.powi( -600 );                                 // 2.4e-181, a normal number
    let v = Vector::create( vec![ Complex::new( 0.0, x ) ] );
    assert_eq!( v.norm_inf(), x );                               // crate: 0
    assert_eq!( v.norm_1().real, x );                            // crate: 0
}

#[test]
fn complex_norm_inf_is_homogeneous() {
    // |c| * ||v|| == ||c v|| ; c a power of two so that everything is exact:  ||(3+4i) 2^600|| = 5 * 2^600
    let s = 2.0f64.powi( 600 );
    let v = Vector::create( vec![ Complex::new( 3.0 * s, 4.0 * s ) ] );
    let c = 2.0f64.powi( -600 );
    let w = v.clone() * Complex::new( c, 0.0 );                  // = [ 3 + 4i ]
    assert_eq!( w.norm_inf(), 5.0 );
    let lhs = c * v.norm_inf();                                  // crate: inf
    assert!( ( lhs - 5.0 ).abs() <= 1e-14, "|c|*norm_inf(v) = {} but norm_inf(c v) = 5", lhs );
}
