// C15 finding 2: Vector<f64>::abs() (and Vector<f32>::abs()) returns -0.0 for an element -0.0; the
// absolute value of negative zero is +0.0 (IEEE 754 abs clears the sign bit; f64::abs does).
use ohsl::vector::Vector;

#[test]
fn abs_of_negative_zero_is_positive_zero() {
    let v = Vector::<f64>::create(vec![-0.0]);
    let a = v.abs();
    assert_eq!(a[0].to_bits(), (-0.0f64).abs().to_bits(), "abs(-0.0) has the sign bit set");
}

#[test]
fn abs_result_is_usable_as_non_negative() {
    let v = Vector::<f64>::create(vec![1.0, -0.0, -2.0]);
    let a = v.abs();
    for i in 0..3 {
        assert!(a[i].is_sign_positive(), "abs()[{}] = {:?}", i, a[i]);
        assert!(1.0 / a[i] > 0.0, "1 / abs()[{}] = {:?}", i, 1.0 / a[i]);
    }
}
