// C15 finding 1: Vector<f64>::norm_p does not reproduce exactly representable p-norms, and for large /
// small entries its error grows to ~50-100 ulp (1e-14 relative), which also breaks homogeneity under an
// exact scaling by a power of two.  p = 3 is inside the stated range [1, 8].
use ohsl::vector::Vector;

fn ulps(got: f64, want: f64) -> f64 { ((got - want) / want).abs() / f64::EPSILON }

// exactly representable data with an exactly representable p-norm: 3^3 + 4^3 + 5^3 = 6^3
#[test]
fn exact_data_exact_result() {
    let v = Vector::<f64>::create(vec![3.0, 4.0, 5.0]);
    assert_eq!(v.norm_p(3.0), 6.0);
    let w = Vector::<f64>::create(vec![1.0; 64]); // 64^(1/3) = 4
    assert_eq!(w.norm_p(3.0), 4.0);
}

// a one-element vector: every norm is |x|; 2^296 is exactly representable and (2^296)^3 = 2^888 is finite
#[test]
fn single_element_is_abs_to_rounding() {
    let x = 2f64.powi(296);
    let v = Vector::<f64>::create(vec![x]);
    assert_eq!(v.norm_1(), x);
    assert_eq!(v.norm_2(), x);
    assert_eq!(v.norm_inf(), x);
    let e = ulps(v.norm_p(3.0), x);
    assert!(e <= 4.0, "norm_p([2^296], 3) is off by {} ulp", e);
}

// homogeneity: scaling by a power of two is exact, so norm_p(2^k x) = 2^k norm_p(x) to rounding
#[test]
fn homogeneity_power_of_two() {
    let x = Vector::<f64>::create(vec![3.0, 4.0, 5.0]);
    let k = 2f64.powi(290);
    let kx = Vector::<f64>::create(vec![3.0 * k, 4.0 * k, 5.0 * k]);
    let e = ulps(kx.norm_p(3.0), k * x.norm_p(3.0));
    assert!(e <= 4.0, "norm_p(2^290 x, 3) differs from 2^290 norm_p(x, 3) by {} ulp", e);
}
