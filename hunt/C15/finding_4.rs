// C15 finding 4: find() on a length-0 vector ("first match, else last index") computes size() - 1 on a usize:
// debug builds abort with an arithmetic-overflow panic, release builds silently return usize::MAX as an "index".
// A crate satisfying the property must do something well defined here: return an index that is not beyond
// the vector (0 == size()) or refuse with a deliberate, explanatory panic.
use ohsl::Vector;
use std::panic::{catch_unwind, AssertUnwindSafe};

fn check( v: &Vector<i64> ) {
    assert_eq!( v.size(), 0 );
    match catch_unwind( AssertUnwindSafe( || v.find( 7 ) ) ) {
        Ok( index ) => assert!( index <= v.size(), "find on an empty vector returned index {}", index ),
        Err( payload ) => {
            let msg = payload.downcast_ref::<&str>().map( |s| s.to_string() )
                .or_else( || payload.downcast_ref::<String>().cloned() ).unwrap_or_default();
            assert!( !msg.contains( "overflow" ), "find on an empty vector died with: {}", msg );
        }
    }
}

#[test]
fn find_on_empty_vector() {
    check( &Vector::<i64>::empty() );
}

#[test]
fn find_after_clear() {
    let mut v = Vector::<i64>::create( vec![ 5, 7, 9 ] );
    assert_eq!( v.find( 7 ), 1 );
    assert_eq!( v.find( 8 ), 2 );       // not found -> last index
    v.clear();
    check( &v );
}
