// C15 finding 1: whole-vector sum()/product() abort on a length-0 vector
// (length 0 is inside the quantifier "vectors of length 0..64"; the sum over an empty index set
// is 0 and the product is 1, and a plain list model gives exactly that after clear()).
use ohsl::Vector;

#[test]
fn sum_of_empty_vector_is_zero() {
    let v = Vector::<f64>::empty();
    assert_eq!( v.size(), 0 );
    assert_eq!( v.sum(), 0.0 );
}

#[test]
fn product_of_empty_vector_is_one() {
    let v = Vector::<f64>::empty();
    assert_eq!( v.product(), 1.0 );
}

#[test]
fn sum_and_product_after_clear_match_list_model() {
    let mut v = Vector::<i64>::create( vec![ 1, 2, 3 ] );
    let mut model: Vec<i64> = vec![ 1, 2, 3 ];
    assert_eq!( v.sum(), model.iter().sum::<i64>() );
    assert_eq!( v.product(), model.iter().product::<i64>() );
    v.clear(); model.clear();
    assert_eq!( v.vec, model );
    assert_eq!( v.sum(), model.iter().sum::<i64>() );          // 0
    assert_eq!( v.product(), model.iter().product::<i64>() );  // 1
    v.resize( 0 );
    assert_eq!( v.sum(), 0 );
}
