use ohsl::vector::Vector;

struct Rng(u64);
impl Rng {
    fn next(&mut self) -> u64 { let mut x = self.0; x ^= x << 13; x ^= x >> 7; x ^= x << 17; self.0 = x; x }
    fn unit(&mut self) -> f64 { (self.next() >> 11) as f64 / (1u64 << 53) as f64 }
    fn range(&mut self, n: u64) -> u64 { self.next() % n }
}
fn ulp(x: f64) -> f64 { let x = x.abs(); if x < f64::MIN_POSITIVE { 5e-324 } else { let b = x.to_bits(); f64::from_bits(b + 1) - x } }

fn gen(r: &mut Rng, be: f64, spread: f64) -> f64 {
    let sign = if r.range(2) == 0 { 1.0 } else { -1.0 };
    let m = match r.range(8) { 0 => 0.7, 1 => 0.3, 2 => 45.24, 3 => 1.0, 4 => 1.0 + f64::EPSILON, 5 => 0.001, 6 => 0.55, _ => 0.1 + r.unit() * 9.9 };
    if r.range(12) == 0 { return 0.0 * sign; }
    sign * m * 10f64.powf((be + (r.unit() - 0.5) * spread).max(-300.0).min(300.0))
}

#[test]
fn laws() {
    let mut r = Rng(0xABCDEF0123456789);
    let bes = [ -290.0, -200.0, -160.0, -154.0, -140.0, -135.0, -120.0, -77.0, -40.0, -34.0, -7.0, 0.0, 7.0, 34.0, 40.0, 77.0, 120.0, 135.0, 140.0, 154.0, 160.0, 200.0, 290.0 ];
    let mut worst_h = [ (0.0, 0.0, 0.0, 0usize); 4 ];
    let mut worst_t = [ (0.0, 0usize); 4 ];
    let ps = [ 1.0, 1.5, 2.0, 3.0, 4.5, 8.0 ];
    for &be in bes.iter() { for &spread in [0.0, 4.0, 30.0].iter() { for _ in 0..1500 {
        let len = match r.range(5) { 0 => 1, 1 => 2, 2 => 64, _ => 1 + r.range(64) } as usize;
        let u: Vec<f64> = (0..len).map(|_| gen(&mut r, be, spread)).collect();
        // a second vector: same magnitudes, or nearly opposite, or generic
        let w: Vec<f64> = match r.range(4) { 0 => u.iter().map(|x| -x * (1.0 + 1e-9 * r.unit())).collect(), 1 => u.iter().map(|x| x * 0.7).collect(), _ => (0..len).map(|_| gen(&mut r, be, spread)).collect() };
        let uv = Vector::create(u.clone()); let wv = Vector::create(w.clone()); let s = &uv + &wv;
        let p = ps[r.range(6) as usize];
        let norms = |v: &Vector<f64>| [ v.norm_1(), v.norm_2(), v.norm_inf(), v.norm_p(p) ];
        let nu = norms(&uv); let nw = norms(&wv); let ns = norms(&s);
        for k in 0..4 {
            let rhs = nu[k] + nw[k];
            if rhs.is_finite() && ns[k] > rhs { let e = (ns[k] - rhs) / ulp(rhs); if e > worst_t[k].0 { worst_t[k] = (e, len); } }
        }
        // homogeneity with a generic factor that keeps everything in 1e-300..1e300
        let a = { let mut a = gen(&mut r, 0.0, 200.0); if a == 0.0 { a = -0.7; } a };
        if (be + a.abs().log10()).abs() < 295.0 - spread {
            let sc = uv.clone() * a; let nsn = norms(&sc);
            for k in 0..4 { let want = a.abs() * nu[k]; if want.is_finite() && want > 1e-300 { let e = ((nsn[k] - want) / ulp(want)).abs(); if e > worst_h[k].0 { worst_h[k] = (e, a, be, len); } } }
        }
    } } }
    println!("worst triangle excess (ulps, len) [1,2,inf,p]: {:?}", worst_t);
    println!("worst homogeneity error (ulps, a, base exp, len) [1,2,inf,p]: {:?}", worst_h);
}
