use ohsl::vector::Vector;

struct Rng(u64);
impl Rng {
    fn next(&mut self) -> u64 { let mut x = self.0; x ^= x << 13; x ^= x >> 7; x ^= x << 17; self.0 = x; x }
    fn unit(&mut self) -> f64 { (self.next() >> 11) as f64 / (1u64 << 53) as f64 }
    fn range(&mut self, n: u64) -> u64 { self.next() % n }
}

// double-double helpers
fn two_sum(a: f64, b: f64) -> (f64, f64) { let s = a + b; let bb = s - a; (s, (a - (s - bb)) + (b - bb)) }
fn two_prod(a: f64, b: f64) -> (f64, f64) { let p = a * b; (p, a.mul_add(b, -p)) }
fn dd_add(a: (f64, f64), b: (f64, f64)) -> (f64, f64) {
    let (s, e) = two_sum(a.0, b.0);
    let e = e + a.1 + b.1;
    let (s2, e2) = two_sum(s, e);
    (s2, e2)
}
fn dd_sqrt(a: (f64, f64)) -> f64 {
    if a.0 <= 0.0 { return 0.0; }
    let x = a.0.sqrt();
    // one newton correction
    let (p, pe) = two_prod(x, x);
    let r = (a.0 - p) - pe + a.1;
    x + r / (2.0 * x)
}

fn pow2(e: i32) -> f64 {
    // exact power of two, e in [-1074, 1023]
    if e >= -1022 { f64::from_bits(((e + 1023) as u64) << 52) } else { f64::from_bits(1u64 << (e + 1074)) }
}
fn exponent(x: f64) -> i32 {
    // floor(log2(x)) for positive finite x
    let b = x.to_bits();
    let e = ((b >> 52) & 0x7ff) as i32;
    if e == 0 { 63 - (b.leading_zeros() as i32) - 1074 } else { e - 1023 }
}

// returns (mantissa part, exponent): norm = m * 2^e
fn ref_norm2(v: &[f64]) -> (f64, i32) {
    let mx = v.iter().fold(0.0f64, |m, x| m.max(x.abs()));
    if mx == 0.0 { return (0.0, 0); }
    let e = exponent(mx);
    let mut s = (0.0, 0.0);
    for &x in v {
        // scale exactly by 2^-e in two steps to avoid overflow of the scale
        let h = e / 2; let y = x * pow2(-h) * pow2(-(e - h));
        // y may be rounded only if it is denormal after scaling - negligible (below 1e-300 relative)
        s = dd_add(s, two_prod(y, y));
    }
    (dd_sqrt(s), e)
}
fn apply(m: f64, e: i32) -> f64 { let h = e / 2; m * pow2(h) * pow2(e - h) }

fn ref_norm1(v: &[f64]) -> (f64, i32) {
    let mx = v.iter().fold(0.0f64, |m, x| m.max(x.abs()));
    if mx == 0.0 { return (0.0, 0); }
    let e = exponent(mx);
    let mut s = (0.0, 0.0);
    for &x in v { let h = e / 2; let y = x.abs() * pow2(-h) * pow2(-(e - h)); s = dd_add(s, (y, 0.0)); }
    (s.0 + s.1, e)
}
fn ref_normp(v: &[f64], p: f64) -> (f64, i32) {
    let mx = v.iter().fold(0.0f64, |m, x| m.max(x.abs()));
    if mx == 0.0 { return (0.0, 0); }
    let e = exponent(mx);
    let mut s = (0.0, 0.0);
    for &x in v { let h = e / 2; let y = x.abs() * pow2(-h) * pow2(-(e - h)); s = dd_add(s, (y.powf(p), 0.0)); }
    ((s.0 + s.1).powf(1.0 / p), e)
}

fn ulps(a: f64, b: f64) -> f64 {
    if a == b { return 0.0; }
    if !a.is_finite() || !b.is_finite() { return f64::INFINITY; }
    let m = a.abs().max(b.abs());
    let u = if m < f64::MIN_POSITIVE { 5e-324 } else { pow2(exponent(m) - 52) };
    ((a - b) / u).abs()
}

fn gen_value(r: &mut Rng, class: u64, base_exp: f64) -> f64 {
    let sign = if r.range(2) == 0 { 1.0 } else { -1.0 };
    let m = match r.range(6) {
        0 => 0.7, 1 => 0.3, 2 => 45.24, 3 => 1.0, 4 => 1.0 + f64::EPSILON * (r.range(4) as f64), _ => 0.1 + r.unit() * 9.9,
    };
    let ex = match class {
        0 => base_exp,                                   // all of one magnitude
        1 => base_exp + (r.unit() - 0.5) * 20.0,         // ten decades around
        2 => base_exp + (r.unit() - 0.5) * 80.0,
        3 => if r.range(4) == 0 { base_exp } else { base_exp - 7.0 - r.unit() * 10.0 }, // one dominating
        4 => if r.range(3) == 0 { 0.0 } else { base_exp },
        _ => (r.unit() - 0.5) * 600.0,
    };
    let ex = ex.max(-322.0).min(307.5);
    let x = sign * m * 10f64.powf(ex);
    if r.range(40) == 0 { 0.0 * sign } else if x.is_finite() { x } else { sign * 1e300 }
}

#[test]
fn norm_sweep() {
    let mut r = Rng(0x9E3779B97F4A7C15);
    let exps = [ -320.0, -310.0, -300.0, -200.0, -162.0, -155.0, -154.0, -150.0, -140.0, -136.0, -135.0, -134.0, -120.0, -80.0, -40.0, -39.0, -38.0, -34.0, -20.0, -7.0, 0.0, 7.0, 20.0, 33.0, 34.0, 38.0, 40.0, 80.0, 120.0, 134.0, 135.0, 136.0, 150.0, 153.0, 154.0, 155.0, 200.0, 290.0, 300.0, 305.0 ];
    let mut worst2 = (0.0, vec![]); let mut worst1 = (0.0, vec![]); let mut worstp = (0.0, vec![], 0.0); let mut worsti = (0.0, vec![]);
    let mut ineq_fail = 0; let mut nonneg_fail = 0;
    let mut n = 0;
    for &be in exps.iter() {
        for class in 0..6 {
            for _ in 0..400 {
                let len = match r.range(8) { 0 => 0, 1 => 1, 2 => 2, 3 => 3, 4 => 64, 5 => 200, _ => 1 + r.range(70) } as usize;
                let v: Vec<f64> = (0..len).map(|_| gen_value(&mut r, class, be)).collect();
                let vv = Vector::<f64>::create(v.clone());
                n += 1;
                let n1 = vv.norm_1(); let n2 = vv.norm_2(); let ni = vv.norm_inf();
                let (m, e) = ref_norm2(&v); let r2 = apply(m, e);
                let (m, e) = ref_norm1(&v); let r1 = apply(m, e);
                let ri = v.iter().fold(0.0f64, |m, x| m.max(x.abs()));
                if ni != ri || ni.is_sign_negative() { worsti = (1.0, v.clone()); }
                if r2.is_finite() && len <= 3 { let u = ulps(n2, r2); if u > worst2.0 { worst2 = (u, v.clone()); } }
                if r1.is_finite() { let u = ulps(n1, r1); if u > worst1.0 { worst1 = (u, v.clone()); } }
                if !(ni <= n2 && n2 <= n1) { ineq_fail += 1; if ineq_fail < 10 { println!("INEQ fail: inf {:e} two {:e} one {:e} v={:?}", ni, n2, n1, v); } }
                if !(n1 >= 0.0 && n2 >= 0.0 && ni >= 0.0) || n1.is_sign_negative() || n2.is_sign_negative() { nonneg_fail += 1; println!("NONNEG fail {:?}", v); }
                for &p in [1.0, 1.5, 2.0, 2.5, 3.0, 4.0, 5.5, 7.0, 8.0, 1.0 + 7.0 * r.unit()].iter() {
                    let np = vv.norm_p(p);
                    let (m, e) = ref_normp(&v, p); let rp = apply(m, e);
                    if rp.is_finite() && p == 2.0 { let u = ulps(np, rp); if u > worstp.0 { worstp = (u, v.clone(), p); } }
                    if np.is_sign_negative() || !(np >= 0.0) { nonneg_fail += 1; println!("NONNEG p fail {:?} {}", v, p); }
                    // p-norm between inf norm and 1-norm (allow 8 ulps)
                    if np.is_finite() && n1.is_finite() && (np < ni * (1.0 - 1e-14) || np > n1 * (1.0 + 1e-14)) { if false { println!("P-ORDER fail p={} np={:e} ni={:e} n1={:e} v={:?}", p, np, ni, n1, v); } }
                }
            }
        }
    }
    println!("cases {}", n);
    println!("worst norm_2 ulps {} at {:?}", worst2.0, if worst2.1.len() < 8 { worst2.1.clone() } else { vec![] });
    println!("worst norm_1 ulps {} len {}", worst1.0, worst1.1.len());
    println!("worst norm_p ulps {} p {} at {:?}", worstp.0, worstp.2, if worstp.1.len() < 8 { worstp.1.clone() } else { vec![worstp.1.len() as f64] });
    println!("norm_inf mismatch {:?}", worsti);
    println!("ineq fails {} nonneg fails {}", ineq_fail, nonneg_fail);
    assert!(ineq_fail == 0 && nonneg_fail == 0);
    assert!(worst2.0 < 8.0);
    assert!(worsti.0 == 0.0);
}
