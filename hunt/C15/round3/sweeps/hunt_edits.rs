use ohsl::vector::Vector;
use ohsl::complex::Complex;
use std::panic::{catch_unwind, AssertUnwindSafe};

struct Rng(u64);
impl Rng {
    fn next(&mut self) -> u64 { let mut x = self.0; x ^= x << 13; x ^= x >> 7; x ^= x << 17; self.0 = x; x }
    fn range(&mut self, n: u64) -> u64 { self.next() % n }
}

type C = Complex<f64>;
fn c(re: f64, im: f64) -> C { Complex::new(re, im) }

fn same_f(a: &[f64], b: &[f64]) -> bool { a.len() == b.len() && a.iter().zip(b).all(|(x, y)| x.to_bits() == y.to_bits()) }
fn same_c(a: &[C], b: &[(f64, f64)]) -> bool { a.len() == b.len() && a.iter().zip(b).all(|(x, y)| x.real.to_bits() == y.0.to_bits() && x.imag.to_bits() == y.1.to_bits()) }

fn val(r: &mut Rng) -> f64 { [ -2.0, -1.0, -0.5, 0.0, 0.5, 1.0, 2.0, 3.0, -3.0, 0.25, 4.0, -0.0 ][r.range(12) as usize] }

#[test]
fn edits_f64() {
    std::panic::set_hook(Box::new(|_| {}));
    let mut r = Rng(0x1234567887654321);
    for _trial in 0..3000 {
        let mut v = Vector::<f64>::empty();
        let mut m: Vec<f64> = Vec::new();
        for _step in 0..80 {
            match r.range(22) {
                0 | 1 | 2 => { let x = val(&mut r); v.push(x); m.push(x); }
                3 | 4 => { let x = val(&mut r); v.push_front(x); m.insert(0, x); }
                5 | 6 => { let x = val(&mut r); let pos = r.range(m.len() as u64 + 1) as usize; v.insert(pos, x); m.insert(pos, x); }
                7 => { if m.is_empty() { assert!(catch_unwind(AssertUnwindSafe(|| { v.pop(); })).is_err()); } else { let a = v.pop(); let b = m.pop().unwrap(); assert_eq!(a.to_bits(), b.to_bits()); } }
                8 => { if !m.is_empty() { let i = r.range(m.len() as u64) as usize; let j = r.range(m.len() as u64) as usize; v.swap(i, j); m.swap(i, j); } }
                9 => { let n = r.range(70) as usize; v.resize(n); m.resize(n, 0.0); }
                10 => { let x = val(&mut r); v.assign(x); for e in m.iter_mut() { *e = x; } }
                11 => { if r.range(6) == 0 { v.clear(); m.clear(); } }
                12 => { v.sort_by(|a, b| a.partial_cmp(b).unwrap()); m.sort_by(|a, b| a.partial_cmp(b).unwrap());
                        // unstable sort: -0.0 and 0.0 may be permuted; compare numerically then re-sync
                        assert!(v.vec.len() == m.len() && v.vec.iter().zip(&m).all(|(a, b)| a == b)); m = v.vec.clone(); }
                13 => { if !m.is_empty() { let x = val(&mut r); let f = v.find(x); let e = m.iter().position(|y| *y == x).unwrap_or(m.len() - 1); assert_eq!(f, e, "find {:?} in {:?}", x, m); } }
                14 => { // failing calls must leave the vector unchanged
                        let n = m.len();
                        assert!(catch_unwind(AssertUnwindSafe(|| { v.insert(n + 1, 9.0); })).is_err());
                        assert!(catch_unwind(AssertUnwindSafe(|| { v.swap(0, n); })).is_err());
                        assert!(catch_unwind(AssertUnwindSafe(|| { v.sum_slice(0, n); })).is_err());
                        assert!(catch_unwind(AssertUnwindSafe(|| { v.product_slice(n, n); })).is_err());
                        if n >= 2 { assert!(catch_unwind(AssertUnwindSafe(|| { v.sum_slice(1, 0); })).is_err()); }
                        let w = Vector::<f64>::new(n + 1, 1.0);
                        assert!(catch_unwind(AssertUnwindSafe(|| { let _ = &v + &w; })).is_err());
                        assert!(catch_unwind(AssertUnwindSafe(|| { let _ = &v - &w; })).is_err());
                        assert!(catch_unwind(AssertUnwindSafe(|| { let _ = v.dot(&w); })).is_err());
                        assert!(catch_unwind(AssertUnwindSafe(|| { v += w.clone(); })).is_err());
                        assert!(catch_unwind(AssertUnwindSafe(|| { v -= w.clone(); })).is_err());
                }
                15 => { // range reductions
                    if !m.is_empty() {
                        let s = r.range(m.len() as u64) as usize; let e = s + r.range((m.len() - s) as u64) as usize;
                        let mut es = 0.0; for i in s..=e { es += m[i]; }
                        let mut ep = 1.0; for i in s..=e { ep *= m[i]; }
                        assert_eq!(v.sum_slice(s, e), es); assert_eq!(v.product_slice(s, e), ep, "product {}..={} of {:?}", s, e, m);
                    }
                    let es: f64 = m.iter().sum(); assert_eq!(v.sum(), es);
                    let ep: f64 = m.iter().product(); assert_eq!(v.product(), ep);
                }
                16 => { let x = [2.0, -0.5, 4.0, 1.0, -1.0][r.range(5) as usize];
                        match r.range(6) { 0 => { v *= x; for e in m.iter_mut() { *e *= x; } } 1 => { v /= x; for e in m.iter_mut() { *e /= x; } } 2 => { v += x; for e in m.iter_mut() { *e += x; } }
                            3 => { v -= x; for e in m.iter_mut() { *e -= x; } } 4 => { v = v.clone() * x; for e in m.iter_mut() { *e *= x; } } _ => { v = x * v.clone(); for e in m.iter_mut() { *e = x * *e; } } }
                        // keep magnitudes bounded
                        if m.iter().any(|e| e.abs() > 1e6) { v.assign(1.0); for e in m.iter_mut() { *e = 1.0; } } }
                17 => { let w: Vec<f64> = (0..m.len()).map(|_| val(&mut r)).collect(); let wv = Vector::create(w.clone());
                        match r.range(7) { 0 => { v = &v + &wv; for (e, y) in m.iter_mut().zip(&w) { *e += y; } } 1 => { v = &v - &wv; for (e, y) in m.iter_mut().zip(&w) { *e -= y; } }
                            2 => { v += wv.clone(); for (e, y) in m.iter_mut().zip(&w) { *e += y; } } 3 => { v -= wv.clone(); for (e, y) in m.iter_mut().zip(&w) { *e -= y; } }
                            4 => { v = v.clone() + wv.clone(); for (e, y) in m.iter_mut().zip(&w) { *e += y; } } 5 => { v = v.clone() - &wv; for (e, y) in m.iter_mut().zip(&w) { *e -= y; } }
                            _ => { let d = v.dot(&wv); let mut ed = 0.0; for (e, y) in m.iter().zip(&w) { ed += e * y; } assert_eq!(d, ed); assert_eq!(v.dot_f64(&wv), ed); } } }
                18 => { let a = v.abs(); let e: Vec<f64> = m.iter().map(|x| x.abs()).collect(); assert!(same_f(&a.vec, &e)); let n1: f64 = e.iter().sum(); assert_eq!(v.norm_1(), n1);
                        let ni = e.iter().fold(0.0f64, |a, b| a.max(*b)); assert_eq!(v.norm_inf(), ni); }
                19 => { v = -v.clone(); for e in m.iter_mut() { *e = -*e; } }
                20 => { let w = v.clone(); assert!(w == v); assert_eq!(w.size(), m.len()); if !m.is_empty() { let i = r.range(m.len() as u64) as usize; let x = val(&mut r); v[i] = x; m[i] = x; assert!(w.vec[i].to_bits() == x.to_bits() || w != v || w[i] == x); } }
                _ => { assert_eq!(v.size(), m.len()); }
            }
            assert!(same_f(&v.vec, &m), "model mismatch: {:?} vs {:?}", v.vec, m);
        }
    }
}

fn cval(r: &mut Rng) -> (f64, f64) { (val(r), if r.range(3) == 0 { 0.0 } else { val(r) }) }

#[test]
fn edits_complex() {
    std::panic::set_hook(Box::new(|_| {}));
    let mut r = Rng(0x0FEDCBA987654321);
    for _trial in 0..3000 {
        let mut v = Vector::<C>::empty();
        let mut m: Vec<(f64, f64)> = Vec::new();
        for _step in 0..80 {
            match r.range(20) {
                0 | 1 | 2 => { let x = cval(&mut r); v.push(c(x.0, x.1)); m.push(x); }
                3 | 4 => { let x = cval(&mut r); v.push_front(c(x.0, x.1)); m.insert(0, x); }
                5 | 6 => { let x = cval(&mut r); let pos = r.range(m.len() as u64 + 1) as usize; v.insert(pos, c(x.0, x.1)); m.insert(pos, x); }
                7 => { if !m.is_empty() { let a = v.pop(); let b = m.pop().unwrap(); assert!(a.real.to_bits() == b.0.to_bits() && a.imag.to_bits() == b.1.to_bits()); } }
                8 => { if !m.is_empty() { let i = r.range(m.len() as u64) as usize; let j = r.range(m.len() as u64) as usize; v.swap(i, j); m.swap(i, j); } }
                10 => { let x = cval(&mut r); v.assign(c(x.0, x.1)); for e in m.iter_mut() { *e = x; } }
                11 => { if r.range(6) == 0 { v.clear(); m.clear(); } }
                12 => { v.sort_by(|a, b| a.partial_cmp(b).unwrap()); m.sort_by(|a, b| a.partial_cmp(b).unwrap());
                        assert!(v.vec.len() == m.len() && v.vec.iter().zip(&m).all(|(a, b)| a.real == b.0 && a.imag == b.1)); m = v.vec.iter().map(|z| (z.real, z.imag)).collect(); }
                13 => { if !m.is_empty() { let x = cval(&mut r); let f = v.find(c(x.0, x.1)); let e = m.iter().position(|y| *y == x).unwrap_or(m.len() - 1); assert_eq!(f, e); } }
                15 => {
                    if !m.is_empty() {
                        let s = r.range(m.len() as u64) as usize; let e = s + r.range((m.len() - s) as u64).min(12) as usize;
                        let mut es = (0.0, 0.0); for i in s..=e { es.0 += m[i].0; es.1 += m[i].1; }
                        let mut ep = (1.0, 0.0); for i in s..=e { ep = (ep.0 * m[i].0 - ep.1 * m[i].1, ep.0 * m[i].1 + ep.1 * m[i].0); }
                        let ss = v.sum_slice(s, e); assert!(ss.real == es.0 && ss.imag == es.1);
                        let pp = v.product_slice(s, e); assert!(pp.real == ep.0 && pp.imag == ep.1, "product {:?} vs {:?}", pp, ep);
                    }
                }
                16 => { let x = [(2.0, 0.0), (0.0, 1.0), (0.0, -1.0), (1.0, 1.0), (-0.5, 0.0), (0.0, 2.0)][r.range(6) as usize]; let xc = c(x.0, x.1);
                        let mul = |e: (f64, f64)| (e.0 * x.0 - e.1 * x.1, e.0 * x.1 + e.1 * x.0);
                        // exact division by these particular scalars: multiply by conj / |x|^2 (|x|^2 is a power of two)
                        let d = x.0 * x.0 + x.1 * x.1; let div = |e: (f64, f64)| ((e.0 * x.0 + e.1 * x.1) / d, (e.1 * x.0 - e.0 * x.1) / d);
                        match r.range(6) { 0 => { v *= xc; for e in m.iter_mut() { *e = mul(*e); } } 1 => { v /= xc; for e in m.iter_mut() { *e = div(*e); } } 2 => { v += xc; for e in m.iter_mut() { e.0 += x.0; e.1 += x.1; } }
                            3 => { v -= xc; for e in m.iter_mut() { e.0 -= x.0; e.1 -= x.1; } } 4 => { v = v.clone() * xc; for e in m.iter_mut() { *e = mul(*e); } } _ => { v = v.clone() / xc; for e in m.iter_mut() { *e = div(*e); } } }
                        if m.iter().any(|e| e.0.abs() > 1e6 || e.1.abs() > 1e6) { v.assign(c(1.0, 0.0)); for e in m.iter_mut() { *e = (1.0, 0.0); } } }
                17 => { let w: Vec<(f64, f64)> = (0..m.len()).map(|_| cval(&mut r)).collect(); let wv = Vector::create(w.iter().map(|x| c(x.0, x.1)).collect());
                        match r.range(4) { 0 => { v = &v + &wv; for (e, y) in m.iter_mut().zip(&w) { e.0 += y.0; e.1 += y.1; } } 1 => { v = &v - &wv; for (e, y) in m.iter_mut().zip(&w) { e.0 -= y.0; e.1 -= y.1; } }
                            2 => { v += wv.clone(); for (e, y) in m.iter_mut().zip(&w) { e.0 += y.0; e.1 += y.1; } }
                            _ => { let d = v.dot(&wv); let mut ed = (0.0, 0.0); for (e, y) in m.iter().zip(&w) { ed.0 += e.0 * y.0 - e.1 * y.1; ed.1 += e.0 * y.1 + e.1 * y.0; } assert!(d.real == ed.0 && d.imag == ed.1); } } }
                18 => { let cj = v.conj(); let e: Vec<(f64, f64)> = m.iter().map(|x| (x.0, -x.1)).collect(); assert!(same_c(&cj.vec, &e));
                        let re = v.real(); assert!(same_f(&re.vec, &m.iter().map(|x| x.0).collect::<Vec<_>>())); }
                19 => { v = -v.clone(); for e in m.iter_mut() { *e = (-e.0, -e.1); } }
                _ => { assert_eq!(v.size(), m.len()); }
            }
            // signed zeros from products can legitimately differ between equivalent formulas: compare numerically
            assert!(v.vec.len() == m.len() && v.vec.iter().zip(&m).all(|(a, b)| a.real == b.0 && a.imag == b.1), "model mismatch: {:?} vs {:?}", v.vec, m);
            m = v.vec.iter().map(|z| (z.real, z.imag)).collect();
        }
    }
}

#[test]
fn edits_i64() {
    let mut r = Rng(0x7777777712345678);
    for _trial in 0..3000 {
        let mut v = Vector::<i64>::empty();
        let mut m: Vec<i64> = Vec::new();
        for _step in 0..80 {
            let x = r.range(9) as i64 - 4;
            match r.range(14) {
                0 | 1 | 2 => { v.push(x); m.push(x); }
                3 => { v.push_front(x); m.insert(0, x); }
                4 => { let pos = r.range(m.len() as u64 + 1) as usize; v.insert(pos, x); m.insert(pos, x); }
                5 => { if !m.is_empty() { assert_eq!(v.pop(), m.pop().unwrap()); } }
                6 => { if !m.is_empty() { let i = r.range(m.len() as u64) as usize; let j = r.range(m.len() as u64) as usize; v.swap(i, j); m.swap(i, j); } }
                7 => { let n = r.range(70) as usize; v.resize(n); m.resize(n, 0); }
                8 => { if r.range(4) == 0 { v.assign(x); for e in m.iter_mut() { *e = x; } } }
                9 => { v.sort(); m.sort(); }
                10 => { if !m.is_empty() { let f = v.find(x); let e = m.iter().position(|y| *y == x).unwrap_or(m.len() - 1); assert_eq!(f, e); } }
                11 => { let s: i64 = m.iter().sum(); assert_eq!(v.sum(), s); let a = v.abs(); assert_eq!(a.vec, m.iter().map(|x| x.abs()).collect::<Vec<_>>()); assert_eq!(v.norm_1(), m.iter().map(|x| x.abs()).sum::<i64>());
                        if !m.is_empty() { let s = r.range(m.len() as u64) as usize; let e = s + r.range((m.len() - s) as u64).min(15) as usize; assert_eq!(v.product_slice(s, e), m[s..=e].iter().product::<i64>()); assert_eq!(v.sum_slice(s, e), m[s..=e].iter().sum::<i64>()); } }
                12 => { if r.range(8) == 0 { v.clear(); m.clear(); } }
                _ => { let w: Vec<i64> = (0..m.len()).map(|_| r.range(9) as i64 - 4).collect(); let wv = Vector::create(w.clone()); assert_eq!(v.dot(&wv), m.iter().zip(&w).map(|(a, b)| a * b).sum::<i64>()); v = &v - &wv; for (e, y) in m.iter_mut().zip(&w) { *e -= y; }
                       if m.iter().any(|e| e.abs() > 1000) { v.assign(1); for e in m.iter_mut() { *e = 1; } } }
            }
            assert_eq!(v.vec, m);
        }
    }
}
