use ohsl::vector::Vector;

struct Rng(u64);
impl Rng {
    fn next(&mut self) -> u64 { let mut x = self.0; x ^= x << 13; x ^= x >> 7; x ^= x << 17; self.0 = x; x }
    fn range(&mut self, n: u64) -> u64 { self.next() % n }
}

#[test]
fn ineq_focus() {
    let mut r = Rng(0x0123456789ABCDEF);
    let mut cases = 0u64; let mut bad = 0;
    let rel = [ 1.0, 1.0 - f64::EPSILON / 2.0, 0.5, 0.7, 2f64.powi(-25), 2f64.powi(-26), 1.5 * 2f64.powi(-26), 2f64.powi(-27), 0.7 * 2f64.powi(-26), 2f64.powi(-52), 2f64.powi(-53), 2f64.powi(-54), 1e-7, 1e-40, 1e-120, 1e-200, 0.0 ];
    for e in -1074..=1023 {
        for _ in 0..150 {
            // generic mantissa in [1,2), or exactly 1, or just below 2
            let m = match r.range(5) { 0 => 1.0, 1 => 2.0 - f64::EPSILON, 2 => 1.0 + f64::EPSILON, _ => 1.0 + (r.next() >> 12) as f64 / (1u64 << 52) as f64 };
            let x = m * 2f64.powi(e.max(-1022)) * if e < -1022 { 2f64.powi(e + 1022) } else { 1.0 };
            if x == 0.0 || !x.is_finite() { continue; }
            let len = 1 + r.range(5) as usize;
            let pos = r.range(len as u64) as usize;
            let v: Vec<f64> = (0..len).map(|i| if i == pos { x } else { let y = x * rel[r.range(rel.len() as u64) as usize]; if r.range(2) == 0 { y } else { -y } }).collect();
            let vv = Vector::create(v.clone());
            let (n1, n2, ni) = (vv.norm_1(), vv.norm_2(), vv.norm_inf());
            cases += 1;
            let mx = v.iter().fold(0.0f64, |a, b| a.max(b.abs()));
            if !(ni == mx && ni <= n2 && n2 <= n1) || n2.is_nan() { bad += 1; if bad < 20 { println!("fail: {:?} inf {:e} two {:e} one {:e}", v, ni, n2, n1); } }
            // norm_p with p = 2 must agree with the 2-norm closely, and lie between
            for &p in [1.0, 2.0, 4.0, 8.0].iter() {
                let np = vv.norm_p(p);
                if !(np >= ni * (1.0 - 1e-15) && (np <= n1 * (1.0 + 1e-15) || !n1.is_finite())) { bad += 1; if bad < 20 { println!("fail p={}: {:?} inf {:e} p {:e} one {:e}", p, v, ni, np, n1); } }
            }
        }
    }
    println!("cases {}", cases);
    assert_eq!(bad, 0);
}
