use ohsl::vector::Vector;
use ohsl::complex::Complex;

struct Rng(u64);
impl Rng {
    fn next(&mut self) -> u64 { let mut x = self.0; x ^= x << 13; x ^= x >> 7; x ^= x << 17; self.0 = x; x }
    fn unit(&mut self) -> f64 { (self.next() >> 11) as f64 / (1u64 << 53) as f64 }
    fn range(&mut self, n: u64) -> u64 { self.next() % n }
}
fn ulp(x: f64) -> f64 { let x = x.abs(); if x < f64::MIN_POSITIVE { 5e-324 } else { let b = x.to_bits(); f64::from_bits(b + 1) - x } }
fn gen(r: &mut Rng, be: f64, spread: f64) -> f64 {
    let sign = if r.range(2) == 0 { 1.0 } else { -1.0 };
    let m = match r.range(8) { 0 => 0.7, 1 => 0.3, 2 => 45.24, 3 => 1.0, 4 => 1.0 + f64::EPSILON, 5 => 0.001, 6 => 0.55, _ => 0.1 + r.unit() * 9.9 };
    if r.range(12) == 0 { return 0.0 * sign; }
    sign * m * 10f64.powf(be + (r.unit() - 0.5) * spread)
}

#[test]
fn dot_exact_and_generic() {
    let mut r = Rng(0x5555AAAA12345678);
    let mut worst = 0.0f64;
    for n in 0..420usize {
        for _ in 0..20 {
            // exact integer data
            let a: Vec<i64> = (0..n).map(|_| r.range(2001) as i64 - 1000).collect();
            let b: Vec<i64> = (0..n).map(|_| r.range(2001) as i64 - 1000).collect();
            let e: i64 = a.iter().zip(&b).map(|(x, y)| x * y).sum();
            let av = Vector::create(a.iter().map(|x| *x as f64).collect::<Vec<_>>()); let bv = Vector::create(b.iter().map(|x| *x as f64).collect::<Vec<_>>());
            assert_eq!(av.dot(&bv), e as f64); assert_eq!(av.dot_f64(&bv), e as f64, "dot_f64 n={}", n);
            assert_eq!(Vector::create(a.clone()).dot(&Vector::create(b.clone())), e);
            // generic: sequential definition, bitwise
            let be = [ -120.0, -40.0, -7.0, 0.0, 7.0, 40.0, 120.0 ][r.range(7) as usize];
            let x: Vec<f64> = (0..n).map(|_| gen(&mut r, be, 6.0)).collect(); let y: Vec<f64> = (0..n).map(|_| gen(&mut r, -be * 0.5, 6.0)).collect();
            let xv = Vector::create(x.clone()); let yv = Vector::create(y.clone());
            let mut s = 0.0; let mut sa = 0.0; for i in 0..n { s += x[i] * y[i]; sa += (x[i] * y[i]).abs(); }
            assert_eq!(xv.dot(&yv).to_bits(), s.to_bits());
            let d = xv.dot_f64(&yv);
            if sa > 0.0 { worst = worst.max((d - s).abs() / (sa * f64::EPSILON)); }
            let mut t = 0.0; for i in 0..n { t += x[i]; } assert_eq!(xv.sum().to_bits(), (if n == 0 { 0.0 } else { t }).to_bits());
            if n > 0 && n < 40 { let mut p = x[0]; for i in 1..n { p *= x[i]; } assert_eq!(xv.product().to_bits(), p.to_bits()); }
        }
    }
    println!("worst dot_f64 deviation from sequential in units of eps*sum|x y|: {}", worst);
    assert!(worst < 500.0);
}

// double-double reference for complex scalar division / multiplication
fn two_sum(a: f64, b: f64) -> (f64, f64) { let s = a + b; let bb = s - a; (s, (a - (s - bb)) + (b - bb)) }
fn two_prod(a: f64, b: f64) -> (f64, f64) { let p = a * b; (p, a.mul_add(b, -p)) }
fn dd_sum2(p: (f64, f64), q: (f64, f64)) -> f64 { let (s, e) = two_sum(p.0, q.0); s + (e + p.1 + q.1) }

#[test]
fn complex_scalar_ops_generic() {
    let mut r = Rng(0x1111222233334444);
    let mut worst_mul = (0.0, (0.0, 0.0), (0.0, 0.0)); let mut worst_div = (0.0, (0.0, 0.0), (0.0, 0.0));
    let bes = [ -120.0, -77.0, -40.0, -7.0, 0.0, 7.0, 40.0, 77.0, 120.0 ];
    for _ in 0..300000 {
        let bz = bes[r.range(9) as usize]; let bs = bes[r.range(9) as usize];
        let z = (gen(&mut r, bz, 2.0), if r.range(5) == 0 { gen(&mut r, bz - 40.0, 2.0) } else { gen(&mut r, bz, 2.0) });
        let s = (gen(&mut r, bs, 2.0), if r.range(5) == 0 { gen(&mut r, bs - 40.0, 2.0) } else { gen(&mut r, bs, 2.0) });
        if s.0 == 0.0 && s.1 == 0.0 { continue; }
        let v = Vector::create(vec![ Complex::new(z.0, z.1) ]);
        let sc = Complex::new(s.0, s.1);
        let m = v.clone() * sc;
        // reference product, accurate to ~1e-32 relative before the final rounding
        let re = dd_sum2(two_prod(z.0, s.0), { let p = two_prod(z.1, s.1); (-p.0, -p.1) });
        let im = dd_sum2(two_prod(z.0, s.1), two_prod(z.1, s.0));
        let mag = re.hypot(im);
        if mag > 1e-290 && mag < 1e290 {
            // componentwise error measured against the magnitude of the result (normwise accuracy is what the textbook formula gives)
            let e = ((m[0].real - re).abs().max((m[0].imag - im).abs())) / ulp(mag);
            if e > worst_mul.0 { worst_mul = (e, z, s); }
        }
        let q = v.clone() / sc;
        // reference quotient through exactly scaled divisor
        let k = s.0.abs().max(s.1.abs()); let ex = k.log2().floor(); let sc2 = 2f64.powf(-ex);
        let c = s.0 * sc2; let d = s.1 * sc2;
        let den = dd_sum2(two_prod(c, c), two_prod(d, d));
        let nre = dd_sum2(two_prod(z.0, c), two_prod(z.1, d)); let nim = dd_sum2(two_prod(z.1, c), { let p = two_prod(z.0, d); (-p.0, -p.1) });
        let qre = nre / den * sc2; let qim = nim / den * sc2;
        let mag = qre.hypot(qim);
        if mag > 1e-290 && mag < 1e290 {
            let e = ((q[0].real - qre).abs().max((q[0].imag - qim).abs())) / ulp(mag);
            if e > worst_div.0 { worst_div = (e, z, s); }
        }
        let mut w = v.clone(); w /= sc; assert!(w[0].real.to_bits() == q[0].real.to_bits() && w[0].imag.to_bits() == q[0].imag.to_bits());
        let mut w = v.clone(); w *= sc; assert!(w[0].real == m[0].real && w[0].imag == m[0].imag);
    }
    println!("worst complex scalar mul error (ulps of |result|): {:?}", worst_mul);
    println!("worst complex scalar div error (ulps of |result|): {:?}", worst_div);
    assert!(worst_mul.0 < 4.0 && worst_div.0 < 8.0);
}
