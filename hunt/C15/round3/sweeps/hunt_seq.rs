use ohsl::vector::Vector;

struct Rng(u64);
impl Rng {
    fn next(&mut self) -> u64 { let mut x = self.0; x ^= x << 13; x ^= x >> 7; x ^= x << 17; self.0 = x; x }
    fn unit(&mut self) -> f64 { (self.next() >> 11) as f64 / (1u64 << 53) as f64 }
    fn range(&mut self, n: u64) -> u64 { self.next() % n }
}
fn ulp(x: f64) -> f64 { let x = x.abs(); if x < f64::MIN_POSITIVE { 5e-324 } else { let b = x.to_bits(); f64::from_bits(b + 1) - x } }

fn gen(r: &mut Rng) -> f64 {
    let sign = if r.range(2) == 0 { 1.0 } else { -1.0 };
    let m = match r.range(7) { 0 => 0.7, 1 => 0.3, 2 => 45.24, 3 => 1.0, 4 => 1.0 + f64::EPSILON, 5 => 0.001, _ => 0.1 + r.unit() * 9.9 };
    let exs = [ -300.0, -200.0, -120.0, -40.0, -20.0, -7.0, -3.0, -1.0, 0.0, 0.0, 0.0, 1.0, 2.0, 3.0, 7.0, 16.0, 20.0, 40.0, 120.0, 200.0, 300.0 ];
    let ex = exs[r.range(exs.len() as u64) as usize];
    if r.range(15) == 0 { return 0.0; }
    sign * m * 10f64.powf(ex)
}

#[test]
fn seq_sweep() {
    let mut r = Rng(0xDEADBEEFCAFEF00D);
    let mut worst_lin = (0.0, 0.0, 0.0, 0usize); let mut worst_pow = (0.0, 0.0, 0.0, 0usize, 0.0);
    let mut bad = 0;
    for it in 0..400000 {
        let a = gen(&mut r); let mut b = gen(&mut r);
        if it % 5 == 0 { b = a + ulp(a) * (r.range(200) as f64) * if r.range(2) == 0 { 1.0 } else { -1.0 }; }
        if it % 7 == 0 { b = a; }
        let n = match r.range(6) { 0 => 2, 1 => 3, 2 => 64, 3 => 2 + r.range(400), _ => 2 + r.range(63) } as usize;
        if (b - a).abs() < 1e-290 && a != b { continue; }
        let v = Vector::<f64>::linspace(a, b, n);
        assert_eq!(v.size(), n);
        let tol = ulp(a).max(ulp(b)).max(ulp(b - a));
        if !(v[0] == a) { bad += 1; if bad < 20 { println!("LIN start {:e} != a {:e} (b {:e}, n {})", v[0], a, b, n); } }
        let e = ((v[n - 1] - b) / tol).abs();
        if e > worst_lin.0 { worst_lin = (e, a, b, n); }
        for i in 1..n {
            let ok = if a <= b { v[i - 1] <= v[i] } else { v[i - 1] >= v[i] };
            if !ok { bad += 1; if bad < 20 { println!("LIN not monotone a {:e} b {:e} n {} i {} : {:e} {:e}", a, b, n, i, v[i - 1], v[i]); } break; }
            let inside = if a <= b { a <= v[i] && v[i] <= b + 4.0 * tol } else { b - 4.0 * tol <= v[i] && v[i] <= a };
            if !inside { bad += 1; if bad < 20 { println!("LIN outside a {:e} b {:e} n {} i {} : {:e}", a, b, n, i, v[i]); } break; }
        }
        // powspace
        let p = match r.range(8) { 0 => 1.0, 1 => 2.0, 2 => 0.5, 3 => 3.0, 4 => 8.0, 5 => 0.1 + r.unit(), _ => 1.0 + 7.0 * r.unit() };
        let w = Vector::<f64>::powspace(a, b, n, p);
        assert_eq!(w.size(), n);
        if !(w[0] == a) { bad += 1; if bad < 20 { println!("POW start {:e} != a {:e} (b {:e}, n {}, p {})", w[0], a, b, n, p); } }
        let e = ((w[n - 1] - b) / tol).abs();
        if e > worst_pow.0 { worst_pow = (e, a, b, n, p); }
        for i in 1..n {
            let ok = if a <= b { w[i - 1] <= w[i] } else { w[i - 1] >= w[i] };
            if !ok { bad += 1; if bad < 20 { println!("POW not monotone a {:e} b {:e} n {} p {} i {} : {:e} {:e}", a, b, n, p, i, w[i - 1], w[i]); } break; }
        }
    }
    println!("worst lin end error {:?}", worst_lin);
    println!("worst pow end error {:?}", worst_pow);
    assert_eq!(bad, 0);
}
