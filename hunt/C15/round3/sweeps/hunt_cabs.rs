use ohsl::vector::Vector;
use ohsl::complex::Complex;

struct Rng(u64);
impl Rng {
    fn next(&mut self) -> u64 { let mut x = self.0; x ^= x << 13; x ^= x >> 7; x ^= x << 17; self.0 = x; x }
    fn unit(&mut self) -> f64 { (self.next() >> 11) as f64 / (1u64 << 53) as f64 }
    fn range(&mut self, n: u64) -> u64 { self.next() % n }
}
fn ulp(x: f64) -> f64 { let x = x.abs(); if x < f64::MIN_POSITIVE { 5e-324 } else { let b = x.to_bits(); f64::from_bits(b + 1) - x } }

fn gen(r: &mut Rng, be: f64) -> f64 {
    let sign = if r.range(2) == 0 { 1.0 } else { -1.0 };
    let m = match r.range(8) { 0 => 0.7, 1 => 0.3, 2 => 45.24, 3 => 1.0, 4 => 1.0 + f64::EPSILON, 5 => 0.001, 6 => 0.55, _ => 0.1 + r.unit() * 9.9 };
    let d = match r.range(6) { 0 => 0.0, 1 => -7.0, 2 => -40.0, 3 => -120.0, 4 => (r.unit() - 0.5) * 40.0, _ => -r.unit() * 20.0 };
    if r.range(12) == 0 { return 0.0 * sign; }
    let x = sign * m * 10f64.powf((be + d).max(-322.0).min(307.0));
    x
}

#[test]
fn cabs_sweep() {
    let mut r = Rng(0xABCDEF0123456789);
    let mut worst = (0.0, 0.0, 0.0);
    let mut cnt = 0;
    for be in (-320..=306).step_by(1) {
        for _ in 0..600 {
            let re = gen(&mut r, be as f64); let im = gen(&mut r, be as f64);
            let z = Complex::new(re, im);
            let a = z.abs();
            let h = re.hypot(im);
            if !h.is_finite() { continue; }
            cnt += 1;
            let e = ((a - h) / ulp(h)).abs();
            if e > worst.0 || !(a >= 0.0) { worst = (e, re, im); }
            assert!(a >= re.abs() * (1.0 - 1e-15) && a >= im.abs() * (1.0 - 1e-15));
            if im == 0.0 { assert_eq!(a, re.abs(), "axis {:e}", re); }
            if re == 0.0 { assert_eq!(a, im.abs(), "axis {:e}", im); }
            // vector level
            let v = Vector::create(vec![ z, Complex::new(im, re), Complex::new(-re, 0.0) ]);
            let ab = v.abs();
            assert!(ab[0].real == a && ab[0].imag == 0.0 && !ab[0].real.is_sign_negative());
            assert!(ab[2].real == re.abs());
            let ni = v.norm_inf();
            assert!(ni == a.max(Complex::new(im, re).abs()), "norm_inf {:e} {:e}", re, im);
            let n1 = v.norm_1();
            assert!(n1.imag == 0.0);
            if n1.real.is_finite() { assert!(ni <= n1.real); }
        }
    }
    println!("cases {} worst abs error {:?}", cnt, worst);
    assert!(worst.0 <= 2.0);
}
