// Interpolation exactly at the LAST node does not reproduce the stored nodal value when the
// neighbouring (last-but-one) node holds an integer-valued datum of magnitude >= 2^53.
// Every other node (first, interior) is reproduced exactly for the same data.
use ohsl::{Mesh1D, Vector};

#[test]
fn last_node_value_is_reproduced_for_wide_integer_data() {
    // increasing, non-uniform, dyadic grid with 3 nodes, 1 variable, integer-valued data
    let nodes = vec![0.0, 0.5, 2.0];
    let data = vec![3.0, -9007199254740992.0 /* -2^53, exactly representable */, 3.0];
    let mut mesh = Mesh1D::<f64, f64>::new(Vector::create(nodes.clone()), 1);
    for i in 0..3 {
        mesh[i][0] = data[i];
    }
    // storage itself is fine
    for i in 0..3 {
        assert_eq!(mesh.get_nodes_vars(i)[0], data[i]);
    }
    // first and interior node: exact
    assert_eq!(mesh.get_interpolated_vars(nodes[0])[0], data[0]);
    assert_eq!(mesh.get_interpolated_vars(nodes[1])[0], data[1]);
    // last node: the crate returns 4.0 instead of the stored 3.0
    assert_eq!(mesh.get_interpolated_vars(nodes[2])[0], data[2]);
}

#[test]
fn last_node_value_one_becomes_zero() {
    let mut mesh = Mesh1D::<f64, f64>::new(Vector::create(vec![0.0, 1.0]), 1);
    mesh[0][0] = -9007199254740992.0;
    mesh[1][0] = 1.0;
    // the crate returns 0.0 instead of the stored 1.0
    assert_eq!(mesh.get_interpolated_vars(1.0)[0], 1.0);
}
