use ohsl::{Mesh2D, Vector};
#[test]
fn powf_exact_via_square_trapezium() {
    // single cell of unit area: square_trapezium = (a^2+b^2+c^2+d^2)/4
    let mut s: u64 = 88172645463325252;
    let mut bad = 0;
    for _ in 0..2_000_000 {
        s ^= s << 13; s ^= s >> 7; s ^= s << 17;
        let a = (s % (1 << 26)) as i64 - (1 << 25);
        let mut m = Mesh2D::<f64>::new(Vector::create(vec![3.0, 5.0]), Vector::create(vec![-1.0, 1.0]), 1);
        m[(0, 0)][0] = a as f64; // others zero
        let got = m.square_trapezium(0);
        let want = (a * a) as f64;
        if got != want { bad += 1; if bad < 5 { println!("a {a} got {got} want {want}"); } }
    }
    assert_eq!(bad, 0);
}
