use ohsl::{Mesh1D, Vector};

struct Rng(u64);
impl Rng {
    fn next(&mut self) -> u64 { self.0 ^= self.0 << 13; self.0 ^= self.0 >> 7; self.0 ^= self.0 << 17; self.0 }
    fn below(&mut self, n: u64) -> u64 { self.next() % n }
    fn unit(&mut self) -> f64 { (self.next() >> 11) as f64 / (1u64 << 53) as f64 }
    fn int(&mut self, mag: i64) -> i64 { (self.below((2 * mag + 1) as u64) as i64) - mag }
}

#[test]
fn roundtrip() {
    let mut r = Rng(0xabcdef);
    let dir = std::env::temp_dir();
    let mut nfail = 0;
    for case in 0..4000u64 {
        let n = 2 + r.below(11) as usize;
        let nv = 1 + r.below(4) as usize;
        let prec = r.below(19) as usize;
        let k = [0u32, 1, 3, 7, 9][r.below(5) as usize];
        let scale = (1u64 << k) as f64;
        let mut x = match r.below(4) { 0 => 0, 1 => r.int(1 << 30), 2 => -(1i64 << 40), _ => -3 };
        let mut nodes = vec![];
        for _ in 0..n { nodes.push(x as f64 / scale); let sh = r.below(30); x += 1 + r.below(1 << sh) as i64; }
        let mut mesh = Mesh1D::<f64, f64>::new(Vector::create(nodes.clone()), nv);
        let mut d = vec![vec![0.0f64; nv]; n];
        for i in 0..n { for v in 0..nv {
            d[i][v] = match r.below(7) { 0 => 0.0, 1 => -0.0, 2 => r.int(9) as f64, 3 => r.int(1 << 52) as f64, 4 => (r.int(1000) as f64) * 1e290, 5 => -(r.below(1u64 << 63) as f64) * 1024.0, _ => r.int(1 << 20) as f64 };
            mesh[i][v] = d[i][v];
        } }
        let f = dir.join(format!("hunt_c19_{case}.txt"));
        let fs = f.to_str().unwrap();
        mesh.output(fs, prec);
        // read into meshes of various prior shapes
        let n0 = [0usize, 1, n, n + 3, 2][r.below(5) as usize];
        let nodes0: Vec<f64> = (0..n0).map(|i| i as f64 * 0.5 + 100.0).collect();
        let mut m2 = Mesh1D::<f64, f64>::new(Vector::create(nodes0), nv);
        for i in 0..n0 { for v in 0..nv { m2[i][v] = 7777.0; } }
        m2.read(fs);
        if r.below(2) == 0 { m2.read(fs); }
        std::fs::remove_file(&f).unwrap();
        if m2.nnodes() != n || m2.nvars() != nv { nfail += 1; println!("case {case} shape {} {}", m2.nnodes(), m2.nvars()); continue; }
        let tol = 0.5 * 10f64.powi(-(prec as i32));
        for i in 0..n {
            let want: f64 = format!("{:.*}", prec, nodes[i]).parse().unwrap();
            if m2.coord(i) != want || m2.nodes()[i] != want || (want - nodes[i]).abs() > tol * 1.0000001 + nodes[i].abs() * 1e-16 {
                nfail += 1; if nfail < 10 { println!("case {case} node {i} prec {prec} got {} want {} orig {}", m2.coord(i), want, nodes[i]); }
            }
            for v in 0..nv {
                let want: f64 = format!("{:.*}", prec, d[i][v]).parse().unwrap();
                let got = m2.get_nodes_vars(i)[v];
                if got != want || m2[i][v] != want || (want - d[i][v]).abs() > tol * 1.0000001 + d[i][v].abs() * 1.2e-16 {
                    nfail += 1; if nfail < 10 { println!("case {case} var {i},{v} prec {prec} got {} want {} orig {}", got, want, d[i][v]); }
                }
            }
        }
        // mesh after read must still behave: trapezium and nodal interpolation on the re-read mesh
        if prec >= 10 {
            for i in 0..n { let g = m2.get_interpolated_vars(m2.coord(i)); for v in 0..nv {
                if g[v] != m2[i][v] && m2[i][v].abs() < 1e150 { nfail += 1; if nfail < 10 { println!("case {case} reread interp node {i} got {} want {}", g[v], m2[i][v]); } }
            } }
        }
    }
    assert_eq!(nfail, 0);
}

#[test]
fn big_offsets_interp() {
    // grids far from the origin and extreme spacing ratios
    let mut r = Rng(0x5151);
    let mut nfail = 0; let mut worst = 0.0f64; let mut wd = String::new();
    for case in 0..40000u64 {
        let n = 2 + r.below(11) as usize;
        let off = [0.0, 1.0, -1.0, 1024.0, 1e6, -(2f64.powi(33)), 2f64.powi(40), 2f64.powi(43)][r.below(8) as usize];
        let mut nodes = vec![off];
        for _ in 1..n {
            let e = r.below(30) as i32 - 9; // 2^-9 .. 2^20
            let step = 2f64.powi(e) * (1 + r.below(3)) as f64;
            let nx = nodes.last().unwrap() + step;
            nodes.push(nx);
        }
        let ok = nodes.windows(2).all(|w| w[1] - w[0] >= 1e-3 && w[1] > w[0]);
        if !ok { continue; }
        let mut mesh = Mesh1D::<f64, f64>::new(Vector::create(nodes.clone()), 1);
        let mut d = vec![0i64; n];
        for i in 0..n { d[i] = r.int(1000); mesh[i][0] = d[i] as f64; }
        for i in 0..n {
            let g = mesh.get_interpolated_vars(nodes[i])[0];
            if g != d[i] as f64 { nfail += 1; if nfail < 10 { println!("case {case} nodes {nodes:?} node {i} got {g} want {}", d[i]); } }
        }
        for i in 0..n - 1 {
            let h = nodes[i + 1] - nodes[i];
            for _ in 0..4 {
                let u = match r.below(3) { 0 => r.unit(), 1 => 2e-6 / h.min(1.0) * r.unit() + 1e-6 / h, _ => 1.0 - 1e-6 / h - r.unit() * 1e-6 };
                let x = nodes[i] + h * u;
                if !(x - nodes[i] >= 1e-6 && nodes[i + 1] - x >= 1e-6) { continue; }
                // reference in f64 with exact differences (x - a) is exact-ish; use two-sided formula
                let t = (x - nodes[i]) / h;
                let want = d[i] as f64 * (1.0 - t) + d[i + 1] as f64 * t;
                let g = mesh.get_interpolated_vars(x)[0];
                let sc = (d[i].abs().max(d[i + 1].abs()).max(1)) as f64;
                let err = (g - want).abs() / (sc * f64::EPSILON);
                if err > worst { worst = err; wd = format!("case {case} nodes {nodes:?} cell {i} x {x:e} got {g} want {want}"); }
                // must lie between the neighbours
                let (lo, hi) = if d[i] < d[i + 1] { (d[i], d[i + 1]) } else { (d[i + 1], d[i]) };
                if g < lo as f64 || g > hi as f64 { nfail += 1; if nfail < 10 { println!("RANGE case {case} nodes {nodes:?} cell {i} x {x:e} got {g} l {} r {}", d[i], d[i + 1]); } }
            }
        }
    }
    println!("worst {worst} {wd}");
    assert_eq!(nfail, 0);
    assert!(worst < 8.0);
}

#[test]
fn signed_zero_note() {
    let mut mesh = Mesh1D::<f64, f64>::new(Vector::create(vec![0.0, 0.5, 2.0]), 1);
    for i in 0..3 { mesh[i][0] = -0.0; }
    for i in 0..3 { let g = mesh.get_interpolated_vars(mesh.coord(i))[0]; println!("node {i}: {:?} sign_neg {}", g, g.is_sign_negative()); }
}
