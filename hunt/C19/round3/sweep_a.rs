use ohsl::{Mesh1D, Mesh2D, Vector, Complex};

struct Rng(u64);
impl Rng {
    fn next(&mut self) -> u64 {
        self.0 ^= self.0 << 13; self.0 ^= self.0 >> 7; self.0 ^= self.0 << 17; self.0
    }
    fn below(&mut self, n: u64) -> u64 { self.next() % n }
    fn unit(&mut self) -> f64 { (self.next() >> 11) as f64 / (1u64 << 53) as f64 }
    fn int(&mut self, mag: i64) -> i64 { (self.below((2 * mag + 1) as u64) as i64) - mag }
}

// grid: integer multiples of 2^-K
fn grid(r: &mut Rng, n: usize, k: u32, style: u64) -> Vec<i64> {
    // returns node coords in units of 2^-k, increasing, spacing >= 2 units when k = 10 (2^-9 > 1e-3), else >= 1 unit
    let minstep: i64 = if k >= 10 { 2 } else { 1 };
    let mut x: i64 = match style % 4 { 0 => 0, 1 => -r.int(1 << 12).abs(), 2 => r.int(1 << 20), _ => -(1 << (k + 3)) };
    let mut v = vec![x];
    for _ in 1..n {
        let step = match r.below(5) {
            0 => minstep,
            1 => minstep + r.below(3) as i64,
            2 => 1 << r.below(14),
            3 => 1 + r.below(1 << 16) as i64,
            _ => (1i64 << k) * (1 + r.below(5) as i64),
        };
        x += step.max(minstep);
        v.push(x);
    }
    v
}

fn data(r: &mut Rng, style: u64) -> i64 {
    match style % 6 {
        0 => r.int(5),
        1 => r.int(1000),
        2 => r.int(1 << 30),
        3 => if r.below(2) == 0 { 0 } else { r.int(3) },
        4 => (1i64 << r.below(40)) * if r.below(2) == 0 { 1 } else { -1 },
        _ => r.int(1 << 20) * 3 + 1,
    }
}

#[test]
fn sweep_1d_interp_trap() {
    let mut r = Rng(0x1234_5678_9abc_def1);
    let mut worst = 0.0f64;
    let mut worst_desc = String::new();
    let mut nfail = 0;
    for case in 0..60000u64 {
        let n = 2 + r.below(11) as usize;
        let nv = 1 + r.below(4) as usize;
        let k = [0u32, 1, 3, 7, 10][r.below(5) as usize];
        let g = grid(&mut r, n, k, case);
        let scale = (1u64 << k) as f64;
        let nodes: Vec<f64> = g.iter().map(|&i| i as f64 / scale).collect();
        for w in nodes.windows(2) { assert!(w[1] - w[0] >= 1e-3); }
        let mut mesh = Mesh1D::<f64, f64>::new(Vector::create(nodes.clone()), nv);
        let ds = r.next();
        let mut d = vec![vec![0i64; nv]; n];
        for i in 0..n { for v in 0..nv { d[i][v] = data(&mut r, ds); } }
        // write through different paths
        for i in 0..n {
            if r.below(2) == 0 {
                mesh.set_nodes_vars(i, Vector::create(d[i].iter().map(|&a| a as f64).collect()));
            } else {
                for v in 0..nv { mesh[i][v] = d[i][v] as f64; }
            }
        }
        // stored
        for i in 0..n { for v in 0..nv {
            assert_eq!(mesh.get_nodes_vars(i)[v], d[i][v] as f64);
            assert_eq!(mesh[i][v], d[i][v] as f64);
        } assert_eq!(mesh.coord(i), nodes[i]); }
        // at nodes
        for i in 0..n {
            let got = mesh.get_interpolated_vars(nodes[i]);
            assert_eq!(got.size(), nv);
            for v in 0..nv {
                if got[v] != d[i][v] as f64 {
                    nfail += 1;
                    if nfail < 10 { println!("NODE FAIL case {case} nodes {:?} node {i} var {v} got {} want {} data {:?}", nodes, got[v], d[i][v], d); }
                }
            }
        }
        // midcells
        for i in 0..n - 1 {
            let xm = 0.5 * (nodes[i] + nodes[i + 1]);
            let s = g[i] + g[i + 1];
            // exact if representable
            if (xm * 2.0 * scale) != s as f64 { continue; }
            let got = mesh.get_interpolated_vars(xm);
            for v in 0..nv {
                let num = d[i][v] as i128 + d[i + 1][v] as i128; // /2
                let want = num as f64 / 2.0;
                if got[v] != want {
                    nfail += 1;
                    if nfail < 10 { println!("MID FAIL case {case} nodes {:?} cell {i} var {v} got {} want {}", nodes, got[v], want); }
                }
            }
        }
        // arbitrary interior
        for _ in 0..6 {
            let i = r.below((n - 1) as u64) as usize;
            let h = nodes[i + 1] - nodes[i];
            let u = match r.below(4) { 0 => r.unit(), 1 => r.unit() * 1e-3, 2 => 1.0 - r.unit() * 1e-3, _ => 0.5 + (r.unit() - 0.5) * 1e-9 };
            let mut x = nodes[i] + h * u;
            // make multiple of 2^-60
            let p60 = (2.0f64).powi(60);
            x = (x * p60).round() / p60;
            if !(x - nodes[i] >= 1e-6 && nodes[i + 1] - x >= 1e-6) { continue; }
            let x60 = (x * p60) as i128;
            assert_eq!(x60 as f64 / p60, x);
            let a60 = (g[i] as i128) << (60 - k);
            let b60 = (g[i + 1] as i128) << (60 - k);
            let got = mesh.get_interpolated_vars(x);
            for v in 0..nv {
                let l = d[i][v] as i128; let rr = d[i + 1][v] as i128;
                let num = l * (b60 - a60) + (rr - l) * (x60 - a60);
                let den = b60 - a60;
                let q = num.div_euclid(den); let rem = num.rem_euclid(den);
                let want = q as f64 + rem as f64 / den as f64;
                let sc = (l.abs().max(rr.abs()).max(1)) as f64;
                let err = (got[v] - want).abs() / (sc * f64::EPSILON);
                if err > worst { worst = err; worst_desc = format!("case {case} nodes {:?} cell {i} x {x:e} l {l} r {rr} got {} want {}", nodes, got[v], want); }
            }
        }
        // trapezium exact
        for v in 0..nv {
            let mut s: i128 = 0;
            let mut pmax: i128 = 0;
            for i in 0..n - 1 { s += ((g[i + 1] - g[i]) as i128) * (d[i][v] as i128 + d[i + 1][v] as i128); pmax = pmax.max(s.abs()); }
            // s / 2^(k+1)
            if pmax < (1i128 << 53) {
                let want = s as f64 / (2.0 * scale);
                let got = mesh.trapezium(v);
                if got != want {
                    nfail += 1;
                    if nfail < 10 { println!("TRAP FAIL case {case} nodes {:?} var {v} got {} want {}", nodes, got, want); }
                }
            }
        }
    }
    println!("worst interior error (ulps of max|l|,|r|): {worst}  {worst_desc}");
    assert_eq!(nfail, 0);
    assert!(worst < 4.0);
}

#[test]
fn sweep_2d() {
    let mut r = Rng(0xdead_beef_1234_5677);
    let mut nfail = 0;
    for case in 0..20000u64 {
        let nx = 2 + r.below(11) as usize;
        let ny = 2 + r.below(11) as usize;
        let nv = 1 + r.below(4) as usize;
        let k = [0u32, 1, 3, 7, 10][r.below(5) as usize];
        let gx = grid(&mut r, nx, k, case);
        let gy = grid(&mut r, ny, k, case / 4);
        let scale = (1u64 << k) as f64;
        let xs: Vec<f64> = gx.iter().map(|&i| i as f64 / scale).collect();
        let ys: Vec<f64> = gy.iter().map(|&i| i as f64 / scale).collect();
        let mut mesh = Mesh2D::<f64>::new(Vector::create(xs.clone()), Vector::create(ys.clone()), nv);
        assert_eq!(mesh.nnodes(), (nx, ny));
        let mut d = vec![vec![vec![0i64; nv]; ny]; nx];
        // initial zero
        for i in 0..nx { for j in 0..ny { for v in 0..nv { assert_eq!(mesh[(i, j)][v], 0.0); } } }
        // history of writes
        let ds = r.next();
        let nops = 1 + r.below(3 * (nx * ny) as u64);
        for _ in 0..nops {
            match r.below(12) {
                0 => { let e = data(&mut r, ds); mesh.assign(e as f64); for i in 0..nx { for j in 0..ny { for v in 0..nv { d[i][j][v] = e; } } } }
                1 => {
                    let v = r.below(nv as u64) as usize;
                    let (a, b, c) = (r.int(7), r.int(7), r.int(7));
                    // bilinear with integer coefficients scaled so results are integers: use grid units
                    let sc = scale;
                    mesh.apply(&move |x: f64, y: f64| { let xi = x * sc; let yi = y * sc; a as f64 * xi + b as f64 * yi + c as f64 * xi * yi + 1.0 }, v);
                    for i in 0..nx { for j in 0..ny {
                        let val = a as i128 * gx[i] as i128 + b as i128 * gy[j] as i128 + c as i128 * gx[i] as i128 * gy[j] as i128 + 1;
                        d[i][j][v] = val as i64;
                    } }
                }
                2..=6 => {
                    let i = r.below(nx as u64) as usize; let j = r.below(ny as u64) as usize;
                    let vals: Vec<i64> = (0..nv).map(|_| data(&mut r, ds)).collect();
                    mesh.set_nodes_vars(i, j, Vector::create(vals.iter().map(|&a| a as f64).collect()));
                    d[i][j] = vals;
                }
                _ => {
                    let i = r.below(nx as u64) as usize; let j = r.below(ny as u64) as usize; let v = r.below(nv as u64) as usize;
                    let e = data(&mut r, ds);
                    mesh[(i, j)][v] = e as f64; d[i][j][v] = e;
                }
            }
        }
        let mut check = |what: &str, got: f64, want: f64, info: String| {
            if got != want { nfail += 1; if nfail < 10 { println!("{what} FAIL case {case} nx {nx} ny {ny}: got {got} want {want} {info}"); } }
        };
        for i in 0..nx { for j in 0..ny {
            assert_eq!(mesh.coord(i, j), (xs[i], ys[j]));
            let g = mesh.get_nodes_vars(i, j);
            for v in 0..nv {
                check("get", g[v], d[i][j][v] as f64, format!("{i},{j},{v}"));
                check("idx", mesh[(i, j)][v], d[i][j][v] as f64, format!("{i},{j},{v}"));
            }
        } }
        for i in 0..nx {
            let s = mesh.cross_section_xnode(i);
            assert_eq!(s.nnodes(), ny); assert_eq!(s.nvars(), nv);
            for j in 0..ny { assert_eq!(s.coord(j), ys[j]); for v in 0..nv { check("xsec", s[j][v], d[i][j][v] as f64, format!("{i},{j},{v}")); } }
        }
        for j in 0..ny {
            let s = mesh.cross_section_ynode(j);
            assert_eq!(s.nnodes(), nx); assert_eq!(s.nvars(), nv);
            for i in 0..nx { assert_eq!(s.coord(i), xs[i]); for v in 0..nv { check("ysec", s[i][v], d[i][j][v] as f64, format!("{i},{j},{v}")); } }
        }
        for v in 0..nv {
            let m = mesh.var_as_matrix(v);
            assert_eq!((m.rows(), m.cols()), (nx, ny));
            for i in 0..nx { for j in 0..ny { check("mat", m[(i, j)], d[i][j][v] as f64, format!("{i},{j},{v}")); } }
            // trapezium
            let mut s: i128 = 0; let mut s2: i128 = 0; let mut big = false;
            for i in 0..nx - 1 { for j in 0..ny - 1 {
                let w = (gx[i + 1] - gx[i]) as i128 * (gy[j + 1] - gy[j]) as i128;
                let c = [d[i][j][v], d[i + 1][j][v], d[i][j + 1][v], d[i + 1][j + 1][v]];
                let cs: i128 = c.iter().map(|&a| a as i128).sum();
                let cs2: i128 = c.iter().map(|&a| (a as i128) * (a as i128)).sum();
                if c.iter().any(|&a| a.abs() >= (1 << 26)) { big = true; }
                s += w * cs; s2 += w * cs2;
                if (w * cs).abs() >= (1i128 << 53) || (w * cs2).abs() >= (1i128 << 53) { big = true; }
            } }
            if s.abs() < (1i128 << 53) && !big {
                check("trap2", mesh.trapezium(v), s as f64 / (4.0 * scale * scale), format!("var {v}"));
            }
            if s2.abs() < (1i128 << 53) && !big {
                check("sqtrap2", mesh.square_trapezium(v), s2 as f64 / (4.0 * scale * scale), format!("var {v}"));
            }
        }
    }
    assert_eq!(nfail, 0);
}

#[test]
fn complex_meshes_store() {
    let mut r = Rng(77);
    for _ in 0..2000 {
        let nx = 2 + r.below(11) as usize; let ny = 2 + r.below(11) as usize; let nv = 1 + r.below(4) as usize;
        let xs: Vec<f64> = (0..nx).map(|i| i as f64 * 0.37 - 1.0).collect();
        let ys: Vec<f64> = (0..ny).map(|i| (i * i) as f64 * 0.11 + 0.3).collect();
        let mut m = Mesh2D::<Complex<f64>>::new(Vector::create(xs.clone()), Vector::create(ys.clone()), nv);
        let gen = |r: &mut Rng| -> f64 { match r.below(8) { 0 => 0.0, 1 => -0.0, 2 => 1e-300, 3 => -1e300, 4 => 0.7, 5 => f64::MIN_POSITIVE / 4.0, 6 => 1.0 + f64::EPSILON, _ => r.unit() - 0.5 } };
        let mut d = vec![vec![vec![(0.0f64, 0.0f64); nv]; ny]; nx];
        for i in 0..nx { for j in 0..ny { for v in 0..nv {
            let z = (gen(&mut r), gen(&mut r)); d[i][j][v] = z; m[(i, j)][v] = Complex::new(z.0, z.1);
        } } }
        if r.below(3) == 0 {
            let v = r.below(nv as u64) as usize;
            m.apply(&|x, y| Complex::new(x * 0.3 - y, -0.0 * x + y * 1e-120), v);
            for i in 0..nx { for j in 0..ny { d[i][j][v] = (xs[i] * 0.3 - ys[j], -0.0 * xs[i] + ys[j] * 1e-120); } }
        }
        for i in 0..nx { for j in 0..ny { for v in 0..nv {
            let g = m.get_nodes_vars(i, j)[v];
            assert_eq!((g.real.to_bits(), g.imag.to_bits()), (d[i][j][v].0.to_bits(), d[i][j][v].1.to_bits()));
            let s = m.cross_section_xnode(i); let t = m.cross_section_ynode(j); let mm = m.var_as_matrix(v);
            for g in [s[j][v], t[i][v], mm[(i, j)]] {
                assert_eq!((g.real.to_bits(), g.imag.to_bits()), (d[i][j][v].0.to_bits(), d[i][j][v].1.to_bits()));
            }
        } } }
    }
}
