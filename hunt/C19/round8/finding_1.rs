// C19: Mesh2D indexing with a y index one past the end does not panic but aliases node ( i + 1, 0 ):
// a read returns another node's data and a write destroys what was stored there.
use ohsl::mesh2d::Mesh2D;
use ohsl::vector::Vector;
use std::panic::{catch_unwind, AssertUnwindSafe};

fn mesh() -> Mesh2D<f64> {
    let x = Vector::<f64>::create( vec![ 0.0, 0.5, 0.75 ] );
    let y = Vector::<f64>::create( vec![ 0.0, 0.25 ] );
    let mut m = Mesh2D::<f64>::new( x, y, 1 );
    for i in 0..3 { for j in 0..2 {
        m.set_nodes_vars( i, j, Vector::<f64>::create( vec![ ( 10 * i + j ) as f64 ] ) );
    } }
    m
}

#[test]
fn read_of_a_node_that_does_not_exist_is_refused() {
    let m = mesh();
    // node ( 0, 2 ) does not exist ( ny = 2 ); get_nodes_vars( 0, 2 ) panics, indexing must as well
    let r = catch_unwind( AssertUnwindSafe( || m[ ( 0, 2 ) ][ 0 ] ) );
    assert!( r.is_err(), "mesh[(0,2)] on a 3 x 2 mesh returned {:?} ( the value stored at node (1,0) )", r );
}

#[test]
fn write_to_a_node_that_does_not_exist_leaves_the_stored_data_alone() {
    let mut m = mesh();
    let _ = catch_unwind( AssertUnwindSafe( || { m[ ( 0, 2 ) ][ 0 ] = -777.0; } ) );
    for i in 0..3 { for j in 0..2 {
        assert_eq!( m.get_nodes_vars( i, j )[ 0 ], ( 10 * i + j ) as f64, "node ({},{}) changed", i, j );
    } }
}
