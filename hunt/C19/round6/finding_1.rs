// C19: piecewise-linear interpolation must reproduce the nodal values at the nodes.
// Integer-valued nodal data whose neighbour difference exceeds f64::MAX gives NaN at every node.
use ohsl::mesh1d::Mesh1D;
use ohsl::vector::Vector;

#[test]
fn interpolation_at_nodes_with_huge_opposite_signed_data() {
    let nodes = vec![0.0, 0.125, 1.0];            // increasing, non-uniform, dyadic
    let vals = [-1.0e308, 1.0e308, -1.0e308];     // finite, integer-valued f64
    let mut m = Mesh1D::<f64, f64>::new(Vector::create(nodes.clone()), 1);
    for i in 0..3 { m.set_nodes_vars(i, Vector::create(vec![vals[i]])); }
    for i in 0..3 {
        assert_eq!(m.get_nodes_vars(i)[0], vals[i]);                 // stored data is fine
        let got = m.get_interpolated_vars(nodes[i])[0];
        assert!(got == vals[i], "x = node {} ({}): got {:e}, stored {:e}", i, nodes[i], got, vals[i]);
    }
}
