// C19: trapezium quadrature is exact for linear (1-D) / bilinear (2-D) integrands.
// A constant integrand 2^1023 (1-D) or 2^1022 (2-D) - finite, integer-valued - over a small dyadic
// domain has a finite, exactly representable integral (every product is a power-of-two scaling),
// but the crate adds the nodal values of a cell first, overflows, and returns inf.
use ohsl::mesh1d::Mesh1D;
use ohsl::mesh2d::Mesh2D;
use ohsl::vector::Vector;

#[test]
fn trapezium_1d_constant_huge() {
    let c = 2.0f64.powi(1023);                    // 8.98e307, finite
    let mut m = Mesh1D::<f64, f64>::new(Vector::create(vec![0.0, 0.03125, 0.125]), 1);
    for i in 0..3 { m[i][0] = c; }
    let want = 2.0f64.powi(1020);                 // c * 0.125, exact
    let got = m.trapezium(0);
    assert!(got == want, "1-D: got {:e}, want {:e}", got, want);
}

#[test]
fn trapezium_2d_constant_huge() {
    let c = 2.0f64.powi(1022);                    // 4.49e307, finite
    let mut m = Mesh2D::<f64>::new(Vector::create(vec![0.0, 0.125, 0.5]), Vector::create(vec![0.0, 0.25]), 1);
    m.assign(c);
    let want = 2.0f64.powi(1019);                 // c * 0.5 * 0.25, exact
    let got = m.trapezium(0);
    assert!(got == want, "2-D: got {:e}, want {:e}", got, want);
}
