// C19 finding 1 (rounding-level, 1 ulp): piecewise-linear interpolation does not reproduce the
// stored value at the LAST node (and the exact mid-cell value) on a dyadic, non power-of-two spacing.
use ohsl::{Mesh1D, Vector};

fn mesh() -> Mesh1D<f64, f64> {
    // increasing dyadic grid, spacing 11/8; integer nodal data
    let nodes = Vector::create( vec![ 0.0, 1.375 ] );
    let mut mesh = Mesh1D::<f64, f64>::new( nodes, 1 );
    mesh[0][0] = 0.0;
    mesh[1][0] = 15.0;
    mesh
}

#[test]
fn last_node_value_is_reproduced() {
    let mesh = mesh();
    // first node is fine
    assert_eq!( mesh.get_interpolated_vars( 0.0 )[0], 0.0 );
    // last node: stored 15, crate returns 14.999999999999998
    assert_eq!( mesh.get_interpolated_vars( 1.375 )[0], 15.0 );
}

#[test]
fn interior_node_exact_but_same_node_as_last_is_not() {
    // the same cell [0, 1.375] with data (0, 15): exact when a further cell follows ...
    let mut three = Mesh1D::<f64, f64>::new( Vector::create( vec![ 0.0, 1.375, 2.0 ] ), 1 );
    three[1][0] = 15.0;
    assert_eq!( three.get_interpolated_vars( 1.375 )[0], 15.0 );
    // ... and must be just as exact when it is the last node of the grid
    let two = mesh();
    assert_eq!( two.get_interpolated_vars( 1.375 )[0], three.get_interpolated_vars( 1.375 )[0] );
}
