// C18 finding 2: Matrix::<Cmplx>::jacobian_cmplx does not restore a perturbed coordinate exactly.
// `state[i] += Cmplx::new(delta, 0.0); ...; state[i] -= Cmplx::new(delta, 0.0)` leaves
//   real part: fl(fl(x+delta)-delta) != x when x+delta is not representable,
//   imaginary part: -0.0 + 0.0 - 0.0 = +0.0, so a coordinate on the lower side of the real axis
//   comes back on the upper side.
// All later columns are evaluated at the shifted point.
use ohsl::vector::Vector;
use ohsl::matrix::Matrix;
use ohsl::complex::Cmplx;
use std::cell::RefCell;

fn bits( z: &Cmplx ) -> ( u64, u64 ) { ( z.real.to_bits(), z.imag.to_bits() ) }

#[test]
fn call_points_are_the_original_point_with_one_coordinate_perturbed() {
    let delta = 0.0625; // 2^-4
    let x = vec![ Cmplx::new( (2.0f64).powi(-60), 0.5 ), Cmplx::new( 1.0, -0.25 ) ];
    let calls: RefCell<Vec<Vec<Cmplx>>> = RefCell::new( vec![] );
    let f = |p: Vector<Cmplx>| -> Vector<Cmplx> {
        calls.borrow_mut().push( vec![ p[0], p[1] ] );
        Vector::<Cmplx>::create( vec![ p[0] + p[1] ] )
    };
    let jac = Matrix::<Cmplx>::jacobian_cmplx( Vector::<Cmplx>::create( x.clone() ), &f, delta );
    assert_eq!( ( jac.rows(), jac.cols() ), ( 1, 2 ) );
    let calls = calls.borrow();
    assert_eq!( calls.len(), 3 );
    // third call: coordinate 0 must be the original one, bit for bit
    // crate: ( 0.0, 0.5 ) instead of ( 2^-60, 0.5 )
    assert_eq!( bits( &calls[2][0] ), bits( &x[0] ), "coordinate 0 came back as {:?}", calls[2][0] );
    assert_eq!( bits( &calls[2][1] ), bits( &Cmplx::new( 1.0 + delta, -0.25 ) ) );
}

/// Affine, dyadic, every step of the definition exact: f(z) = (z0 - 4) + z1 at z = (4 - 2^-51, 0),
/// delta = 2^-26; J(0,1) = 1 exactly.
#[test]
fn affine_map_unit_entries_exact() {
    let delta = (2.0f64).powi(-26);
    let x = vec![ Cmplx::new( 4.0 - (2.0f64).powi(-51), 0.0 ), Cmplx::new( 0.0, 0.0 ) ];
    let f = |p: Vector<Cmplx>| -> Vector<Cmplx> {
        Vector::<Cmplx>::create( vec![ ( p[0] - Cmplx::new( 4.0, 0.0 ) ) + p[1] ] )
    };
    let jac = Matrix::<Cmplx>::jacobian_cmplx( Vector::<Cmplx>::create( x ), &f, delta );
    // crate: ( 1.0000000298023224, 0.0 )
    assert_eq!( jac[(0,1)], Cmplx::new( 1.0, 0.0 ), "J(0,1) = {:?}", jac[(0,1)] );
}

/// f(z) = sqrt(z0) + z1 at z0 = -1 - 0i (lower side of the cut), z1 = 0: df/dz1 = 1.
/// f(z) = -i, f(z + delta e1) = -i + delta, quotient 1.
#[test]
fn signed_zero_imaginary_part_is_restored() {
    let delta = 0.0625;
    let x = vec![ Cmplx::new( -1.0, -0.0 ), Cmplx::new( 0.0, 0.0 ) ];
    let f = |p: Vector<Cmplx>| -> Vector<Cmplx> { Vector::<Cmplx>::create( vec![ p[0].sqrt() + p[1] ] ) };
    let jac = Matrix::<Cmplx>::jacobian_cmplx( Vector::<Cmplx>::create( x ), &f, delta );
    // crate: ( 1, 32 ) = 1 + 2i/delta: column 1 was evaluated at z0 = -1 + 0i where sqrt = +i
    let e = jac[(0,1)] - Cmplx::new( 1.0, 0.0 );
    assert!( e.abs() < 1.0e-10, "J(0,1) = {:?}", jac[(0,1)] );
}
