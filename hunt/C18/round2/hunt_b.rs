use ohsl::{Vec64, Mat64, Matrix, Vector, Cmplx};
use std::cell::RefCell;

#[test]
fn degenerate_shapes() {
    // n = 0
    let f = |_p: Vec64| -> Vec64 { Vec64::create(vec![1.0, 2.0, 3.0]) };
    let j = Mat64::jacobian(Vec64::empty(), &f, 1e-8);
    assert_eq!((j.rows(), j.cols()), (3, 0));
    // m = 0
    let g = |_p: Vec64| -> Vec64 { Vec64::empty() };
    let j = Mat64::jacobian(Vec64::create(vec![1.0, 2.0]), &g, 1e-8);
    assert_eq!((j.rows(), j.cols()), (0, 2));
    let gc = |_p: Vector<Cmplx>| -> Vector<Cmplx> { Vector::empty() };
    let j = Matrix::<Cmplx>::jacobian_cmplx(Vector::create(vec![Cmplx::new(1.0, 0.0)]), &gc, 1e-8);
    assert_eq!((j.rows(), j.cols()), (0, 1));
    let j = Matrix::<Cmplx>::jacobian_cmplx(Vector::empty(), &gc, 1e-8);
    assert_eq!((j.rows(), j.cols()), (0, 0));
}

#[test]
fn nonlinear_real() {
    // f: R^3 -> R^5 and R^5 -> R^2 style maps, analytic derivative, bound 0.5*H*delta + 4 eps F / delta
    let deltas: Vec<f64> = (4..=26).map(|k| 2f64.powi(-k)).chain(std::iter::once(1e-8)).collect();
    let f = |p: Vec64| -> Vec64 { Vec64::create(vec![
        p[0].sin()*p[1], (p[0]-p[2]).exp(), p[0]*p[0]*p[1]*p[1]*p[1], p[2].cos(), p[0]+2.0*p[1]-p[2] ]) };
    let d = |p: &[f64]| -> Vec<Vec<f64>> { vec![
        vec![p[0].cos()*p[1], p[0].sin(), 0.0],
        vec![(p[0]-p[2]).exp(), 0.0, -(p[0]-p[2]).exp()],
        vec![2.0*p[0]*p[1].powi(3), 3.0*p[0]*p[0]*p[1]*p[1], 0.0],
        vec![0.0, 0.0, -p[2].sin()],
        vec![1.0, 2.0, -1.0] ] };
    let mut s = 12345u64;
    for _ in 0..200 {
        let mut x = [0.0;3];
        for v in x.iter_mut() { s = s.wrapping_mul(6364136223846793005).wrapping_add(1442695040888963407); *v = ((s>>11) as f64 / (1u64<<53) as f64)*8.0-4.0; }
        let dd = d(&x);
        for &delta in &deltas {
            let j = Mat64::jacobian(Vec64::create(x.to_vec()), &f, delta);
            assert_eq!((j.rows(), j.cols()), (5,3));
            for i in 0..5 { for c in 0..3 {
                // second derivatives bounded by ~ e^8.1*... use generous constants: H <= 4000, F <= 4000
                let bound = 0.5*4000.0*delta + 4.0*f64::EPSILON*4000.0/delta;
                assert!((j[(i,c)]-dd[i][c]).abs() <= bound, "x {:?} delta {:e} ({},{}) got {} want {}", x, delta, i, c, j[(i,c)], dd[i][c]);
            }}
        }
    }
}

#[test]
fn nonlinear_cmplx_crate_functions() {
    // holomorphic maps built from the crate's own Cmplx functions, away from branch cuts
    let deltas: Vec<f64> = (4..=26).map(|k| 2f64.powi(-k)).chain(std::iter::once(1e-8)).collect();
    let f = |p: Vector<Cmplx>| -> Vector<Cmplx> { Vector::create(vec![ p[0]*p[1], p[0].exp(), p[1]*p[1]*p[1] ]) };
    let mut s = 999u64;
    let mut rnd = || { s = s.wrapping_mul(6364136223846793005).wrapping_add(1442695040888963407); ((s>>11) as f64 / (1u64<<53) as f64)*8.0-4.0 };
    for _ in 0..200 {
        let z0 = Cmplx::new(rnd(), rnd()); let z1 = Cmplx::new(rnd(), rnd());
        let want = [[z1, z0],[z0.exp(), Cmplx::new(0.0,0.0)],[Cmplx::new(0.0,0.0), z1*z1*3.0]];
        for &delta in &deltas {
            let j = Matrix::<Cmplx>::jacobian_cmplx(Vector::create(vec![z0,z1]), &f, delta);
            assert_eq!((j.rows(), j.cols()), (3,2));
            for i in 0..3 { for c in 0..2 {
                let e = (j[(i,c)] - want[i][c]).abs();
                let bound = 0.5*400.0*delta + 8.0*f64::EPSILON*400.0/delta;
                assert!(e <= bound, "delta {:e} ({},{}) err {:e} bound {:e}", delta, i, c, e, bound);
            }}
        }
    }
}

#[test]
fn cmplx_signed_zero_imag() {
    let log: RefCell<Vec<(u64,u64)>> = RefCell::new(vec![]);
    let f = |p: Vector<Cmplx>| -> Vector<Cmplx> { log.borrow_mut().push((p[0].real.to_bits(), p[0].imag.to_bits())); Vector::create(vec![p[0].ln()]) };
    let delta = 2f64.powi(-10);
    let j = Matrix::<Cmplx>::jacobian_cmplx(Vector::create(vec![Cmplx::new(-1.0, -0.0)]), &f, delta);
    println!("J = {:?}  (analytic 1/z = -1)", j[(0,0)]);
    println!("calls {:x?}", log.borrow());
}
