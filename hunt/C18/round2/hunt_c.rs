use ohsl::{Vec64, Mat64, Matrix, Vector, Cmplx};

struct Rng(u64);
impl Rng {
    fn next(&mut self) -> u64 { self.0 ^= self.0 << 13; self.0 ^= self.0 >> 7; self.0 ^= self.0 << 17; self.0 }
    fn range(&mut self, lo: i64, hi: i64) -> i64 { lo + (self.next() % ((hi - lo + 1) as u64)) as i64 }
}

#[test]
fn crate_ops_closure_real() {
    let mut r = Rng(31337);
    for m in 1..=9usize { for n in 1..=9usize { for k in 4..=26 {
        let delta = 2f64.powi(-k);
        let mut mm = Mat64::new(m, n, 0.0);
        for i in 0..m { for j in 0..n { mm[(i,j)] = r.range(-64,64) as f64 / 8.0; } }
        let c = Vec64::create((0..m).map(|_| r.range(-64,64) as f64 / 8.0).collect());
        let x = Vec64::create((0..n).map(|_| r.range(-4096,4096) as f64 / 1024.0).collect());
        let f1 = |p: Vec64| -> Vec64 { &mm * &p + &c };
        let f2 = |p: Vec64| -> Vec64 { mm.clone() * p + c.clone() };
        let f3 = |p: Vec64| -> Vec64 { let mut t = mm.multiply(&p); t += c.clone(); t };
        for f in [&f1 as &dyn Fn(Vec64)->Vec64, &f2, &f3] {
            let j = Mat64::jacobian(x.clone(), f, delta);
            assert!(j == mm, "m{} n{} k{}", m, n, k);
            // transposed Jacobian through another accessor
            let jt = j.transpose();
            assert_eq!((jt.rows(), jt.cols()), (n, m));
            for i in 0..m { for q in 0..n { assert!(jt[(q,i)] == mm[(i,q)]); } }
            let mut j2 = j.clone(); j2.transpose_in_place();
            assert!(j2 == jt);
        }
    }}}
}

#[test]
fn crate_ops_closure_cmplx() {
    let mut r = Rng(271828);
    for m in 1..=7usize { for n in 1..=7usize { for k in 4..=26 {
        let delta = 2f64.powi(-k);
        let mut mm = Matrix::<Cmplx>::new(m, n, Cmplx::new(0.0,0.0));
        for i in 0..m { for j in 0..n { mm[(i,j)] = Cmplx::new(r.range(-32,32) as f64 / 8.0, r.range(-32,32) as f64 / 8.0); } }
        let c = Vector::<Cmplx>::create((0..m).map(|_| Cmplx::new(r.range(-64,64) as f64 / 8.0, r.range(-64,64) as f64 / 8.0)).collect());
        let x = Vector::<Cmplx>::create((0..n).map(|_| Cmplx::new(r.range(-4096,4096) as f64 / 1024.0, r.range(-4096,4096) as f64 / 1024.0)).collect());
        let f1 = |p: Vector<Cmplx>| -> Vector<Cmplx> { &mm * &p + &c };
        let j = Matrix::<Cmplx>::jacobian_cmplx(x.clone(), &f1, delta);
        assert!(j == mm, "m{} n{} k{}", m, n, k);
    }}}
}

// Newton entry point: one Newton step on an affine system Mx + c = 0 with dyadic data must land on the solution
#[test]
fn newton_affine_one_step() {
    use ohsl::Newton;
    let f = |p: Vec64| -> Vec64 { Vec64::create(vec![2.0*p[0] + p[1] - 3.0, p[0] - 4.0*p[1] + 3.0]) };
    for k in 4..=26 {
        let mut nw = Newton::<Vec64>::new(Vec64::create(vec![0.5, -2.0]));
        nw.delta(2f64.powi(-k));
        let s = nw.solve(&f).unwrap();
        assert!(s[0] == 1.0 && s[1] == 1.0, "k {} {:?}", k, s);
    }
}
