use ohsl::{Vec64, Mat64, Matrix, Vector, Cmplx};
use std::cell::RefCell;

struct Rng(u64);
impl Rng {
    fn next(&mut self) -> u64 { self.0 ^= self.0 << 13; self.0 ^= self.0 >> 7; self.0 ^= self.0 << 17; self.0 }
    fn range(&mut self, lo: i64, hi: i64) -> i64 { lo + (self.next() % ((hi - lo + 1) as u64)) as i64 }
}

fn dy(r: &mut Rng, lo: i64, hi: i64, den: f64) -> f64 { r.range(lo, hi) as f64 / den }

#[test]
fn real_affine_dyadic_exact() {
    let mut r = Rng(0x1234_5678_9abc_def1);
    let mut count = 0;
    for m in 1..=8usize { for n in 1..=8usize { for k in 4..=26i32 { for rep in 0..3 {
        let delta = 2f64.powi(-k);
        let mm: Vec<Vec<f64>> = (0..m).map(|_| (0..n).map(|_| dy(&mut r, -64, 64, 8.0)).collect()).collect();
        let c: Vec<f64> = (0..m).map(|_| dy(&mut r, -64, 64, 8.0)).collect();
        let mut x: Vec<f64> = (0..n).map(|_| dy(&mut r, -4096, 4096, 1024.0)).collect();
        if rep == 1 { for v in x.iter_mut() { *v = 4.0; } }
        if rep == 2 { for (i,v) in x.iter_mut().enumerate() { *v = if i%3==0 { -4.0 } else if i%3==1 { -0.0 } else { 0.0 }; } }
        let log: RefCell<Vec<Vec<f64>>> = RefCell::new(vec![]);
        let f = |p: Vec64| -> Vec64 {
            log.borrow_mut().push(p.vec.clone());
            let mut out = Vec64::new(m, 0.0);
            for i in 0..m { let mut s = c[i]; for j in 0..n { s += mm[i][j] * p[j]; } out[i] = s; }
            out
        };
        let jac = Mat64::jacobian(Vec64::create(x.clone()), &f, delta);
        assert_eq!(jac.rows(), m); assert_eq!(jac.cols(), n); assert_eq!(jac.numel(), m*n);
        for i in 0..m { for j in 0..n {
            assert!(jac[(i,j)] == mm[i][j], "m{} n{} k{} ({},{}) got {:e} want {:e}", m,n,k,i,j,jac[(i,j)],mm[i][j]);
            assert!(jac.get_row(i)[j] == mm[i][j]); assert!(jac.get_col(j)[i] == mm[i][j]);
        }}
        let lg = log.borrow();
        assert_eq!(lg.len(), n+1);
        for (a,b) in lg[0].iter().zip(x.iter()) { assert_eq!(a.to_bits(), b.to_bits()); }
        for j in 0..n { for t in 0..n {
            let want = if t==j { x[t] + delta } else { x[t] };
            assert_eq!(lg[j+1][t].to_bits(), want.to_bits(), "call {} coord {}", j+1, t);
        }}
        count += 1;
    }}}}
    println!("real affine cases {}", count);
}

#[test]
fn real_affine_big_shapes() {
    let mut r = Rng(77);
    for &(m,n) in &[(1usize,70usize),(70,1),(70,70),(7,33),(33,7),(1,300),(300,1),(2,1),(1,2),(64,65)] {
        for &k in &[4,13,26] {
            let delta = 2f64.powi(-k);
            let mm: Vec<Vec<f64>> = (0..m).map(|_| (0..n).map(|_| dy(&mut r, -8, 8, 2.0)).collect()).collect();
            let x: Vec<f64> = (0..n).map(|_| dy(&mut r, -4096, 4096, 1024.0)).collect();
            let f = |p: Vec64| -> Vec64 {
                let mut out = Vec64::new(m, 0.0);
                for i in 0..m { let mut s = 0.0; for j in 0..n { s += mm[i][j] * p[j]; } out[i] = s; }
                out
            };
            let jac = Mat64::jacobian(Vec64::create(x.clone()), &f, delta);
            assert_eq!((jac.rows(), jac.cols()), (m,n));
            for i in 0..m { for j in 0..n { assert!(jac[(i,j)] == mm[i][j], "{} {} {} {} {}",m,n,k,i,j); }}
        }
    }
}

fn cmul(a:(f64,f64), b:(f64,f64)) -> (f64,f64) { (a.0*b.0 - a.1*b.1, a.0*b.1 + a.1*b.0) }

#[test]
fn cmplx_affine_dyadic_exact() {
    let mut r = Rng(0xdead_beef_1234);
    for m in 1..=7usize { for n in 1..=7usize { for k in 4..=26i32 { for rep in 0..2 {
        let delta = 2f64.powi(-k);
        let mm: Vec<Vec<(f64,f64)>> = (0..m).map(|_| (0..n).map(|_| {
            let t = r.range(0,3);
            let a = dy(&mut r, -32, 32, 8.0); let b = dy(&mut r, -32, 32, 8.0);
            match t { 0 => (a,0.0), 1 => (0.0,b), _ => (a,b) } }).collect()).collect();
        let c: Vec<(f64,f64)> = (0..m).map(|_| (dy(&mut r, -32, 32, 8.0), dy(&mut r, -32, 32, 8.0))).collect();
        let x: Vec<(f64,f64)> = (0..n).map(|i| if rep==1 && i%2==0 { (4.0,-4.0) } else if rep==1 { (-4.0, 0.0) } else { (dy(&mut r, -4096, 4096, 1024.0), dy(&mut r, -4096, 4096, 1024.0)) }).collect();
        let log: RefCell<Vec<Vec<(f64,f64)>>> = RefCell::new(vec![]);
        let f = |p: Vector<Cmplx>| -> Vector<Cmplx> {
            log.borrow_mut().push(p.vec.iter().map(|z| (z.real, z.imag)).collect());
            let mut out = Vector::<Cmplx>::new(m, Cmplx::new(0.0,0.0));
            for i in 0..m { let mut s = c[i]; for j in 0..n { let t = cmul(mm[i][j], (p[j].real,p[j].imag)); s.0 += t.0; s.1 += t.1; } out[i] = Cmplx::new(s.0,s.1); }
            out
        };
        let pt = Vector::<Cmplx>::create(x.iter().map(|z| Cmplx::new(z.0,z.1)).collect());
        let jac = Matrix::<Cmplx>::jacobian_cmplx(pt, &f, delta);
        assert_eq!((jac.rows(), jac.cols()), (m,n));
        for i in 0..m { for j in 0..n {
            let g = jac[(i,j)];
            assert!(g.real == mm[i][j].0 && g.imag == mm[i][j].1, "m{} n{} k{} ({},{}) got {:?} want {:?}", m,n,k,i,j,g,mm[i][j]);
        }}
        let lg = log.borrow();
        assert_eq!(lg.len(), n+1);
        for t in 0..n { assert_eq!(lg[0][t].0.to_bits(), x[t].0.to_bits()); assert_eq!(lg[0][t].1.to_bits(), x[t].1.to_bits()); }
        for j in 0..n { for t in 0..n {
            let want = if t==j { (x[t].0 + delta, x[t].1) } else { x[t] };
            assert_eq!(lg[j+1][t].0.to_bits(), want.0.to_bits());
            assert!(lg[j+1][t].1 == want.1);
            if t != j { assert_eq!(lg[j+1][t].1.to_bits(), want.1.to_bits()); }
        }}
    }}}}
}

// non-dyadic data, delta = 1e-8 and 2^-k: entries must be the difference quotients computed independently
#[test]
fn real_quotient_reference() {
    let mut r = Rng(4242);
    let deltas: Vec<f64> = (4..=26).map(|k| 2f64.powi(-k)).chain(std::iter::once(1e-8)).collect();
    for m in 1..=6usize { for n in 1..=6usize { for &delta in &deltas {
        let mm: Vec<Vec<f64>> = (0..m).map(|_| (0..n).map(|_| (r.range(-1000,1000) as f64)/300.0).collect()).collect();
        let c: Vec<f64> = (0..m).map(|_| (r.range(-1000,1000) as f64)/7.0).collect();
        let x: Vec<f64> = (0..n).map(|_| (r.range(-4000,4000) as f64)/1000.0).collect();
        let fr = |p: &Vec<f64>| -> Vec<f64> { (0..m).map(|i| { let mut s = c[i]; for j in 0..n { s += mm[i][j]*p[j]; } s + (p[0]*p[n-1]).sin() }).collect() };
        let f = |p: Vec64| -> Vec64 { Vec64::create(fr(&p.vec)) };
        let jac = Mat64::jacobian(Vec64::create(x.clone()), &f, delta);
        let f0 = fr(&x);
        for j in 0..n {
            let mut xp = x.clone(); xp[j] = x[j] + delta;
            let f1 = fr(&xp);
            for i in 0..m {
                let want = (f1[i]-f0[i])/delta;
                assert_eq!(jac[(i,j)].to_bits(), want.to_bits());
            }
        }
    }}}
}

#[test]
fn cmplx_quotient_reference() {
    let mut r = Rng(424242);
    let deltas: Vec<f64> = (4..=26).map(|k| 2f64.powi(-k)).chain(std::iter::once(1e-8)).collect();
    let mut worst = 0.0f64;
    for m in 1..=6usize { for n in 1..=6usize { for &delta in &deltas {
        let mm: Vec<Vec<(f64,f64)>> = (0..m).map(|_| (0..n).map(|_| ((r.range(-1000,1000) as f64)/300.0,(r.range(-1000,1000) as f64)/300.0)).collect()).collect();
        let x: Vec<(f64,f64)> = (0..n).map(|_| ((r.range(-4000,4000) as f64)/1000.0,(r.range(-4000,4000) as f64)/1000.0)).collect();
        let fr = |p: &Vec<(f64,f64)>| -> Vec<(f64,f64)> { (0..m).map(|i| { let mut s = (0.0,0.0); for j in 0..n { let t = cmul(mm[i][j],p[j]); s.0+=t.0; s.1+=t.1; } let q = cmul(p[0],p[n-1]); (s.0+q.0, s.1+q.1) }).collect() };
        let f = |p: Vector<Cmplx>| -> Vector<Cmplx> { Vector::create(fr(&p.vec.iter().map(|z|(z.real,z.imag)).collect()).iter().map(|z| Cmplx::new(z.0,z.1)).collect()) };
        let jac = Matrix::<Cmplx>::jacobian_cmplx(Vector::create(x.iter().map(|z| Cmplx::new(z.0,z.1)).collect()), &f, delta);
        let f0 = fr(&x);
        for j in 0..n {
            let mut xp = x.clone(); xp[j].0 = x[j].0 + delta;
            let f1 = fr(&xp);
            for i in 0..m {
                let want = ((f1[i].0-f0[i].0)/delta, (f1[i].1-f0[i].1)/delta);
                let g = jac[(i,j)];
                for (a,b) in [(g.real,want.0),(g.imag,want.1)] {
                    let rel = if b == 0.0 { a.abs() } else { ((a-b)/b).abs() };
                    worst = worst.max(rel);
                    assert!(rel <= 4.0*f64::EPSILON, "delta {:e} got {:e} want {:e}", delta, a, b);
                }
            }
        }
    }}}
    println!("worst rel {:e}", worst);
}
