// C18 finding 1: Matrix::<Cmplx>::jacobian_cmplx perturbs coordinate j with
//     state[j] += Cmplx::new( delta, 0.0 )
// which also adds +0.0 to the IMAGINARY part. IEEE gives (-0.0) + (+0.0) = +0.0, so for a coordinate
// x - 0i the closure is called at (x + delta) + 0i instead of (x + delta) - 0i: the perturbation is not
// confined to the real part of coordinate j. For a map that is smooth along the lower edge of a branch cut
// (the crate's own Cmplx::ln / sqrt / powf follow the signed-zero convention via atan2) the perturbed point
// lands on the other side of the cut and the "difference quotient" is off by 2*pi*i/delta instead of O(delta).
use ohsl::{Matrix, Vector, Cmplx};
use std::cell::RefCell;

fn deltas() -> Vec<f64> {
    (4..=26).map(|k| 2f64.powi(-k)).chain(std::iter::once(1.0e-8)).collect()
}

#[test]
fn perturbed_point_differs_from_base_point_only_in_the_real_part_of_coordinate_j() {
    for delta in deltas() {
        let calls: RefCell<Vec<Vec<(u64, u64)>>> = RefCell::new(vec![]);
        // affine map z -> (2 z0 + z1, z0 - z1, 3 z1): 3 x 2
        let f = |p: Vector<Cmplx>| -> Vector<Cmplx> {
            calls.borrow_mut().push(p.vec.iter().map(|z| (z.real.to_bits(), z.imag.to_bits())).collect());
            Vector::create(vec![p[0] * 2.0 + p[1], p[0] - p[1], p[1] * 3.0])
        };
        let x = vec![Cmplx::new(-1.0, -0.0), Cmplx::new(2.5, -0.0)];
        let jac = Matrix::<Cmplx>::jacobian_cmplx(Vector::create(x.clone()), &f, delta);
        assert_eq!((jac.rows(), jac.cols()), (3, 2));
        let calls = calls.borrow();
        assert_eq!(calls.len(), 3);
        for j in 0..2 {
            for t in 0..2 {
                let want_re = if t == j { x[t].real + delta } else { x[t].real };
                assert_eq!(calls[j + 1][t].0, want_re.to_bits(), "real part, call {} coordinate {}", j + 1, t);
                // the imaginary part of every coordinate, perturbed or not, must be untouched
                assert_eq!(calls[j + 1][t].1, x[t].imag.to_bits(),
                    "delta {:e}: imaginary part of coordinate {} changed in call {} (got bits {:#x}, want {:#x})",
                    delta, t, j + 1, calls[j + 1][t].1, x[t].imag.to_bits());
            }
        }
    }
}

#[test]
fn jacobian_of_ln_on_the_lower_edge_of_the_cut_is_within_o_delta_of_one_over_z() {
    // f(z) = ln z, f'(z) = 1/z. At z = -1 - 0i the crate's ln returns 0 - i*pi (arg = atan2(-0.0, -1) = -pi)
    // and along the real direction z -> (x - 0i) the map x -> ln|x| - i*pi is smooth with derivative 1/x.
    let f = |p: Vector<Cmplx>| -> Vector<Cmplx> { Vector::create(vec![p[0].ln()]) };
    for delta in deltas() {
        let jac = Matrix::<Cmplx>::jacobian_cmplx(Vector::create(vec![Cmplx::new(-1.0, -0.0)]), &f, delta);
        assert_eq!((jac.rows(), jac.cols()), (1, 1));
        let got = jac[(0, 0)];
        // |f''| = 1/|z|^2 <= 1.2 on the segment: truncation <= 0.6 delta, rounding <= 8 eps |f| / delta
        let bound = delta + 8.0 * f64::EPSILON * 4.0 / delta;
        assert!((got.real + 1.0).abs() <= bound && got.imag.abs() <= bound,
            "delta {:e}: d ln z / dz at -1-0i = {:?}, want -1 + 0i within {:e}", delta, got, bound);
    }
}
