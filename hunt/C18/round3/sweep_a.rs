use ohsl::{Vec64, Mat64, Vector, Matrix, Cmplx};
use std::cell::RefCell;

struct Rng(u64);
impl Rng {
    fn next(&mut self) -> u64 { let mut x = self.0; x ^= x << 13; x ^= x >> 7; x ^= x << 17; self.0 = x; x }
    fn uni(&mut self) -> f64 { (self.next() >> 11) as f64 / (1u64 << 53) as f64 }
    fn range(&mut self, n: usize) -> usize { (self.next() % n as u64) as usize }
    fn sym(&mut self, a: f64) -> f64 { (2.0 * self.uni() - 1.0) * a }
}

fn deltas() -> Vec<f64> {
    let mut d: Vec<f64> = (4..=26).map(|k| 2f64.powi(-k)).collect();
    d.push(1e-8);
    d
}

fn special(r: &mut Rng) -> f64 {
    let s = if r.range(2) == 0 { 1.0 } else { -1.0 };
    let v = match r.range(16) {
        0 => 0.0,
        1 => 1.0,
        2 => 4.0,
        3 => 1e-7,
        4 => 1e-40,
        5 => 1e-120,
        6 => 1e-300,
        7 => f64::from_bits(1.0f64.to_bits() + 1),
        8 => f64::from_bits(1.0f64.to_bits() - 1),
        9 => f64::from_bits(4.0f64.to_bits() - 1),
        10 => 5e-324,
        11 => 0.5,
        12 => 1e-8,
        13 => 2f64.powi(-26),
        14 => 3.999999,
        _ => r.uni() * 4.0,
    };
    s * v
}

fn point(r: &mut Rng, n: usize) -> Vec<f64> {
    (0..n).map(|_| if r.range(3) == 0 { special(r) } else { r.sym(4.0) }).collect()
}

fn ulps(a: f64, b: f64) -> u64 {
    if a == b { return 0; }
    if a.is_nan() || b.is_nan() { return u64::MAX; }
    let f = |x: f64| { let b = x.to_bits() as i64; if b < 0 { i64::MIN.wrapping_sub(b) } else { b } };
    (f(a) as i128 - f(b) as i128).unsigned_abs() as u64
}

// a family of real maps parametrised by coefficient matrix etc.
fn real_map(kind: usize, m: usize, coef: &Vec<Vec<f64>>, c: &Vec<f64>, x: &[f64]) -> Vec<f64> {
    let n = x.len();
    (0..m).map(|i| {
        let mut s = c[i];
        for j in 0..n {
            let t = match kind {
                0 => coef[i][j] * x[j],
                1 => coef[i][j] * x[j] * x[(j + 1) % n],
                2 => coef[i][j] * (x[j]).sin(),
                3 => coef[i][j] * (x[j] * 0.25).exp(),
                4 => coef[i][j] * x[j] * x[j] * x[j],
                _ => coef[i][j] / (1.0 + x[j] * x[j]),
            };
            s += t;
        }
        s
    }).collect()
}

#[test]
fn real_bitwise_against_independent_quotients() {
    let mut r = Rng(0x9E3779B97F4A7C15);
    let ds = deltas();
    let mut cases = 0usize;
    for it in 0..60000 {
        let (m, n) = if it % 50 == 0 { (1 + r.range(70), 1 + r.range(70)) } else { (1 + r.range(6), 1 + r.range(6)) };
        let kind = r.range(6);
        let scale = match r.range(6) { 0 => 1e-7, 1 => 1e7, 2 => 1e-40, 3 => 1e40, 4 => 1e120, _ => 1.0 };
        let coef: Vec<Vec<f64>> = (0..m).map(|_| (0..n).map(|_| if r.range(5) == 0 { special(&mut r) * scale } else { r.sym(3.0) * scale }).collect()).collect();
        let c: Vec<f64> = (0..m).map(|_| if r.range(3) == 0 { 0.0 } else { r.sym(5.0) * scale }).collect();
        let x = point(&mut r, n);
        let delta = ds[r.range(ds.len())];
        let calls: RefCell<Vec<Vec<u64>>> = RefCell::new(vec![]);
        let f = |v: Vec64| -> Vec64 {
            calls.borrow_mut().push(v.vec.iter().map(|t| t.to_bits()).collect());
            Vec64::create(real_map(kind, m, &coef, &c, &v.vec))
        };
        let jac = Mat64::jacobian(Vec64::create(x.clone()), &f, delta);
        assert_eq!(jac.rows(), m, "rows m={} n={}", m, n);
        assert_eq!(jac.cols(), n, "cols m={} n={}", m, n);
        // call sequence
        let cs = calls.borrow();
        assert_eq!(cs.len(), n + 1);
        assert_eq!(cs[0], x.iter().map(|t| t.to_bits()).collect::<Vec<_>>());
        let f0 = real_map(kind, m, &coef, &c, &x);
        for j in 0..n {
            let mut xp = x.clone();
            xp[j] = x[j] + delta;
            assert_eq!(cs[j + 1], xp.iter().map(|t| t.to_bits()).collect::<Vec<_>>(), "call {} x={:?} delta={}", j, x, delta);
            let f1 = real_map(kind, m, &coef, &c, &xp);
            for i in 0..m {
                let q = (f1[i] - f0[i]) / delta;
                let g = jac[(i, j)];
                assert!(q.to_bits() == g.to_bits() || (q.is_nan() && g.is_nan()),
                    "entry ({},{}) m={} n={} kind={} delta={} x={:?} got {:e} want {:e}", i, j, m, n, kind, delta, x, g, q);
            }
        }
        cases += 1;
    }
    println!("real cases {}", cases);
}

#[test]
fn real_affine_dyadic_exact() {
    let mut r = Rng(12345);
    let ds = deltas();
    for _ in 0..40000 {
        let m = 1 + r.range(6);
        let n = 1 + r.range(6);
        let mm: Vec<Vec<f64>> = (0..m).map(|_| (0..n).map(|_| (r.range(65) as f64 - 32.0) / 8.0).collect()).collect();
        let c: Vec<f64> = (0..m).map(|_| (r.range(129) as f64 - 64.0) / 16.0).collect();
        let x: Vec<f64> = (0..n).map(|_| (r.range(8193) as f64 - 4096.0) / 1024.0).collect();
        for &delta in ds.iter().take(23) {
            let f = |v: Vec64| -> Vec64 {
                Vec64::create((0..m).map(|i| { let mut s = c[i]; for j in 0..n { s += mm[i][j] * v[j]; } s }).collect())
            };
            let jac = Mat64::jacobian(Vec64::create(x.clone()), &f, delta);
            assert_eq!((jac.rows(), jac.cols()), (m, n));
            for i in 0..m { for j in 0..n {
                assert!(jac[(i, j)] == mm[i][j], "({},{}) delta={} got {} want {}", i, j, delta, jac[(i, j)], mm[i][j]);
            } }
        }
    }
}

fn cmul(a: (f64, f64), b: (f64, f64)) -> (f64, f64) { (a.0 * b.0 - a.1 * b.1, a.0 * b.1 + a.1 * b.0) }

fn cmap(kind: usize, m: usize, coef: &Vec<Vec<(f64, f64)>>, c: &Vec<(f64, f64)>, z: &[(f64, f64)]) -> Vec<(f64, f64)> {
    let n = z.len();
    (0..m).map(|i| {
        let mut s = c[i];
        for j in 0..n {
            let t = match kind {
                0 => cmul(coef[i][j], z[j]),
                1 => cmul(coef[i][j], cmul(z[j], z[(j + 1) % n])),
                2 => cmul(coef[i][j], cmul(z[j], cmul(z[j], z[j]))),
                3 => { let e = (z[j].0 * 0.25).exp(); cmul(coef[i][j], (e * (z[j].1 * 0.25).cos(), e * (z[j].1 * 0.25).sin())) }
                _ => cmul(coef[i][j], (z[j].0, -z[j].1)), // non-holomorphic, still a map of n complex variables
            };
            s = (s.0 + t.0, s.1 + t.1);
        }
        s
    }).collect()
}

fn cspecial(r: &mut Rng) -> (f64, f64) {
    match r.range(8) {
        0 => (special(r), 0.0),
        1 => (0.0, special(r)),
        2 => (special(r), -0.0),
        3 => (1.0, special(r) * 1e-10),
        4 => (special(r) * 1e-10, 1.0),
        5 => (r.sym(4.0), special(r)),
        6 => (special(r), special(r)),
        _ => (r.sym(4.0), r.sym(4.0)),
    }
}

#[test]
fn complex_against_partwise_quotients() {
    let mut r = Rng(0xDEADBEEFCAFEF00D);
    let ds = deltas();
    let mut worst = 0u64;
    let mut worst_dy = 0u64;
    let mut worst_desc = String::new();
    let mut zero_sign = 0usize;
    for it in 0..60000 {
        let (m, n) = if it % 50 == 0 { (1 + r.range(70), 1 + r.range(70)) } else { (1 + r.range(6), 1 + r.range(6)) };
        let kind = r.range(5);
        let scale = match r.range(6) { 0 => 1e-7, 1 => 1e7, 2 => 1e-40, 3 => 1e40, 4 => 1e120, _ => 1.0 };
        let coef: Vec<Vec<(f64, f64)>> = (0..m).map(|_| (0..n).map(|_| { let t = if r.range(4) == 0 { cspecial(&mut r) } else { (r.sym(3.0), r.sym(3.0)) }; (t.0 * scale, t.1 * scale) }).collect()).collect();
        let c: Vec<(f64, f64)> = (0..m).map(|_| if r.range(3) == 0 { (0.0, 0.0) } else { (r.sym(5.0) * scale, r.sym(5.0) * scale) }).collect();
        let z: Vec<(f64, f64)> = (0..n).map(|_| if r.range(3) == 0 { cspecial(&mut r) } else { (r.sym(4.0), r.sym(4.0)) }).collect();
        let delta = ds[r.range(ds.len())];
        let calls: RefCell<Vec<Vec<(u64, u64)>>> = RefCell::new(vec![]);
        let f = |v: Vector<Cmplx>| -> Vector<Cmplx> {
            calls.borrow_mut().push(v.vec.iter().map(|t| (t.real.to_bits(), t.imag.to_bits())).collect());
            let zz: Vec<(f64, f64)> = v.vec.iter().map(|t| (t.real, t.imag)).collect();
            Vector::create(cmap(kind, m, &coef, &c, &zz).iter().map(|t| Cmplx::new(t.0, t.1)).collect())
        };
        let p = Vector::create(z.iter().map(|t| Cmplx::new(t.0, t.1)).collect());
        let jac = Matrix::<Cmplx>::jacobian_cmplx(p, &f, delta);
        assert_eq!(jac.rows(), m);
        assert_eq!(jac.cols(), n);
        let cs = calls.borrow();
        assert_eq!(cs.len(), n + 1);
        assert_eq!(cs[0], z.iter().map(|t| (t.0.to_bits(), t.1.to_bits())).collect::<Vec<_>>());
        let f0 = cmap(kind, m, &coef, &c, &z);
        for j in 0..n {
            let mut zp = z.clone();
            zp[j].0 = z[j].0 + delta;
            assert_eq!(cs[j + 1], zp.iter().map(|t| (t.0.to_bits(), t.1.to_bits())).collect::<Vec<_>>(), "call {} z={:?} delta={}", j, z, delta);
            let f1 = cmap(kind, m, &coef, &c, &zp);
            for i in 0..m {
                let q = ((f1[i].0 - f0[i].0) / delta, (f1[i].1 - f0[i].1) / delta);
                let g = jac[(i, j)];
                for (qq, gg) in [(q.0, g.real), (q.1, g.imag)] {
                    if qq.is_nan() && gg.is_nan() { continue; }
                    if qq == gg && qq.to_bits() != gg.to_bits() { zero_sign += 1; continue; }
                    let u = ulps(qq, gg);
                    if delta == 1e-8 {
                        if u > worst { worst = u; worst_desc = format!("1e-8: got {:e} want {:e} diff=({:e},{:e}) kind={} scale={}", gg, qq, f1[i].0 - f0[i].0, f1[i].1 - f0[i].1, kind, scale); }
                    } else {
                        if u > worst_dy { worst_dy = u; println!("dyadic delta={:e}: got {:e} want {:e} diff=({:e},{:e}) u={}", delta, gg, qq, f1[i].0 - f0[i].0, f1[i].1 - f0[i].1, u); }
                    }
                }
            }
        }
    }
    println!("worst ulps 1e-8: {}  {}", worst, worst_desc);
    println!("worst ulps dyadic: {}", worst_dy);
    println!("zero sign differences: {}", zero_sign);
    assert!(worst_dy == 0);
    assert!(worst <= 4);
}

#[test]
fn shapes_degenerate_and_large() {
    // n = 0
    let f = |_v: Vec64| -> Vec64 { Vec64::create(vec![1.0, 2.0, 3.0]) };
    let j = Mat64::jacobian(Vec64::create(vec![]), &f, 1e-8);
    assert_eq!((j.rows(), j.cols()), (3, 0));
    // m = 0
    let f = |_v: Vec64| -> Vec64 { Vec64::create(vec![]) };
    let j = Mat64::jacobian(Vec64::create(vec![1.0, 2.0]), &f, 1e-8);
    assert_eq!((j.rows(), j.cols()), (0, 2));
    for &(m, n) in &[(1usize, 300usize), (300, 1), (1, 1), (200, 3), (3, 200), (64, 64)] {
        let f = |v: Vec64| -> Vec64 { Vec64::create((0..m).map(|i| { let mut s = 0.0; for k in 0..v.size() { s += ((i * 7 + k * 3) % 11) as f64 * v[k]; } s }).collect()) };
        let x: Vec<f64> = (0..n).map(|k| (k % 9) as f64 * 0.25 - 1.0).collect();
        let j = Mat64::jacobian(Vec64::create(x), &f, 2f64.powi(-10));
        assert_eq!((j.rows(), j.cols()), (m, n));
        for i in 0..m { for k in 0..n { assert_eq!(j[(i, k)], ((i * 7 + k * 3) % 11) as f64); } }
        let fc = |v: Vector<Cmplx>| -> Vector<Cmplx> { Vector::create((0..m).map(|i| { let mut s = Cmplx::new(0.0, 0.0); for k in 0..v.size() { s = s + v[k] * Cmplx::new(((i * 7 + k * 3) % 11) as f64, ((i + k) % 5) as f64); } s }).collect()) };
        let z: Vec<Cmplx> = (0..n).map(|k| Cmplx::new((k % 9) as f64 * 0.25 - 1.0, (k % 7) as f64 * 0.5 - 1.5)).collect();
        let j = Matrix::<Cmplx>::jacobian_cmplx(Vector::create(z), &fc, 2f64.powi(-10));
        assert_eq!((j.rows(), j.cols()), (m, n));
        for i in 0..m { for k in 0..n { assert_eq!(j[(i, k)], Cmplx::new(((i * 7 + k * 3) % 11) as f64, ((i + k) % 5) as f64)); } }
    }
}
