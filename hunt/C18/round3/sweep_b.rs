use ohsl::{Vec64, Mat64, Vector, Matrix, Cmplx};

struct Rng(u64);
impl Rng {
    fn next(&mut self) -> u64 { let mut x = self.0; x ^= x << 13; x ^= x >> 7; x ^= x << 17; self.0 = x; x }
    fn uni(&mut self) -> f64 { (self.next() >> 11) as f64 / (1u64 << 53) as f64 }
    fn range(&mut self, n: usize) -> usize { (self.next() % n as u64) as usize }
    fn sym(&mut self, a: f64) -> f64 { (2.0 * self.uni() - 1.0) * a }
}

fn deltas() -> Vec<f64> {
    let mut d: Vec<f64> = (4..=26).map(|k| 2f64.powi(-k)).collect();
    d.push(1e-8);
    d
}

fn ulps(a: f64, b: f64) -> u64 {
    if a == b { return 0; }
    if a.is_nan() || b.is_nan() { return u64::MAX; }
    let f = |x: f64| { let b = x.to_bits() as i64; if b < 0 { i64::MIN.wrapping_sub(b) } else { b } };
    (f(a) as i128 - f(b) as i128).unsigned_abs() as u64
}

// magnitude sweep: f(z) = K z + c with K of every decade, generic mantissas; the quotient per part
#[test]
fn complex_magnitude_sweep() {
    let mut r = Rng(777);
    let ds = deltas();
    let mut worst_by_decade: Vec<(i32, u64, String)> = vec![];
    for e in (-320..=300).step_by(4) {
        let mut worst = 0u64; let mut desc = String::new();
        for _ in 0..300 {
            let k = (r.sym(1.0) * 10f64.powi(e), match r.range(4) { 0 => 0.0, 1 => -0.0, 2 => r.sym(1.0) * 10f64.powi(e - 9), _ => r.sym(1.0) * 10f64.powi(e) });
            let z = (r.sym(4.0), match r.range(3) { 0 => 0.0, 1 => 1e-40, _ => r.sym(4.0) });
            let delta = if r.range(2) == 0 { 1e-8 } else { ds[r.range(ds.len())] };
            let f = |v: Vector<Cmplx>| -> Vector<Cmplx> { Vector::create(vec![Cmplx::new(k.0 * v[0].real - k.1 * v[0].imag, k.0 * v[0].imag + k.1 * v[0].real)]) };
            let jac = Matrix::<Cmplx>::jacobian_cmplx(Vector::create(vec![Cmplx::new(z.0, z.1)]), &f, delta);
            let f0 = (k.0 * z.0 - k.1 * z.1, k.0 * z.1 + k.1 * z.0);
            let zp = z.0 + delta;
            let f1 = (k.0 * zp - k.1 * z.1, k.0 * z.1 + k.1 * zp);
            let q = ((f1.0 - f0.0) / delta, (f1.1 - f0.1) / delta);
            let g = jac[(0, 0)];
            for (qq, gg) in [(q.0, g.real), (q.1, g.imag)] {
                let u = if qq.to_bits() == gg.to_bits() { 0 } else if qq == gg { 1_000_000 } else { ulps(qq, gg) };
                if u > worst { worst = u; desc = format!("delta={:e} got {:e} want {:e} diff=({:e},{:e})", delta, gg, qq, f1.0 - f0.0, f1.1 - f0.1); }
            }
        }
        worst_by_decade.push((e, worst, desc));
    }
    for (e, w, d) in &worst_by_decade { if *w > 1 { println!("1e{}: worst {} ulps  {}", e, w, d); } }
}

// O(delta) for smooth maps with analytic derivatives, generic points
#[test]
fn smooth_maps_order_delta() {
    let mut r = Rng(4242);
    let ds = deltas();
    let mut worst_ratio = 0.0f64;
    for _ in 0..20000 {
        let x: Vec<f64> = (0..3).map(|_| r.sym(4.0)).collect();
        let delta = ds[r.range(ds.len())];
        // f: R^3 -> R^4
        let f = |v: Vec64| -> Vec64 { Vec64::create(vec![
            v[0] * v[1] + v[2].sin(), (0.3 * v[0]).exp() - v[1] * v[1] * v[2], v[0] * v[0] * v[0] + 0.7 * v[1], (v[0] + 2.0 * v[1] - 0.55 * v[2]).cos() ]) };
        let jac = Mat64::jacobian(Vec64::create(x.clone()), &f, delta);
        assert_eq!((jac.rows(), jac.cols()), (4, 3));
        let s = (x[0] + 2.0 * x[1] - 0.55 * x[2]).sin();
        let an = [
            [x[1], x[0], x[2].cos()],
            [0.3 * (0.3 * x[0]).exp(), -2.0 * x[1] * x[2], -x[1] * x[1]],
            [3.0 * x[0] * x[0], 0.7, 0.0],
            [-s, -2.0 * s, 0.55 * s],
        ];
        // second derivatives bounded by ~ 24 on the box, values by ~ 100
        for i in 0..4 { for j in 0..3 {
            let err = (jac[(i, j)] - an[i][j]).abs();
            let bound = 0.5 * 30.0 * delta + 4.0 * f64::EPSILON * 200.0 / delta;
            let ratio = err / bound;
            if ratio > worst_ratio { worst_ratio = ratio; }
            assert!(err <= bound, "({},{}) x={:?} delta={:e} got {} want {} err {:e} bound {:e}", i, j, x, delta, jac[(i, j)], an[i][j], err, bound);
        } }
        // complex: f(z,w) = (z w, z^2 + 0.3 w, exp(0.25 z)) : C^2 -> C^3
        let z = [Cmplx::new(r.sym(4.0), r.sym(4.0)), Cmplx::new(r.sym(4.0), r.sym(4.0))];
        let fc = |v: Vector<Cmplx>| -> Vector<Cmplx> {
            let e = (0.25 * v[0].real).exp();
            Vector::create(vec![ v[0] * v[1], v[0] * v[0] + v[1] * 0.3, Cmplx::new(e * (0.25 * v[0].imag).cos(), e * (0.25 * v[0].imag).sin()) ]) };
        let jc = Matrix::<Cmplx>::jacobian_cmplx(Vector::create(z.to_vec()), &fc, delta);
        assert_eq!((jc.rows(), jc.cols()), (3, 2));
        let e = (0.25 * z[0].real).exp();
        let anc = [
            [z[1], z[0]],
            [z[0] * 2.0, Cmplx::new(0.3, 0.0)],
            [Cmplx::new(0.25 * e * (0.25 * z[0].imag).cos(), 0.25 * e * (0.25 * z[0].imag).sin()), Cmplx::new(0.0, 0.0)],
        ];
        for i in 0..3 { for j in 0..2 {
            let err = (jc[(i, j)] - anc[i][j]).abs();
            let bound = 0.5 * 4.0 * delta + 8.0 * f64::EPSILON * 64.0 / delta;
            assert!(err <= bound, "cmplx ({},{}) z={:?} delta={:e} got {:?} want {:?} err {:e} bound {:e}", i, j, z, delta, jc[(i, j)], anc[i][j], err, bound);
        } }
    }
    println!("worst ratio real {}", worst_ratio);
}

// the input point object and repeated calls: same result twice, point unchanged (moved clone)
#[test]
fn repeat_calls_same_result() {
    let f = |v: Vec64| -> Vec64 { Vec64::create(vec![ 0.7 * v[0] - 0.3 * v[1] * v[2], 45.24 * v[2] - 0.001 * v[0] ]) };
    let p = Vec64::create(vec![0.7, -0.3, 1.0]);
    let a = Mat64::jacobian(p.clone(), &f, 1e-8);
    let b = Mat64::jacobian(p.clone(), &f, 1e-8);
    assert_eq!((a.rows(), a.cols()), (2, 3));
    for i in 0..2 { for j in 0..3 { assert_eq!(a[(i, j)].to_bits(), b[(i, j)].to_bits()); } }
    assert_eq!(p.vec, vec![0.7, -0.3, 1.0]);
}
