// C18 finding 1: Mat64::jacobian does not restore a perturbed coordinate exactly.
// It "restores" with `state[i] += delta; ...; state[i] -= delta`, and fl(fl(x+delta)-delta) != x
// whenever x+delta is not representable (x small against delta, or x+delta crossing a binade).
// All later columns are then evaluated at a shifted point, while f itself was evaluated at the
// original point, so the entries are no longer the forward difference quotients.
use ohsl::vector::Vec64;
use ohsl::matrix::Mat64;
use std::cell::RefCell;

/// The closure must be called at x, then at x with ONLY coordinate j replaced by fl(x_j + delta).
#[test]
fn call_points_are_the_original_point_with_one_coordinate_perturbed() {
    let delta = 0.0625; // 2^-4
    let x = vec![ (2.0f64).powi(-60), 1.0 ];
    let calls: RefCell<Vec<Vec<f64>>> = RefCell::new( vec![] );
    let f = |p: Vec64| -> Vec64 {
        calls.borrow_mut().push( vec![ p[0], p[1] ] );
        Vec64::create( vec![ p[0] + p[1] ] )
    };
    let jac = Mat64::jacobian( Vec64::create( x.clone() ), &f, delta );
    assert_eq!( ( jac.rows(), jac.cols() ), ( 1, 2 ) );
    let calls = calls.borrow();
    assert_eq!( calls.len(), 3 );
    assert_eq!( calls[0], x );
    assert_eq!( calls[1], vec![ x[0] + delta, x[1] ] );
    // crate: [0.0, 1.0625] - coordinate 0 came back as 0 instead of 2^-60
    assert_eq!( calls[2], vec![ x[0], x[1] + delta ], "coordinate 0 was not restored" );
}

/// Affine map, all data dyadic, every operation of the definition is exact:
/// f(x) = x0 + x1 - 4 at x = (4 - 2^-51, 0), delta = 2^-26.
/// f(x) = -2^-51, f(x + delta e1) = 2^-26 - 2^-51, quotient = exactly 1.
#[test]
fn affine_map_unit_entries_exact() {
    let delta = (2.0f64).powi(-26);
    let x = vec![ 4.0 - (2.0f64).powi(-51), 0.0 ];
    let f = |p: Vec64| -> Vec64 { Vec64::create( vec![ ( p[0] - 4.0 ) + p[1] ] ) };
    // the definition, computed independently (each step is exact in f64 here)
    let f0 = ( x[0] - 4.0 ) + x[1];
    let want = ( ( ( x[0] - 4.0 ) + ( x[1] + delta ) ) - f0 ) / delta;
    assert_eq!( want, 1.0 );
    let jac = Mat64::jacobian( Vec64::create( x.clone() ), &f, delta );
    // crate: 1.0000000298023224 = 1 + 2^-25
    assert_eq!( jac[(0,1)], 1.0, "J(0,1) of x0 + x1 - 4" );
}

/// Affine map M = [ 2^60, 1 ], c = 0 at the dyadic point (2^-60, 0), delta = 2^-4.
/// f(x) = 1, f(x + delta e1) = 1 + 2^-4 exactly, so J(0,1) = 1 exactly.
#[test]
fn affine_map_large_coefficient() {
    let delta = 0.0625;
    let big = (2.0f64).powi(60);
    let x = vec![ (2.0f64).powi(-60), 0.0 ];
    let f = |p: Vec64| -> Vec64 { Vec64::create( vec![ big * p[0] + p[1] ] ) };
    let jac = Mat64::jacobian( Vec64::create( x ), &f, delta );
    // crate: -15
    assert_eq!( jac[(0,1)], 1.0, "J(0,1) of 2^60 x0 + x1" );
}

/// Smooth map f(x) = ln(x0) + x1 at (1e-20, 0), delta = 2^-4: df/dx1 = 1 everywhere.
#[test]
fn smooth_map_column_after_a_small_coordinate() {
    let delta = 0.0625;
    let f = |p: Vec64| -> Vec64 { Vec64::create( vec![ p[0].ln() + p[1] ] ) };
    let jac = Mat64::jacobian( Vec64::create( vec![ 1.0e-20, 0.0 ] ), &f, delta );
    // crate: -inf (x0 came back as 0, ln(0) = -inf)
    assert!( ( jac[(0,1)] - 1.0 ).abs() < 1.0e-10, "J(0,1) = {}", jac[(0,1)] );
}
