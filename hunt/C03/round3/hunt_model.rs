// Random-history model test: dense Matrix<T> against a Vec<Vec<T>> reference model.
use ohsl::{Matrix, Vector, Cmplx};
use std::panic::{catch_unwind, AssertUnwindSafe};
use std::fmt::Debug;

struct Rng(u64);
impl Rng {
    fn next(&mut self) -> u64 {
        self.0 = self.0.wrapping_add(0x9E3779B97F4A7C15);
        let mut z = self.0;
        z = (z ^ (z >> 30)).wrapping_mul(0xBF58476D1CE4E5B9);
        z = (z ^ (z >> 27)).wrapping_mul(0x94D049BB133111EB);
        z ^ (z >> 31)
    }
    fn below(&mut self, n: usize) -> usize { (self.next() % (n as u64)) as usize }
    fn unit(&mut self) -> f64 { (self.next() >> 11) as f64 / (1u64 << 53) as f64 }
}

trait El: Copy + Debug + ohsl::Number + ohsl::Signed + 'static {
    fn gen(r: &mut Rng) -> Self;
    fn gen_div(r: &mut Rng) -> Self; // non-zero divisor
    fn same(a: &Self, b: &Self) -> bool;
    fn close(a: &Self, b: &Self) -> bool { Self::same(a, b) }
    fn radd(a: Self, b: Self) -> Self;
    fn rsub(a: Self, b: Self) -> Self;
    fn rmul(a: Self, b: Self) -> Self;
    fn rdiv(a: Self, b: Self) -> Self;
    fn rneg(a: Self) -> Self;
    fn rzero() -> Self;
    fn rone() -> Self;
    const EXACT_DIV: bool;
}

fn genf(r: &mut Rng) -> f64 {
    match r.below(12) {
        0 => 0.0,
        1 => 0.7,
        2 => -0.3,
        3 => 45.24,
        4 => -0.001,
        5 => 1.0,
        6 => 1.0 + f64::EPSILON,
        7 => { let e = [-120.0, -40.0, -7.0, 7.0, 40.0, 120.0][r.below(6)]; (r.unit() + 0.5) * 10f64.powf(e) }
        8 => -(r.unit() * 3.0),
        _ => r.unit() * 20.0 - 10.0,
    }
}

impl El for f64 {
    fn gen(r: &mut Rng) -> Self { genf(r) }
    fn gen_div(r: &mut Rng) -> Self { loop { let x = genf(r); if x != 0.0 { return x; } } }
    fn same(a: &Self, b: &Self) -> bool { a.to_bits() == b.to_bits() || (a.is_nan() && b.is_nan()) }
    fn radd(a: Self, b: Self) -> Self { a + b }
    fn rsub(a: Self, b: Self) -> Self { a - b }
    fn rmul(a: Self, b: Self) -> Self { a * b }
    fn rdiv(a: Self, b: Self) -> Self { a / b }
    fn rneg(a: Self) -> Self { -a }
    fn rzero() -> Self { 0.0 }
    fn rone() -> Self { 1.0 }
    const EXACT_DIV: bool = true;
}

impl El for i64 {
    fn gen(r: &mut Rng) -> Self { (r.below(7) as i64) - 3 }
    fn gen_div(r: &mut Rng) -> Self { [1, -1, 2, -2, 3][r.below(5)] }
    fn same(a: &Self, b: &Self) -> bool { a == b }
    fn radd(a: Self, b: Self) -> Self { a.wrapping_add(b) }
    fn rsub(a: Self, b: Self) -> Self { a.wrapping_sub(b) }
    fn rmul(a: Self, b: Self) -> Self { a.wrapping_mul(b) }
    fn rdiv(a: Self, b: Self) -> Self { a / b }
    fn rneg(a: Self) -> Self { -a }
    fn rzero() -> Self { 0 }
    fn rone() -> Self { 1 }
    const EXACT_DIV: bool = true;
}

impl El for Cmplx {
    fn gen(r: &mut Rng) -> Self {
        match r.below(6) {
            0 => Cmplx::new(genf(r), 0.0),
            1 => Cmplx::new(0.0, genf(r)),
            2 => Cmplx::new(-0.3, 0.55),
            3 => Cmplx::new(45.24, -0.001),
            _ => Cmplx::new(genf(r), genf(r)),
        }
    }
    fn gen_div(r: &mut Rng) -> Self { loop { let x = <Cmplx as El>::gen(r); if x.real != 0.0 || x.imag != 0.0 { return x; } } }
    fn same(a: &Self, b: &Self) -> bool { f64::same(&a.real, &b.real) && f64::same(&a.imag, &b.imag) }
    fn close(a: &Self, b: &Self) -> bool {
        if Self::same(a, b) { return true; }
        if !(b.real.is_finite() && b.imag.is_finite()) { return true; }
        if !(a.real.is_finite() && a.imag.is_finite()) { return false; }
        let s = b.real.abs().max(b.imag.abs());
        let e = (a.real - b.real).abs().max((a.imag - b.imag).abs());
        e <= 8.0 * f64::EPSILON * s || e <= 1e-320
    }
    fn radd(a: Self, b: Self) -> Self { Cmplx::new(a.real + b.real, a.imag + b.imag) }
    fn rsub(a: Self, b: Self) -> Self { Cmplx::new(a.real - b.real, a.imag - b.imag) }
    fn rmul(a: Self, b: Self) -> Self { Cmplx::new(a.real * b.real - a.imag * b.imag, a.real * b.imag + a.imag * b.real) }
    fn rdiv(a: Self, b: Self) -> Self {
        // scale divisor and dividend by powers of two (exact), then textbook formula
        let mb = b.real.abs().max(b.imag.abs());
        let kb = mb.log2().floor() as i32;
        let ma = a.real.abs().max(a.imag.abs());
        let ka = if ma > 0.0 { ma.log2().floor() as i32 } else { 0 };
        let p2 = |k: i32| -> f64 { if k >= 0 { 2f64.powi(k) } else { 1.0 / 2f64.powi(-k) } };
        let (c, d) = (b.real / p2(kb), b.imag / p2(kb));
        let (x, y) = (a.real / p2(ka), a.imag / p2(ka));
        let den = c * c + d * d;
        let (re, im) = ((x * c + y * d) / den, (y * c - x * d) / den);
        let k = ka - kb;
        let (h1, h2) = (k / 2, k - k / 2);
        Cmplx::new(re * p2(h1) * p2(h2), im * p2(h1) * p2(h2))
    }
    fn rneg(a: Self) -> Self { Cmplx::new(-a.real, -a.imag) }
    fn rzero() -> Self { Cmplx::new(0.0, 0.0) }
    fn rone() -> Self { Cmplx::new(1.0, 0.0) }
    const EXACT_DIV: bool = false;
}

#[derive(Clone, Debug)]
struct Model<T> { r: usize, c: usize, d: Vec<Vec<T>> }

impl<T: El> Model<T> {
    fn new(r: usize, c: usize, e: T) -> Self { Model { r, c, d: vec![vec![e; c]; r] } }
    fn random(r: usize, c: usize, g: &mut Rng) -> Self {
        let mut m = Self::new(r, c, T::rzero());
        for i in 0..r { for j in 0..c { m.d[i][j] = T::gen(g); } }
        m
    }
    fn to_crate(&self) -> Matrix<T> {
        let mut m = Matrix::<T>::new(self.r, self.c, T::rzero());
        for i in 0..self.r { for j in 0..self.c { m[(i, j)] = self.d[i][j]; } }
        m
    }
}

fn check<T: El>(m: &Matrix<T>, md: &Model<T>, what: &str, hist: &Vec<String>) {
    let fail = |msg: String| -> ! {
        panic!("MISMATCH after {}: {}\nhistory: {:#?}\ncrate: rows {} cols {}\n{:?}\nmodel: {:?}", what, msg, hist, m.rows(), m.cols(), m, md);
    };
    if m.rows() != md.r || m.cols() != md.c { fail(format!("shape {}x{} vs {}x{}", m.rows(), m.cols(), md.r, md.c)); }
    if m.numel() != md.r * md.c { fail("numel".to_string()); }
    for i in 0..md.r {
        for j in 0..md.c {
            if !T::same(&m[(i, j)], &md.d[i][j]) { fail(format!("entry ({},{}) {:?} vs {:?}", i, j, m[(i, j)], md.d[i][j])); }
        }
        let row = m.get_row(i);
        if row.size() != md.c { fail("get_row size".to_string()); }
        for j in 0..md.c { if !T::same(&row[j], &md.d[i][j]) { fail("get_row".to_string()); } }
    }
    for j in 0..md.c {
        let col = m.get_col(j);
        if col.size() != md.r { fail("get_col size".to_string()); }
        for i in 0..md.r { if !T::same(&col[i], &md.d[i][j]) { fail("get_col".to_string()); } }
    }
    // the hidden buffer length: clone, transpose twice and compare with ==
    // (derived PartialEq compares the buffers)
    let fresh = md.to_crate();
    let has_nan = format!("{:?}", md.d).contains("NaN");
    if !has_nan && !(*m == fresh) {
        // might be -0.0 vs 0.0? those are == . So this is a real difference of buffer
        fail("PartialEq with a freshly built matrix of the same entries is false".to_string());
    }
}

fn rvec<T: El>(n: usize, g: &mut Rng) -> Vec<T> { (0..n).map(|_| T::gen(g)).collect() }

fn expect_panic<F: FnOnce()>(f: F) -> bool { catch_unwind(AssertUnwindSafe(f)).is_err() }

fn dim(g: &mut Rng, maxd: usize) -> usize {
    match g.below(8) { 0 => 0, 1 => 1, _ => g.below(maxd + 1) }
}

fn run<T: El>(seed: u64, histories: usize, steps: usize, maxd: usize) {
    let mut g = Rng(seed);
    for h in 0..histories {
        let r0 = dim(&mut g, maxd); let c0 = dim(&mut g, maxd);
        let mut md = Model::<T>::random(r0, c0, &mut g);
        let mut m = md.to_crate();
        let mut hist: Vec<String> = vec![format!("hist {} start {}x{}", h, r0, c0)];
        for _s in 0..steps {
            let op = g.below(34);
            let what: String;
            match op {
                0 => { // resize
                    let nr = dim(&mut g, maxd); let nc = dim(&mut g, maxd);
                    what = format!("resize({},{})", nr, nc);
                    m.resize(nr, nc);
                    let mut n = Model::<T>::new(nr, nc, T::rzero());
                    for i in 0..nr.min(md.r) { for j in 0..nc.min(md.c) { n.d[i][j] = md.d[i][j]; } }
                    md = n;
                }
                1 => { // delete_row, possibly out of range by one
                    let row = g.below(md.r + 2);
                    what = format!("delete_row({})", row);
                    let p = expect_panic(|| m.delete_row(row));
                    if row < md.r { assert!(!p, "{} panicked {:?}", what, hist); md.d.remove(row); md.r -= 1; }
                    else { assert!(p, "{} should be refused {:?}", what, hist); }
                }
                2 => { // swap_rows
                    let a = g.below(md.r + 2); let b = g.below(md.r + 2);
                    what = format!("swap_rows({},{})", a, b);
                    let p = expect_panic(|| m.swap_rows(a, b));
                    if a < md.r && b < md.r { assert!(!p, "{} panicked {:?}", what, hist); md.d.swap(a, b); }
                    else { assert!(p, "{} should be refused {:?}", what, hist); }
                }
                3 => { // swap_elem
                    let a = g.below(md.r + 2); let b = g.below(md.r + 2);
                    let c = g.below(md.c + 2); let d = g.below(md.c + 2);
                    what = format!("swap_elem({},{},{},{})", a, c, b, d);
                    let p = expect_panic(|| m.swap_elem(a, c, b, d));
                    if a < md.r && b < md.r && c < md.c && d < md.c {
                        assert!(!p, "{} panicked {:?}", what, hist);
                        let t = md.d[a][c]; md.d[a][c] = md.d[b][d]; md.d[b][d] = t;
                    } else { assert!(p, "{} should be refused {:?}", what, hist); }
                }
                4 => { // set_row
                    let row = g.below(md.r + 2);
                    let len = if g.below(4) == 0 { g.below(md.c + 2) } else { md.c };
                    let v: Vec<T> = rvec(len, &mut g);
                    what = format!("set_row({}, {:?})", row, v);
                    let vv = Vector::create(v.clone());
                    let p = expect_panic(|| m.set_row(row, vv));
                    if row < md.r && len == md.c { assert!(!p, "{} panicked {:?}", what, hist); md.d[row] = v; }
                    else { assert!(p, "{} should be refused {:?}", what, hist); }
                }
                5 => { // set_col
                    let col = g.below(md.c + 2);
                    let len = if g.below(4) == 0 { g.below(md.r + 2) } else { md.r };
                    let v: Vec<T> = rvec(len, &mut g);
                    what = format!("set_col({}, {:?})", col, v);
                    let vv = Vector::create(v.clone());
                    let p = expect_panic(|| m.set_col(col, vv));
                    if col < md.c && len == md.r { assert!(!p, "{} panicked {:?}", what, hist); for i in 0..md.r { md.d[i][col] = v[i]; } }
                    else { assert!(p, "{} should be refused {:?}", what, hist); }
                }
                6 => { let e = T::gen(&mut g); what = format!("fill({:?})", e); m.fill(e); for i in 0..md.r { for j in 0..md.c { md.d[i][j] = e; } } }
                7 => { let e = T::gen(&mut g); what = format!("fill_diag({:?})", e); m.fill_diag(e); for i in 0..md.r.min(md.c) { md.d[i][i] = e; } }
                8 => {
                    let e = T::gen(&mut g); let off = g.below(2 * maxd + 5) as isize - (maxd as isize + 2);
                    what = format!("fill_band({}, {:?})", off, e);
                    m.fill_band(off, e);
                    for i in 0..md.r { for j in 0..md.c { if j as isize - i as isize == off { md.d[i][j] = e; } } }
                }
                9 => {
                    let l = T::gen(&mut g); let d = T::gen(&mut g); let u = T::gen(&mut g);
                    what = format!("fill_tridiag({:?},{:?},{:?})", l, d, u);
                    m.fill_tridiag(l, d, u);
                    for i in 0..md.r { for j in 0..md.c {
                        if j + 1 == i { md.d[i][j] = l; } else if j == i { md.d[i][j] = d; } else if j == i + 1 { md.d[i][j] = u; }
                    } }
                }
                10 => {
                    let row = g.below(md.r + 2); let e = T::gen(&mut g);
                    what = format!("fill_row({}, {:?})", row, e);
                    let p = expect_panic(|| m.fill_row(row, e));
                    if row < md.r { assert!(!p); for j in 0..md.c { md.d[row][j] = e; } } else { assert!(p, "{} should be refused {:?}", what, hist); }
                }
                11 => {
                    let col = g.below(md.c + 2); let e = T::gen(&mut g);
                    what = format!("fill_col({}, {:?})", col, e);
                    let p = expect_panic(|| m.fill_col(col, e));
                    if col < md.c { assert!(!p); for i in 0..md.r { md.d[i][col] = e; } } else { assert!(p, "{} should be refused {:?}", what, hist); }
                }
                12 | 13 => { // transpose in place / not
                    what = if op == 12 { "transpose_in_place".to_string() } else { "transpose".to_string() };
                    if op == 12 { m.transpose_in_place(); } else { let before = m.clone(); let t = m.transpose(); assert!(before == m || format!("{:?}", m).contains("NaN")); m = t; }
                    let mut n = Model::<T>::new(md.c, md.r, T::rzero());
                    for i in 0..md.r { for j in 0..md.c { n.d[j][i] = md.d[i][j]; } }
                    md = n;
                }
                14 | 15 | 16 | 17 => { // += -= + - with a matrix, sometimes of the wrong shape
                    let wrong = g.below(6) == 0;
                    let (orr, oc) = if wrong { (dim(&mut g, maxd), dim(&mut g, maxd)) } else { (md.r, md.c) };
                    let o = Model::<T>::random(orr, oc, &mut g);
                    let oc_ = o.to_crate();
                    what = format!("op{} matrix {:?}", op, o);
                    let conform = orr == md.r && oc == md.c;
                    let p = expect_panic(|| match op {
                        14 => { m += &oc_; }
                        15 => { m -= oc_.clone(); }
                        16 => { let t = &m + &oc_; m = t; }
                        _ => { let t = m.clone() - oc_.clone(); m = t; }
                    });
                    if conform {
                        assert!(!p, "{} panicked {:?}", what, hist);
                        for i in 0..md.r { for j in 0..md.c {
                            md.d[i][j] = if op == 14 || op == 16 { T::radd(md.d[i][j], o.d[i][j]) } else { T::rsub(md.d[i][j], o.d[i][j]) };
                        } }
                    } else { assert!(p, "{} should be refused {:?}", what, hist); }
                }
                18 => { let e = T::gen(&mut g); what = format!("+= scalar {:?}", e); m += e; for i in 0..md.r { for j in 0..md.c { md.d[i][j] = T::radd(md.d[i][j], e); } } }
                19 => { let e = T::gen(&mut g); what = format!("-= scalar {:?}", e); m -= e; for i in 0..md.r { for j in 0..md.c { md.d[i][j] = T::rsub(md.d[i][j], e); } } }
                20 => { let e = T::gen(&mut g); what = format!("*= scalar {:?}", e); m *= e; for i in 0..md.r { for j in 0..md.c { md.d[i][j] = T::rmul(md.d[i][j], e); } } }
                21 => { let e = T::gen(&mut g); what = format!("* scalar {:?}", e); m = if g.below(2) == 0 { &m * e } else { m * e }; for i in 0..md.r { for j in 0..md.c { md.d[i][j] = T::rmul(md.d[i][j], e); } } }
                22 => { let e = T::gen_div(&mut g); what = format!("/= scalar {:?}", e); m /= e; for i in 0..md.r { for j in 0..md.c { md.d[i][j] = T::rdiv(md.d[i][j], e); } } }
                23 => { let e = T::gen_div(&mut g); what = format!("/ scalar {:?}", e); m = if g.below(2) == 0 { &m / e } else { m / e }; for i in 0..md.r { for j in 0..md.c { md.d[i][j] = T::rdiv(md.d[i][j], e); } } }
                24 => { what = "neg".to_string(); m = if g.below(2) == 0 { -&m } else { -m }; for i in 0..md.r { for j in 0..md.c { md.d[i][j] = T::rneg(md.d[i][j]); } } }
                25 | 26 => { // matrix product on the right / left
                    let wrong = g.below(6) == 0;
                    let k = dim(&mut g, maxd);
                    let (orr, oc) = if op == 25 { (if wrong { dim(&mut g, maxd) } else { md.c }, k) } else { (k, if wrong { dim(&mut g, maxd) } else { md.r }) };
                    let o = Model::<T>::random(orr, oc, &mut g);
                    let ocr = o.to_crate();
                    what = format!("product op{} with {:?}", op, o);
                    let (a, b) = if op == 25 { (md.clone(), o.clone()) } else { (o.clone(), md.clone()) };
                    let conform = a.c == b.r;
                    let p = expect_panic(|| { let t = if op == 25 { &m * &ocr } else { ocr.clone() * m.clone() }; m = t; });
                    if conform {
                        assert!(!p, "{} panicked {:?}", what, hist);
                        let mut n = Model::<T>::new(a.r, b.c, T::rzero());
                        for i in 0..a.r { for j in 0..b.c {
                            let mut s = T::rzero();
                            for l in 0..a.c { s = T::radd(s, T::rmul(a.d[i][l], b.d[l][j])); }
                            n.d[i][j] = s;
                        } }
                        md = n;
                    } else { assert!(p, "{} should be refused {:?}", what, hist); }
                }
                27 => { // matrix-vector product (query)
                    let len = if g.below(5) == 0 { g.below(md.c + 2) } else { md.c };
                    let v: Vec<T> = rvec(len, &mut g);
                    what = format!("multiply({:?})", v);
                    let vv = Vector::create(v.clone());
                    let res = catch_unwind(AssertUnwindSafe(|| if g.below(2) == 0 { m.multiply(&vv) } else { &m * &vv }));
                    if len == md.c {
                        let res = res.unwrap_or_else(|_| panic!("{} panicked {:?}", what, hist));
                        assert_eq!(res.size(), md.r, "{} size {:?}", what, hist);
                        for i in 0..md.r {
                            let mut s = T::rzero();
                            for l in 0..md.c { s = T::radd(s, T::rmul(md.d[i][l], v[l])); }
                            assert!(T::same(&res[i], &s), "{} entry {} {:?} vs {:?} {:?}", what, i, res[i], s, hist);
                        }
                    } else { assert!(res.is_err(), "{} should be refused {:?}", what, hist); }
                }
                28 => { // index set
                    if md.r > 0 && md.c > 0 {
                        let i = g.below(md.r); let j = g.below(md.c); let e = T::gen(&mut g);
                        what = format!("[({},{})] = {:?}", i, j, e);
                        m[(i, j)] = e; md.d[i][j] = e;
                    } else { what = "noop".to_string(); }
                }
                29 => { what = "clear".to_string(); m.clear(); md = Model::<T>::new(0, 0, T::rzero()); }
                30 => { let n = dim(&mut g, maxd); what = format!("eye({})", n); m = Matrix::<T>::eye(n); md = Model::<T>::new(n, n, T::rzero()); for i in 0..n { md.d[i][i] = T::rone(); } }
                31 => { let r = dim(&mut g, maxd); let c = dim(&mut g, maxd); let e = T::gen(&mut g); what = format!("new({},{},{:?})", r, c, e); m = Matrix::<T>::new(r, c, e); md = Model::<T>::new(r, c, e); }
                32 => { what = "clone".to_string(); let t = m.clone(); m = t; }
                _ => { what = "empty".to_string(); if g.below(4) == 0 { m = Matrix::<T>::empty(); md = Model::<T>::new(0, 0, T::rzero()); } }
            }
            hist.push(what.clone());
            if !T::EXACT_DIV && (op == 22 || op == 23) {
                // rounding-level agreement only; then continue from the crate's values
                assert!(m.rows() == md.r && m.cols() == md.c);
                for i in 0..md.r { for j in 0..md.c {
                    assert!(T::close(&m[(i, j)], &md.d[i][j]), "DIVISION {} entry ({},{}) crate {:?} ref {:?}", what, i, j, m[(i, j)], md.d[i][j]);
                    md.d[i][j] = m[(i, j)];
                } }
            }
            check(&m, &md, &what, &hist);
        }
    }
}

fn quiet() {
    std::panic::set_hook(Box::new(|info| {
        let msg = if let Some(s) = info.payload().downcast_ref::<&str>() { s.to_string() } else if let Some(s) = info.payload().downcast_ref::<String>() { s.clone() } else { "?".to_string() };
        if msg.starts_with("Matrix") || msg.starts_with("Vector") { return; }
        eprintln!("PANIC: {} at {:?}", msg, info.location());
    }));
}

#[test]
fn model_i64() { quiet(); run::<i64>(1, 3000, 12, 8); }

#[test]
fn model_f64() { quiet(); run::<f64>(2, 6000, 40, 8); }

#[test]
fn model_cmplx() { quiet(); run::<Cmplx>(3, 6000, 40, 8); }

#[test]
fn model_f64_big() { quiet(); run::<f64>(4, 300, 60, 70); }

#[test]
fn model_more() {
    quiet();
    for seed in 10..30u64 {
        run::<i64>(seed, 2000, 10, 8);
        run::<f64>(seed + 100, 3000, 30, 8);
        run::<Cmplx>(seed + 200, 3000, 30, 8);
    }
    run::<Cmplx>(999, 200, 40, 40);
}

impl El for f32 {
    fn gen(r: &mut Rng) -> Self { let x = genf(r); if x.abs() > 1e30 || (x != 0.0 && x.abs() < 1e-30) { 0.7 } else { x as f32 } }
    fn gen_div(r: &mut Rng) -> Self { loop { let x = <f32 as El>::gen(r); if x != 0.0 { return x; } } }
    fn same(a: &Self, b: &Self) -> bool { a.to_bits() == b.to_bits() || (a.is_nan() && b.is_nan()) }
    fn radd(a: Self, b: Self) -> Self { a + b }
    fn rsub(a: Self, b: Self) -> Self { a - b }
    fn rmul(a: Self, b: Self) -> Self { a * b }
    fn rdiv(a: Self, b: Self) -> Self { a / b }
    fn rneg(a: Self) -> Self { -a }
    fn rzero() -> Self { 0.0 }
    fn rone() -> Self { 1.0 }
    const EXACT_DIV: bool = true;
}

#[test]
fn model_f32() { quiet(); run::<f32>(77, 4000, 30, 8); }
