// Matrix<Cmplx> scalar scaling / division / product on generic and in-between magnitudes, double-double reference.
use ohsl::{Matrix, Cmplx};

struct Rng(u64);
impl Rng {
    fn next(&mut self) -> u64 {
        self.0 = self.0.wrapping_add(0x9E3779B97F4A7C15);
        let mut z = self.0;
        z = (z ^ (z >> 30)).wrapping_mul(0xBF58476D1CE4E5B9);
        z = (z ^ (z >> 27)).wrapping_mul(0x94D049BB133111EB);
        z ^ (z >> 31)
    }
    fn below(&mut self, n: usize) -> usize { (self.next() % (n as u64)) as usize }
    fn unit(&mut self) -> f64 { (self.next() >> 11) as f64 / (1u64 << 53) as f64 }
}

#[derive(Clone, Copy, Debug)]
struct DD(f64, f64);
fn two_sum(a: f64, b: f64) -> DD { let s = a + b; let bb = s - a; DD(s, (a - (s - bb)) + (b - bb)) }
fn two_prod(a: f64, b: f64) -> DD { let p = a * b; DD(p, a.mul_add(b, -p)) }
impl DD {
    fn add(self, o: DD) -> DD { let s = two_sum(self.0, o.0); let e = s.1 + self.1 + o.1; let r = two_sum(s.0, e); r }
    fn neg(self) -> DD { DD(-self.0, -self.1) }
    fn mul(self, o: DD) -> DD { let p = two_prod(self.0, o.0); let e = p.1 + self.0 * o.1 + self.1 * o.0; two_sum(p.0, e) }
    fn div(self, o: DD) -> DD {
        let q1 = self.0 / o.0;
        let r = self.add(o.mul(DD(q1, 0.0)).neg());
        let q2 = r.0 / o.0;
        let r2 = r.add(o.mul(DD(q2, 0.0)).neg());
        let q3 = r2.0 / o.0;
        two_sum(q1, q2).add(DD(q3, 0.0))
    }
}

fn p2(k: i32) -> f64 { if k >= 0 { 2f64.powi(k) } else { 1.0 / 2f64.powi(-k) } }
fn scale2(x: f64, k: i32) -> f64 { let h = k / 2; x * p2(h) * p2(k - h) }
fn expo(x: f64) -> i32 { if x == 0.0 { 0 } else { x.abs().log2().floor() as i32 } }

// reference quotient (re, im) of a / b, or None when the true components are outside the comfortable range
fn ref_div(a: Cmplx, b: Cmplx) -> Option<(f64, f64)> {
    let ka = expo(a.real.abs().max(a.imag.abs()));
    let kb = expo(b.real.abs().max(b.imag.abs()));
    let (x, y) = (DD(scale2(a.real, -ka), 0.0), DD(scale2(a.imag, -ka), 0.0));
    let (c, d) = (DD(scale2(b.real, -kb), 0.0), DD(scale2(b.imag, -kb), 0.0));
    // subnormal inputs lose bits on scaling up? scaling up is exact. fine.
    let den = c.mul(c).add(d.mul(d));
    let re = x.mul(c).add(y.mul(d)).div(den);
    let im = y.mul(c).add(x.mul(d).neg()).div(den);
    let k = ka - kb;
    if k > 1000 || k < -1000 { return None; }
    Some((scale2(re.0, k), scale2(im.0, k)))
}

fn genf(r: &mut Rng) -> f64 {
    let sign = if r.below(2) == 0 { 1.0 } else { -1.0 };
    match r.below(10) {
        0 => 0.0,
        1 => sign * 1.0,
        2 => sign * 0.7,
        3 => sign * 45.24,
        4 => sign * 0.001,
        5 => sign * (1.0 + f64::EPSILON),
        6 | 7 => { let e = [-120.0, -40.0, -7.0, 7.0, 40.0, 120.0][r.below(6)]; sign * (r.unit() + 0.5) * 10f64.powf(e) }
        _ => sign * r.unit() * 10.0,
    }
}
fn genc(r: &mut Rng) -> Cmplx {
    match r.below(5) { 0 => Cmplx::new(genf(r), 0.0), 1 => Cmplx::new(0.0, genf(r)), _ => Cmplx::new(genf(r), genf(r)) }
}

#[test]
fn cmplx_matrix_division() {
    let mut g = Rng(4242);
    let mut worst = (0.0f64, String::new());
    for _case in 0..100000 {
        let r = 1 + g.below(3); let c = 1 + g.below(3);
        let mut m = Matrix::<Cmplx>::new(r, c, Cmplx::new(0.0, 0.0));
        for i in 0..r { for j in 0..c { m[(i, j)] = genc(&mut g); } }
        let s = loop { let s = genc(&mut g); if s.real != 0.0 || s.imag != 0.0 { break s; } };
        let q = &m / s;
        let mut q2 = m.clone(); q2 /= s;
        for i in 0..r { for j in 0..c {
            assert!(q[(i, j)].real.to_bits() == q2[(i, j)].real.to_bits() && q[(i, j)].imag.to_bits() == q2[(i, j)].imag.to_bits());
            if let Some((re, im)) = ref_div(m[(i, j)], s) {
                let n = re.abs().max(im.abs());
                if n > 1e300 || (n < 1e-290 && n != 0.0) { continue; }
                let e = (q[(i, j)].real - re).abs().max((q[(i, j)].imag - im).abs());
                let rel = if e == 0.0 { 0.0 } else if !e.is_finite() || e.is_nan() { f64::INFINITY } else { e / n };
                let bad = rel.is_nan() || rel > worst.0;
                if bad { worst = (if rel.is_nan() { f64::INFINITY } else { rel }, format!("{:?} / {:?} crate {:?} ref ({:e},{:e})", m[(i, j)], s, q[(i, j)], re, im)); }
            }
        } }
    }
    println!("worst normwise rel err of matrix / scalar: {:e}  {}", worst.0, worst.1);
    assert!(worst.0 < 1e-15 * 8.0);
}
