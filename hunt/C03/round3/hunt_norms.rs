// Norm sweeps against a scaled / compensated reference, and exhaustive shape sweeps with exact integers.
use ohsl::{Matrix, Mat64, Vector, Cmplx};

struct Rng(u64);
impl Rng {
    fn next(&mut self) -> u64 {
        self.0 = self.0.wrapping_add(0x9E3779B97F4A7C15);
        let mut z = self.0;
        z = (z ^ (z >> 30)).wrapping_mul(0xBF58476D1CE4E5B9);
        z = (z ^ (z >> 27)).wrapping_mul(0x94D049BB133111EB);
        z ^ (z >> 31)
    }
    fn below(&mut self, n: usize) -> usize { (self.next() % (n as u64)) as usize }
    fn unit(&mut self) -> f64 { (self.next() >> 11) as f64 / (1u64 << 53) as f64 }
}

fn val(r: &mut Rng, class: usize) -> f64 {
    let sign = if r.below(2) == 0 { 1.0 } else { -1.0 };
    let mant = 0.5 + r.unit();
    let exps: &[f64] = match class {
        0 => &[0.0],
        1 => &[-7.0, 0.0, 7.0],
        2 => &[-40.0, -7.0, 0.0, 7.0, 40.0],
        3 => &[-120.0, -40.0, 0.0, 40.0, 120.0],
        4 => &[-300.0, -120.0, 0.0, 120.0, 300.0],
        5 => &[-120.0],
        6 => &[120.0],
        7 => &[-160.0, -150.0, -140.0, -135.0],
        8 => &[135.0, 140.0, 150.0, 160.0],
        9 => &[-307.0, -300.0],
        _ => &[300.0, 307.0],
    };
    if r.below(10) == 0 { return if r.below(2) == 0 { 0.0 } else { -0.0 }; }
    sign * mant * 10f64.powf(exps[r.below(exps.len())])
}

// two-sum compensated summation
fn csum(xs: &[f64]) -> f64 {
    let mut s = 0.0f64; let mut c = 0.0f64;
    for &x in xs {
        let t = s + x;
        if s.abs() >= x.abs() { c += (s - t) + x; } else { c += (x - t) + s; }
        s = t;
    }
    s + c
}

fn ref_norm_p(a: &Vec<Vec<f64>>, p: f64) -> f64 {
    let mut mx = 0.0f64;
    for r in a { for &x in r { if x.abs() > mx { mx = x.abs(); } } }
    if mx == 0.0 { return 0.0; }
    // scale by a power of two
    let k = mx.log2().floor() as i32;
    let sc = |x: f64| -> f64 { let h = k / 2; let x1 = if h >= 0 { x / 2f64.powi(h) } else { x * 2f64.powi(-h) }; let h2 = k - h; if h2 >= 0 { x1 / 2f64.powi(h2) } else { x1 * 2f64.powi(-h2) } };
    let mut terms = vec![];
    for r in a { for &x in r { terms.push((sc(x.abs()).ln() * p).exp()); } }
    let s = csum(&terms);
    let res = (s.ln() / p).exp();
    let h = k / 2; let h2 = k - h;
    let up = |x: f64, h: i32| -> f64 { if h >= 0 { x * 2f64.powi(h) } else { x / 2f64.powi(-h) } };
    up(up(res, h), h2)
}

fn relerr(a: f64, b: f64) -> f64 {
    if a == b { return 0.0; }
    if !a.is_finite() || !b.is_finite() { return f64::INFINITY; }
    (a - b).abs() / b.abs().max(f64::MIN_POSITIVE)
}

#[test]
fn norm_sweep() {
    let mut g = Rng(77);
    let ps = [1.0, 1.5, 2.0, 3.0, 4.0, 7.3, 0.5, 10.0, 50.0];
    let mut worst = vec![(0.0f64, String::new()); 5];
    for case in 0..200000 {
        let r = match g.below(6) { 0 => 0, 1 => 1, _ => g.below(9) };
        let c = match g.below(6) { 0 => 0, 1 => 1, _ => g.below(9) };
        let class = g.below(11);
        let mut a = vec![vec![0.0f64; c]; r];
        let mut m = Mat64::new(r, c, 0.0);
        for i in 0..r { for j in 0..c { a[i][j] = val(&mut g, class); m[(i, j)] = a[i][j]; } }
        // norm_1
        let mut n1 = 0.0f64;
        for j in 0..c { let col: Vec<f64> = (0..r).map(|i| a[i][j].abs()).collect(); let s = csum(&col); if s > n1 { n1 = s; } }
        let mut ni = 0.0f64;
        for i in 0..r { let row: Vec<f64> = (0..c).map(|j| a[i][j].abs()).collect(); let s = csum(&row); if s > ni { ni = s; } }
        let mut nm = 0.0f64;
        for i in 0..r { for j in 0..c { if a[i][j].abs() > nm { nm = a[i][j].abs(); } } }
        let e = [relerr(m.norm_1(), n1), relerr(m.norm_inf(), ni), relerr(m.norm_max(), nm)];
        for (k, &x) in e.iter().enumerate() {
            if x > worst[k].0 { worst[k] = (x, format!("case {} class {} {:?} crate {:?}", case, class, a, [m.norm_1(), m.norm_inf(), m.norm_max()])); }
        }
        assert!(m.norm_max().to_bits() == nm.to_bits(), "norm_max {:?}", a);
        assert!(m.norm_1().is_sign_positive() && m.norm_inf().is_sign_positive());
        let p = ps[g.below(ps.len())];
        let got = m.norm_p(p);
        let want = ref_norm_p(&a, p);
        // allow legitimately overflowing results
        let x = if want.is_infinite() && got.is_infinite() { 0.0 } else { relerr(got, want) };
        if x > worst[3].0 { worst[3] = (x, format!("case {} class {} p {} {:?} crate {:e} ref {:e}", case, class, p, a, got, want)); }
        let gf = m.norm_frob(); let wf = ref_norm_p(&a, 2.0);
        let x = if wf.is_infinite() && gf.is_infinite() { 0.0 } else { relerr(gf, wf) };
        if x > worst[4].0 { worst[4] = (x, format!("case {} class {} {:?} crate {:e} ref {:e}", case, class, a, gf, wf)); }
    }
    for (k, w) in worst.iter().enumerate() { println!("worst[{}] = {:e}  {}", k, w.0, &w.1[..w.1.len().min(1500)]); }
    assert!(worst[0].0 < 1e-14 && worst[1].0 < 1e-14 && worst[2].0 == 0.0);
    assert!(worst[3].0 < 1e-11, "norm_p");
    assert!(worst[4].0 < 1e-13, "norm_frob");
}

#[test]
fn exhaustive_shapes_i64() {
    // all r x k times k x c, 0..=8, distinct integer entries
    for r in 0..=8usize { for k in 0..=8usize { for c in 0..=8usize {
        let mut a = Matrix::<i64>::new(r, k, 0);
        let mut b = Matrix::<i64>::new(k, c, 0);
        for i in 0..r { for l in 0..k { a[(i, l)] = (7 * i + 3 * l + 1) as i64 * if (i + l) % 3 == 0 { -1 } else { 1 }; } }
        for l in 0..k { for j in 0..c { b[(l, j)] = (5 * l + 11 * j + 2) as i64 * if (l * j) % 2 == 0 { -1 } else { 1 }; } }
        let p = &a * &b;
        assert_eq!((p.rows(), p.cols()), (r, c));
        assert_eq!(p.numel(), r * c);
        for i in 0..r { for j in 0..c {
            let mut s = 0i64; for l in 0..k { s += a[(i, l)] * b[(l, j)]; }
            assert_eq!(p[(i, j)], s, "{}x{} * {}x{} at ({},{})", r, k, k, c, i, j);
        } }
        // (AB)^T = B^T A^T
        let pt = b.transpose() * a.transpose();
        assert!(pt == p.transpose(), "{} {} {}", r, k, c);
        // transpose in place twice
        let mut t = a.clone(); t.transpose_in_place();
        assert_eq!((t.rows(), t.cols()), (k, r));
        for i in 0..r { for l in 0..k { assert_eq!(t[(l, i)], a[(i, l)]); } }
        t.transpose_in_place(); assert!(t == a);
        // matrix-vector
        if c > 0 {
            let v = b.get_col(c - 1);
            let av = a.clone() * v.clone();
            assert_eq!(av.size(), r);
            for i in 0..r { assert_eq!(av[i], p[(i, c - 1)]); }
        }
        let v0 = Vector::<i64>::new(k, 2);
        let w = a.multiply(&v0);
        assert_eq!(w.size(), r);
        for i in 0..r { let mut s = 0; for l in 0..k { s += 2 * a[(i, l)]; } assert_eq!(w[i], s); }
    } } }
}

#[test]
fn left_scalar_and_cmplx_neg() {
    let mut g = Rng(5);
    for _ in 0..2000 {
        let r = g.below(9); let c = g.below(9);
        let mut m = Mat64::new(r, c, 0.0);
        for i in 0..r { for j in 0..c { m[(i, j)] = val(&mut g, 3); } }
        let s = val(&mut g, 3);
        let l = s * m.clone();
        assert_eq!((l.rows(), l.cols()), (r, c));
        for i in 0..r { for j in 0..c { assert_eq!(l[(i, j)].to_bits(), (s * m[(i, j)]).to_bits()); } }
        let mut z = Matrix::<Cmplx>::new(r, c, Cmplx::new(0.0, 0.0));
        for i in 0..r { for j in 0..c { z[(i, j)] = Cmplx::new(val(&mut g, 3), val(&mut g, 3)); } }
        let n = -&z;
        for i in 0..r { for j in 0..c { assert_eq!(n[(i, j)].real.to_bits(), (-z[(i, j)].real).to_bits()); assert_eq!(n[(i, j)].imag.to_bits(), (-z[(i, j)].imag).to_bits()); } }
    }
}
