// Element access m[(i, j)] with an out-of-range column j >= cols silently reads / edits ANOTHER element
// ( row-major offset i * cols + j belongs to row i + 1 ) instead of being rejected, so an editing sequence
// containing such an access diverges from a naive reference model ( which rejects it and stays unchanged ).
use ohsl::Matrix;
use std::panic::{catch_unwind, AssertUnwindSafe};

#[test]
fn index_with_out_of_range_column_must_not_touch_another_element() {
    let mut m = Matrix::<i64>::new( 2, 3, 0 );
    for i in 0..2 { for j in 0..3 { m[(i, j)] = ( 10 * i + j ) as i64; } }
    let before = m.clone();
    // column 3 does not exist in a 2 x 3 matrix
    let write = catch_unwind( AssertUnwindSafe( || { m[(0, 3)] = 99; } ) );
    assert!( m == before, "m[(0, 3)] = 99 on a 2 x 3 matrix changed element (1, 0): {:?}", m );
    assert!( write.is_err(), "m[(0, 3)] = 99 on a 2 x 3 matrix was accepted" );
    let read = catch_unwind( AssertUnwindSafe( || m[(0, 3)] ) );
    assert!( read.is_err(), "m[(0, 3)] on a 2 x 3 matrix returned {:?} ( the element (1, 0) )", read );
}
