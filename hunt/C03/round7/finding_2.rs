// fill_band with an offset far outside the matrix sets no element by definition ( no (i, j) has j - i = offset );
// the crate computes ( row as isize ) + offset unchecked and panics with "attempt to add with overflow"
// in builds with overflow checks ( cargo test / debug ) as soon as the matrix has two rows.
use ohsl::Matrix;

#[test]
fn fill_band_beyond_the_matrix_is_a_no_op() {
    let mut m = Matrix::<i64>::new( 2, 2, 7 );
    let before = m.clone();
    m.fill_band( isize::MAX, 1 );
    assert!( m == before );
    m.fill_band( isize::MIN, 1 );
    assert!( m == before );
}
