// Matrix<f64>::norm_p is documented as "p=2 is Frobenius, p=inf is max norm",
// but norm_p(f64::INFINITY) returns 1 for every non-empty matrix.
use ohsl::matrix::Mat64;

#[test]
fn norm_p_infinity_is_the_max_norm() {
    let m = Mat64::new(1, 1, 7.0);
    assert_eq!(m.norm_p(f64::INFINITY), 7.0, "norm_p(inf) of [7]");
}

#[test]
fn norm_p_infinity_agrees_with_norm_max_on_2x3() {
    let mut m = Mat64::new(2, 3, 0.5);
    m[(0, 1)] = -0.75;
    m[(1, 2)] = 0.25;
    assert_eq!(m.norm_max(), 0.75);
    assert_eq!(m.norm_p(f64::INFINITY), m.norm_max());
}
