// Matrix<f64>::norm_frob / norm_p overflow to inf (or underflow to 0) on finite entries
// whose p-th power leaves the f64 range, although the norm itself is representable.
use ohsl::matrix::Mat64;

fn close(got: f64, want: f64) -> bool { got.is_finite() && (got - want).abs() <= 1e-12 * want }

#[test]
fn frobenius_norm_of_1x1_large_entry() {
    let m = Mat64::new(1, 1, 1e200);
    // textbook: ||[x]||_F = |x|
    assert!(close(m.norm_frob(), 1e200), "norm_frob([1e200]) = {:e}", m.norm_frob());
}

#[test]
fn frobenius_norm_of_1x1_small_entry() {
    let m = Mat64::new(1, 1, 1e-200);
    assert!(close(m.norm_frob(), 1e-200), "norm_frob([1e-200]) = {:e}", m.norm_frob());
}

#[test]
fn frobenius_norm_is_bracketed_by_max_and_sum() {
    // max|a_ij| <= ||A||_F <= sum|a_ij| for every matrix; mixture of large and small entries
    let mut m = Mat64::new(2, 3, 1.0);
    m[(1, 2)] = -3e160;
    m[(0, 1)] = 4e160;
    let f = m.norm_frob();
    assert!(close(f, 5e160), "norm_frob = {:e}, want 5e160", f);
    assert!(m.norm_max() <= f && f <= m.norm_p(1.0));
}

#[test]
fn entrywise_3_norm_of_1x1() {
    let m = Mat64::new(1, 1, 1e120);
    assert!(close(m.norm_p(3.0), 1e120), "norm_p(3)([1e120]) = {:e}", m.norm_p(3.0));
}
