use ohsl::matrix::Matrix;
use ohsl::vector::Vector;
use std::panic::{catch_unwind, AssertUnwindSafe};

struct Rng(u64);
impl Rng {
    fn next(&mut self) -> u64 { self.0 ^= self.0 << 13; self.0 ^= self.0 >> 7; self.0 ^= self.0 << 17; self.0 }
    fn small(&mut self) -> i64 { (self.next() % 7) as i64 - 3 }
}

#[test]
fn exhaustive_products_all_types() {
    let mut rng = Rng(77);
    for r in 0..=8usize { for k in 0..=8usize { for c in 0..=8usize {
        let a: Vec<Vec<i64>> = (0..r).map(|_| (0..k).map(|_| rng.small()).collect()).collect();
        let b: Vec<Vec<i64>> = (0..k).map(|_| (0..c).map(|_| rng.small()).collect()).collect();
        let mut want = vec![vec![0i64; c]; r];
        for i in 0..r { for j in 0..c { for l in 0..k { want[i][j] += a[i][l] * b[l][j]; } } }
        macro_rules! go { ($t:ty, $conv:expr) => {{
            let mut am = Matrix::<$t>::new(r, k, $conv(0));
            let mut bm = Matrix::<$t>::new(k, c, $conv(0));
            for i in 0..r { for l in 0..k { am[(i,l)] = $conv(a[i][l]); } }
            for l in 0..k { for j in 0..c { bm[(l,j)] = $conv(b[l][j]); } }
            let p = &am * &bm;
            assert_eq!((p.rows(), p.cols()), (r, c));
            for i in 0..r { for j in 0..c { assert_eq!(p[(i,j)], $conv(want[i][j]), "{}x{}x{}", r, k, c); } }
            let p2 = am.clone() * bm.clone();
            assert!(p == p2);
            // (AB)^T = B^T A^T
            let pt = &bm.transpose() * &am.transpose();
            assert!(pt == p.transpose());
        }}}
        go!(i64, |x: i64| x);
        go!(i16, |x: i64| x as i16);
        go!(isize, |x: i64| x as isize);
        go!(f64, |x: i64| x as f64);
        go!(f32, |x: i64| x as f32);
    } } }
}

#[test]
fn unsigned_types() {
    // unsigned element types: products, sums, eye, transposes, edits
    let mut rng = Rng(5);
    for r in 0..=8usize { for k in 0..=8usize { for c in 0..=8usize {
        let a: Vec<Vec<u64>> = (0..r).map(|_| (0..k).map(|_| rng.next() % 4).collect()).collect();
        let b: Vec<Vec<u64>> = (0..k).map(|_| (0..c).map(|_| rng.next() % 4).collect()).collect();
        let mut want = vec![vec![0u64; c]; r];
        for i in 0..r { for j in 0..c { for l in 0..k { want[i][j] += a[i][l] * b[l][j]; } } }
        macro_rules! go { ($t:ty) => {{
            let mut am = Matrix::<$t>::new(r, k, 0);
            let mut bm = Matrix::<$t>::new(k, c, 0);
            for i in 0..r { for l in 0..k { am[(i,l)] = a[i][l] as $t; } }
            for l in 0..k { for j in 0..c { bm[(l,j)] = b[l][j] as $t; } }
            let p = &am * &bm;
            assert_eq!((p.rows(), p.cols()), (r, c));
            for i in 0..r { for j in 0..c { assert_eq!(p[(i,j)], want[i][j] as $t); } }
            let e = Matrix::<$t>::eye(k);
            assert!(&am * &e == am);
            let mut s = am.clone(); s += 3 as $t; s -= 3 as $t; assert!(s == am);
            let d = &(&am + &am) - &am; assert!(d == am);
            let mut t = am.clone(); t.transpose_in_place(); t.transpose_in_place(); assert!(t == am);
            let h = &(&am * (2 as $t)) / (2 as $t); assert!(h == am);
        }}}
        go!(u8); go!(u16); go!(u32); go!(u64); go!(usize);
    } } }
}

#[test]
fn fill_band_extreme_offsets() {
    for r in 0..=8usize { for c in 0..=8usize {
        for &off in &[isize::MIN, isize::MIN + 1, -(r as isize) - 1, -(r as isize), -(r as isize) + 1, -1, 0, 1,
                      c as isize - 1, c as isize, c as isize + 1, isize::MAX - 8, isize::MAX - 1, isize::MAX] {
            let mut m = Matrix::<i64>::new(r, c, 0);
            let res = catch_unwind(AssertUnwindSafe(|| m.fill_band(off, 7)));
            assert!(res.is_ok(), "fill_band({}) panicked on {}x{}", off, r, c);
            for i in 0..r { for j in 0..c {
                let on = (j as i128) - (i as i128) == off as i128;
                assert_eq!(m[(i,j)], if on { 7 } else { 0 }, "fill_band({}) {}x{} at ({},{})", off, r, c, i, j);
            } }
        }
    } }
}

fn ref_norms(a: &Vec<Vec<f64>>, r: usize, c: usize) -> (f64, f64, f64, f64) {
    let mut n1: f64 = 0.0; for j in 0..c { let mut s = 0.0; for i in 0..r { s += a[i][j].abs(); } if s > n1 { n1 = s; } }
    let mut ni: f64 = 0.0; for i in 0..r { let mut s = 0.0; for j in 0..c { s += a[i][j].abs(); } if s > ni { ni = s; } }
    let mut nm: f64 = 0.0; for i in 0..r { for j in 0..c { if a[i][j].abs() > nm { nm = a[i][j].abs(); } } }
    let mut f = 0.0; for i in 0..r { for j in 0..c { f += a[i][j] * a[i][j]; } }
    (n1, ni, nm, f.sqrt())
}

#[test]
fn norms_all_shapes() {
    let mut rng = Rng(123);
    for r in 0..=8usize { for c in 0..=8usize { for rep in 0..20 {
        let a: Vec<Vec<f64>> = (0..r).map(|_| (0..c).map(|_| {
            let v = rng.small() as f64;
            match rep % 4 { 0 => v, 1 => v * 0.25, 2 => if v == 0.0 { -0.0 } else { v }, _ => -v.abs() }
        }).collect()).collect();
        let mut m = Matrix::<f64>::new(r, c, 0.0);
        for i in 0..r { for j in 0..c { m[(i,j)] = a[i][j]; } }
        let (n1, ni, nm, nf) = ref_norms(&a, r, c);
        assert_eq!(m.norm_1(), n1, "norm_1 {}x{}", r, c);
        assert_eq!(m.norm_inf(), ni, "norm_inf {}x{}", r, c);
        assert_eq!(m.norm_max(), nm, "norm_max {}x{}", r, c);
        assert!((m.norm_frob() - nf).abs() <= 4.0 * f64::EPSILON * nf, "frob {}x{}", r, c);
        assert!((m.norm_p(2.0) - nf).abs() <= 4.0 * f64::EPSILON * nf);
        assert!((m.norm_p(1.0) - a.iter().flatten().map(|x| x.abs()).sum::<f64>()).abs() <= 1e-13 * (1.0 + nf * 64.0));
        for &p in &[1.5, 3.0, 4.0, 7.0, 10.0, 50.0, 400.0, 1000.0] {
            // reference: scaled form
            let got = m.norm_p(p);
            let want = if nm == 0.0 { 0.0 } else { nm * a.iter().flatten().map(|x| (x.abs() / nm).powf(p)).sum::<f64>().powf(1.0 / p) };
            assert!((got - want).abs() <= 1e-12 * want, "norm_p({}) {}x{}: {} vs {}", p, r, c, got, want);
            assert!(got.is_sign_positive());
        }
        // norm of the transpose: 1 <-> inf
        let t = m.transpose();
        assert_eq!(t.norm_1(), ni); assert_eq!(t.norm_inf(), n1); assert_eq!(t.norm_max(), nm);
        // after an edit through a different path the norm follows
        if r > 0 && c > 0 {
            let mut e = m.clone();
            e.fill_row(r - 1, -9.0);
            assert_eq!(e.norm_max(), 9.0);
            assert_eq!(e.norm_inf(), (9.0 * c as f64).max(ref_norms(&a[..r-1].to_vec(), r - 1, c).1));
            e.delete_row(r - 1);
            assert_eq!(e.norm_inf(), ref_norms(&a[..r-1].to_vec(), r - 1, c).1);
            assert_eq!(e.norm_1(), ref_norms(&a[..r-1].to_vec(), r - 1, c).0);
        }
    } } }
}

#[test]
fn norms_magnitudes() {
    // mixtures of magnitudes, inside f64 range of the result
    let mags = [5e-324, 1e-310, 1e-300, 1e-200, 1e-160, 1e-150, 1e-135, 1e-100, 1e-10, 1.0, 3.0, 1e10, 1e100, 1e135, 1e150, 1e160, 1e200, 1e300, 1e307];
    for &x in &mags { for &y in &mags {
        for &(r, c) in &[(1usize, 2usize), (2, 1), (2, 2), (3, 5)] {
            let mut m = Matrix::<f64>::new(r, c, 0.0);
            m[(0, 0)] = -x; m[(r - 1, c - 1)] = y;
            let hi = x.max(y); let lo = x.min(y);
            let want2 = hi * (1.0 + (lo / hi) * (lo / hi)).sqrt();
            let got = m.norm_frob();
            assert!((got - want2).abs() <= 1e-14 * want2, "frob [{},{}] {}x{}: {} vs {}", x, y, r, c, got, want2);
            for &p in &[1.0, 1.5, 3.0, 10.0, 100.0] {
                let want = hi * (1.0 + (lo / hi).powf(p)).powf(1.0 / p);
                let got = m.norm_p(p);
                assert!((got - want).abs() <= 1e-13 * want, "norm_p({}) [{},{}] {}x{}: {} vs {}", p, x, y, r, c, got, want);
            }
            assert_eq!(m.norm_max(), hi);
            if (r, c) == (1, 2) { assert_eq!(m.norm_1(), hi); assert_eq!(m.norm_inf(), x + y); }
            if (r, c) == (2, 1) { assert_eq!(m.norm_inf(), hi); assert_eq!(m.norm_1(), x + y); }
        }
    } }
}

#[test]
fn matvec_sizes_beyond() {
    // sizes 7..70, exact integers
    let mut rng = Rng(9);
    for &(r, c) in &[(7usize, 70usize), (70, 7), (1, 300), (300, 1), (33, 34), (64, 64), (0, 50), (50, 0)] {
        let a: Vec<Vec<i64>> = (0..r).map(|_| (0..c).map(|_| rng.small()).collect()).collect();
        let x: Vec<i64> = (0..c).map(|_| rng.small()).collect();
        let mut m = Matrix::<i64>::new(r, c, 0);
        for i in 0..r { for j in 0..c { m[(i,j)] = a[i][j]; } }
        let y = m.multiply(&Vector::create(x.clone()));
        assert_eq!(y.size(), r);
        for i in 0..r { assert_eq!(y[i], (0..c).map(|j| a[i][j] * x[j]).sum::<i64>()); }
        let t = m.transpose();
        assert_eq!((t.rows(), t.cols()), (c, r));
        for i in 0..r { for j in 0..c { assert_eq!(t[(j,i)], a[i][j]); } }
        let g = &t * &m; // c x c Gram
        for i in 0..c.min(10) { for j in 0..c.min(10) { assert_eq!(g[(i,j)], (0..r).map(|l| a[l][i] * a[l][j]).sum::<i64>()); } }
    }
}

#[test]
fn scalar_forms_f64() {
    let mut rng = Rng(31);
    for r in 0..=8usize { for c in 0..=8usize {
        let mut m = Matrix::<f64>::new(r, c, 0.0);
        for i in 0..r { for j in 0..c { m[(i,j)] = rng.small() as f64 * 0.5; } }
        for &s in &[0.0, -0.0, 1.0, -1.0, 2.0, 0.5, -4.0, 3.0, 1e300, 1e-300] {
            let a = &m * s; let b = m.clone() * s; let c2 = s * m.clone(); let mut d = m.clone(); d *= s;
            for i in 0..r { for j in 0..c {
                let w = m[(i,j)] * s;
                assert!(a[(i,j)] == w && b[(i,j)] == w && c2[(i,j)] == w && d[(i,j)] == w);
            } }
            if s != 0.0 {
                let a = &m / s; let b = m.clone() / s; let mut d = m.clone(); d /= s;
                for i in 0..r { for j in 0..c {
                    let w = m[(i,j)] / s;
                    assert!(a[(i,j)] == w && b[(i,j)] == w && d[(i,j)] == w);
                } }
            }
            let mut p = m.clone(); p += s; let mut q = m.clone(); q -= s;
            for i in 0..r { for j in 0..c { assert!(p[(i,j)] == m[(i,j)] + s && q[(i,j)] == m[(i,j)] - s); } }
            assert_eq!((a.rows(), a.cols(), b.rows(), b.cols(), c2.rows(), c2.cols()), (r, c, r, c, r, c));
        }
    } }
}
