// Differential history test: Matrix<T> against a Vec<Vec<(i64,i64)>> Gaussian-integer reference model
use ohsl::matrix::Matrix;
use ohsl::vector::Vector;
use ohsl::complex::Complex;
use ohsl::traits::{Number, Signed};
use std::panic::{catch_unwind, AssertUnwindSafe};
use std::fmt::Debug;

type G = (i64, i64);
fn gadd(a: G, b: G) -> G { (a.0 + b.0, a.1 + b.1) }
fn gsub(a: G, b: G) -> G { (a.0 - b.0, a.1 - b.1) }
fn gmul(a: G, b: G) -> G { (a.0 * b.0 - a.1 * b.1, a.0 * b.1 + a.1 * b.0) }
fn gneg(a: G) -> G { (-a.0, -a.1) }

trait Elem: Copy + Number + Signed + Debug + std::ops::Neg<Output = Self> {
    const CPLX: bool;
    fn from_g(g: G) -> Self;
    fn to_g(self) -> G;
}
impl Elem for i64 { const CPLX: bool = false; fn from_g(g: G) -> Self { g.0 } fn to_g(self) -> G { (self, 0) } }
impl Elem for i32 { const CPLX: bool = false; fn from_g(g: G) -> Self { g.0 as i32 } fn to_g(self) -> G { (self as i64, 0) } }
impl Elem for f64 { const CPLX: bool = false; fn from_g(g: G) -> Self { g.0 as f64 } fn to_g(self) -> G { assert!(self.fract() == 0.0); (self as i64, 0) } }
impl Elem for f32 { const CPLX: bool = false; fn from_g(g: G) -> Self { g.0 as f32 } fn to_g(self) -> G { assert!(self.fract() == 0.0); (self as i64, 0) } }
impl Elem for Complex<f64> {
    const CPLX: bool = true;
    fn from_g(g: G) -> Self { Complex::new(g.0 as f64, g.1 as f64) }
    fn to_g(self) -> G { assert!(self.real.fract() == 0.0 && self.imag.fract() == 0.0); (self.real as i64, self.imag as i64) }
}

struct Rng(u64);
impl Rng {
    fn next(&mut self) -> u64 { self.0 ^= self.0 << 13; self.0 ^= self.0 >> 7; self.0 ^= self.0 << 17; self.0 }
    fn below(&mut self, n: usize) -> usize { (self.next() % (n as u64)) as usize }
    fn small(&mut self) -> i64 { (self.next() % 5) as i64 - 2 }
    fn g<T: Elem>(&mut self) -> G { if T::CPLX { (self.small(), self.small()) } else { (self.small(), 0) } }
}

#[derive(Clone, Debug, PartialEq)]
struct Ref { r: usize, c: usize, a: Vec<Vec<G>> }
impl Ref {
    fn new(r: usize, c: usize, v: G) -> Ref { Ref { r, c, a: vec![vec![v; c]; r] } }
    fn rand<T: Elem>(r: usize, c: usize, rng: &mut Rng) -> Ref {
        let mut m = Ref::new(r, c, (0, 0));
        for i in 0..r { for j in 0..c { m.a[i][j] = rng.g::<T>(); } }
        m
    }
    fn to_m<T: Elem>(&self) -> Matrix<T> {
        let mut m = Matrix::<T>::new(self.r, self.c, T::from_g((0, 0)));
        for i in 0..self.r { for j in 0..self.c { m[(i, j)] = T::from_g(self.a[i][j]); } }
        m
    }
    fn t(&self) -> Ref {
        let mut m = Ref::new(self.c, self.r, (0, 0));
        for i in 0..self.r { for j in 0..self.c { m.a[j][i] = self.a[i][j]; } }
        m
    }
    fn mul(&self, o: &Ref) -> Ref {
        assert_eq!(self.c, o.r);
        let mut m = Ref::new(self.r, o.c, (0, 0));
        for i in 0..self.r { for j in 0..o.c { for k in 0..self.c {
            m.a[i][j] = gadd(m.a[i][j], gmul(self.a[i][k], o.a[k][j]));
        } } }
        m
    }
    fn map(&self, f: impl Fn(G) -> G) -> Ref {
        let mut m = self.clone();
        for i in 0..self.r { for j in 0..self.c { m.a[i][j] = f(self.a[i][j]); } }
        m
    }
    fn zip(&self, o: &Ref, f: impl Fn(G, G) -> G) -> Ref {
        assert!(self.r == o.r && self.c == o.c);
        let mut m = self.clone();
        for i in 0..self.r { for j in 0..self.c { m.a[i][j] = f(self.a[i][j], o.a[i][j]); } }
        m
    }
    fn maxabs(&self) -> i64 { self.a.iter().flatten().map(|g| g.0.abs().max(g.1.abs())).max().unwrap_or(0) }
}

fn vec_of<T: Elem>(v: &[G]) -> Vector<T> { Vector::create(v.iter().map(|&g| T::from_g(g)).collect()) }

fn check<T: Elem>(m: &Matrix<T>, r: &Ref, rng: &mut Rng, ctx: &str) {
    assert_eq!(m.rows(), r.r, "rows {}", ctx);
    assert_eq!(m.cols(), r.c, "cols {}", ctx);
    assert_eq!(m.numel(), r.r * r.c, "numel {}", ctx);
    for i in 0..r.r { for j in 0..r.c { assert_eq!(m[(i, j)].to_g(), r.a[i][j], "entry ({},{}) {}", i, j, ctx); } }
    for i in 0..r.r {
        let v = m.get_row(i);
        assert_eq!(v.size(), r.c);
        for j in 0..r.c { assert_eq!(v[j].to_g(), r.a[i][j], "get_row {}", ctx); }
    }
    for j in 0..r.c {
        let v = m.get_col(j);
        assert_eq!(v.size(), r.r);
        for i in 0..r.r { assert_eq!(v[i].to_g(), r.a[i][j], "get_col {}", ctx); }
    }
    assert!(catch_unwind(AssertUnwindSafe(|| m.get_row(r.r))).is_err(), "get_row oob {}", ctx);
    assert!(catch_unwind(AssertUnwindSafe(|| m.get_col(r.c))).is_err(), "get_col oob {}", ctx);
    // equality with a freshly built matrix (PartialEq looks at the buffer, so len == rows*cols matters)
    assert!(*m == r.to_m::<T>(), "PartialEq {}", ctx);
    assert!(m.clone() == *m);
    // matrix-vector product through three entry points
    let x: Vec<G> = (0..r.c).map(|_| rng.g::<T>()).collect();
    let want: Vec<G> = (0..r.r).map(|i| (0..r.c).fold((0, 0), |s, j| gadd(s, gmul(r.a[i][j], x[j])))).collect();
    let xv = vec_of::<T>(&x);
    let y1 = m.multiply(&xv);
    let y2 = m * &xv;
    let y3 = m.clone() * xv.clone();
    for y in [&y1, &y2, &y3] {
        assert_eq!(y.size(), r.r, "matvec size {}", ctx);
        for i in 0..r.r { assert_eq!(y[i].to_g(), want[i], "matvec {}", ctx); }
    }
    // wrong-length vector must be refused
    let mut xl = x.clone(); xl.push((1, 0));
    assert!(catch_unwind(AssertUnwindSafe(|| m.multiply(&vec_of::<T>(&xl)))).is_err(), "matvec long {}", ctx);
    if r.c > 0 {
        xl.pop(); xl.pop();
        assert!(catch_unwind(AssertUnwindSafe(|| m.multiply(&vec_of::<T>(&xl)))).is_err(), "matvec short {}", ctx);
    }
    // formatting must not panic for any shape
    let _ = format!("{:?} {}", m, m);
}

// apply one random op to both; returns a description
fn step<T: Elem>(m: &mut Matrix<T>, r: &mut Ref, rng: &mut Rng) -> String {
    // keep magnitudes bounded so that every value stays exactly representable
    if r.maxabs() > 100_000 {
        let v = rng.g::<T>();
        m.fill(T::from_g(v));
        *r = r.map(|_| v);
        return format!("fill(reset {:?})", v);
    }
    let op = rng.below(40);
    match op {
        0 => { // set_row, possibly bad
            let i = rng.below(r.r + 2);
            let len = if rng.below(4) == 0 { rng.below(10) } else { r.c };
            let v: Vec<G> = (0..len).map(|_| rng.g::<T>()).collect();
            let res = catch_unwind(AssertUnwindSafe(|| m.set_row(i, vec_of::<T>(&v))));
            let ok = i < r.r && len == r.c;
            assert_eq!(res.is_ok(), ok, "set_row({}, len {}) on {}x{}", i, len, r.r, r.c);
            if ok { r.a[i] = v.clone(); }
            format!("set_row({}, {:?})", i, v)
        }
        1 => {
            let j = rng.below(r.c + 2);
            let len = if rng.below(4) == 0 { rng.below(10) } else { r.r };
            let v: Vec<G> = (0..len).map(|_| rng.g::<T>()).collect();
            let res = catch_unwind(AssertUnwindSafe(|| m.set_col(j, vec_of::<T>(&v))));
            let ok = j < r.c && len == r.r;
            assert_eq!(res.is_ok(), ok, "set_col({}, len {}) on {}x{}", j, len, r.r, r.c);
            if ok { for i in 0..r.r { r.a[i][j] = v[i]; } }
            format!("set_col({}, {:?})", j, v)
        }
        2 => {
            let i = rng.below(r.r + 2);
            let res = catch_unwind(AssertUnwindSafe(|| m.delete_row(i)));
            assert_eq!(res.is_ok(), i < r.r, "delete_row({}) on {}x{}", i, r.r, r.c);
            if i < r.r { r.a.remove(i); r.r -= 1; }
            format!("delete_row({})", i)
        }
        3 => {
            let i = rng.below(r.r + 2); let k = rng.below(r.r + 2);
            let res = catch_unwind(AssertUnwindSafe(|| m.swap_rows(i, k)));
            let ok = i < r.r && k < r.r;
            assert_eq!(res.is_ok(), ok, "swap_rows({},{}) on {}x{}", i, k, r.r, r.c);
            if ok { r.a.swap(i, k); }
            format!("swap_rows({},{})", i, k)
        }
        4 => {
            let i1 = rng.below(r.r + 2); let j1 = rng.below(r.c + 2);
            let i2 = rng.below(r.r + 2); let j2 = rng.below(r.c + 2);
            let res = catch_unwind(AssertUnwindSafe(|| m.swap_elem(i1, j1, i2, j2)));
            let ok = i1 < r.r && i2 < r.r && j1 < r.c && j2 < r.c;
            assert_eq!(res.is_ok(), ok, "swap_elem({},{},{},{}) on {}x{}", i1, j1, i2, j2, r.r, r.c);
            if ok { let t = r.a[i1][j1]; r.a[i1][j1] = r.a[i2][j2]; r.a[i2][j2] = t; }
            format!("swap_elem({},{},{},{})", i1, j1, i2, j2)
        }
        5 => { let v = rng.g::<T>(); m.fill(T::from_g(v)); *r = r.map(|_| v); format!("fill({:?})", v) }
        6 => {
            let v = rng.g::<T>(); m.fill_diag(T::from_g(v));
            for i in 0..r.r.min(r.c) { r.a[i][i] = v; }
            format!("fill_diag({:?})", v)
        }
        7 => {
            let off = rng.below(23) as isize - 11;
            let v = rng.g::<T>(); m.fill_band(off, T::from_g(v));
            for i in 0..r.r { let j = i as isize + off; if j >= 0 && (j as usize) < r.c { r.a[i][j as usize] = v; } }
            format!("fill_band({}, {:?})", off, v)
        }
        8 => {
            let (l, d, u) = (rng.g::<T>(), rng.g::<T>(), rng.g::<T>());
            m.fill_tridiag(T::from_g(l), T::from_g(d), T::from_g(u));
            for i in 0..r.r { for j in 0..r.c {
                if j + 1 == i { r.a[i][j] = l; } else if i == j { r.a[i][j] = d; } else if j == i + 1 { r.a[i][j] = u; }
            } }
            format!("fill_tridiag({:?},{:?},{:?})", l, d, u)
        }
        9 => {
            let i = rng.below(r.r + 2); let v = rng.g::<T>();
            let res = catch_unwind(AssertUnwindSafe(|| m.fill_row(i, T::from_g(v))));
            assert_eq!(res.is_ok(), i < r.r, "fill_row({}) on {}x{}", i, r.r, r.c);
            if i < r.r { for j in 0..r.c { r.a[i][j] = v; } }
            format!("fill_row({}, {:?})", i, v)
        }
        10 => {
            let j = rng.below(r.c + 2); let v = rng.g::<T>();
            let res = catch_unwind(AssertUnwindSafe(|| m.fill_col(j, T::from_g(v))));
            assert_eq!(res.is_ok(), j < r.c, "fill_col({}) on {}x{}", j, r.r, r.c);
            if j < r.c { for i in 0..r.r { r.a[i][j] = v; } }
            format!("fill_col({}, {:?})", j, v)
        }
        11 | 12 => {
            let nr = rng.below(9); let nc = rng.below(9);
            m.resize(nr, nc);
            let mut n = Ref::new(nr, nc, (0, 0));
            for i in 0..nr.min(r.r) { for j in 0..nc.min(r.c) { n.a[i][j] = r.a[i][j]; } }
            *r = n;
            format!("resize({},{})", nr, nc)
        }
        13 | 14 => { m.transpose_in_place(); *r = r.t(); "transpose_in_place".into() }
        15 => { *m = m.transpose(); *r = r.t(); "transpose".into() }
        16 => { let s = rng.g::<T>(); *m += T::from_g(s); *r = r.map(|x| gadd(x, s)); format!("+= {:?}", s) }
        17 => { let s = rng.g::<T>(); *m -= T::from_g(s); *r = r.map(|x| gsub(x, s)); format!("-= {:?}", s) }
        18 => { let s = rng.g::<T>(); *m *= T::from_g(s); *r = r.map(|x| gmul(x, s)); format!("*= {:?}", s) }
        19 => { let s = rng.g::<T>(); *m = &*m * T::from_g(s); *r = r.map(|x| gmul(x, s)); format!("&m * {:?}", s) }
        20 => { let s = rng.g::<T>(); *m = m.clone() * T::from_g(s); *r = r.map(|x| gmul(x, s)); format!("m * {:?}", s) }
        21 => { *m = -&*m; *r = r.map(gneg); "-&m".into() }
        22 => { *m = -m.clone(); *r = r.map(gneg); "-m".into() }
        23..=28 => {
            // element-wise binary with a possibly mismatched operand
            let bad = rng.below(5) == 0;
            let (orr, oc) = if bad { (rng.below(9), rng.below(9)) } else { (r.r, r.c) };
            let o = Ref::rand::<T>(orr, oc, rng);
            let om = o.to_m::<T>();
            let ok = orr == r.r && oc == r.c;
            let before = m.clone();
            let res = catch_unwind(AssertUnwindSafe(|| match op {
                23 => { *m += &om; }
                24 => { *m += om.clone(); }
                25 => { *m -= &om; }
                26 => { *m -= om.clone(); }
                27 => { let t = &*m + &om; let t2 = m.clone() + om.clone(); assert!(t == t2); *m = t; }
                _ => { let t = &*m - &om; let t2 = m.clone() - om.clone(); assert!(t == t2); *m = t; }
            }));
            assert_eq!(res.is_ok(), ok, "binary op {} {}x{} with {}x{}", op, r.r, r.c, orr, oc);
            if ok {
                *r = if op == 23 || op == 24 || op == 27 { r.zip(&o, gadd) } else { r.zip(&o, gsub) };
            } else { assert!(*m == before, "failed binary op modified the matrix"); }
            format!("binop {} with {}x{}", op, orr, oc)
        }
        29..=32 => {
            // product on the right / left, possibly non-conformable
            let bad = rng.below(5) == 0;
            let right = op < 31;
            let inner = if right { r.c } else { r.r };
            let k = if bad { rng.below(9) } else { inner };
            let n = rng.below(9);
            let o = if right { Ref::rand::<T>(k, n, rng) } else { Ref::rand::<T>(n, k, rng) };
            let om = o.to_m::<T>();
            let ok = k == inner;
            let res = catch_unwind(AssertUnwindSafe(|| {
                if right { let t = &*m * &om; let t2 = m.clone() * om.clone(); assert!(t == t2); t }
                else { let t = &om * &*m; let t2 = om.clone() * m.clone(); assert!(t == t2); t }
            }));
            assert_eq!(res.is_ok(), ok, "product {}x{} with {}x{} right={}", r.r, r.c, o.r, o.c, right);
            if let Ok(t) = res { *m = t; *r = if right { r.mul(&o) } else { o.mul(r) }; }
            format!("product right={} with {}x{}", right, o.r, o.c)
        }
        33 => { m.clear(); *r = Ref::new(0, 0, (0, 0)); "clear".into() }
        34 => { let n = rng.below(9); *m = Matrix::<T>::eye(n); *r = Ref::new(n, n, (0, 0)); for i in 0..n { r.a[i][i] = (1, 0); } format!("eye({})", n) }
        35 => {
            let nr = rng.below(9); let nc = rng.below(9); let v = rng.g::<T>();
            *m = Matrix::<T>::new(nr, nc, T::from_g(v)); *r = Ref::new(nr, nc, v);
            format!("new({},{},{:?})", nr, nc, v)
        }
        36 => { *m = Matrix::<T>::empty(); *r = Ref::new(0, 0, (0, 0)); "empty".into() }
        37 => { // write through IndexMut at a valid position
            if r.r > 0 && r.c > 0 {
                let i = rng.below(r.r); let j = rng.below(r.c); let v = rng.g::<T>();
                m[(i, j)] = T::from_g(v); r.a[i][j] = v;
                format!("m[({},{})] = {:?}", i, j, v)
            } else { "noop".into() }
        }
        38 => { // double transpose through different entry points
            let t = m.transpose(); let mut tt = t.clone(); tt.transpose_in_place();
            assert!(tt == *m, "transpose twice");
            "tt".into()
        }
        _ => { // A * I and I * A
            let il = Matrix::<T>::eye(r.r); let ir = Matrix::<T>::eye(r.c);
            assert!(&il * &*m == *m, "I*A"); assert!(&*m * &ir == *m, "A*I");
            "ident".into()
        }
    }
}

fn run<T: Elem>(seed0: u64, runs: usize, steps: usize) {
    let prev = std::panic::take_hook();
    std::panic::set_hook(Box::new(|_| {}));
    let result = catch_unwind(|| {
        for run in 0..runs {
            let mut rng = Rng(seed0 + 0x9E3779B97F4A7C15u64.wrapping_mul(run as u64 + 1));
            let r0 = rng.below(9); let c0 = rng.below(9);
            let mut r = Ref::rand::<T>(r0, c0, &mut rng);
            let mut m = r.to_m::<T>();
            let mut hist: Vec<String> = vec![format!("start {}x{}", r0, c0)];
            for _ in 0..steps {
                let h2 = hist.clone();
                let res = catch_unwind(AssertUnwindSafe(|| {
                    let d = step(&mut m, &mut r, &mut rng);
                    d
                }));
                match res {
                    Ok(d) => hist.push(d),
                    Err(e) => {
                        let msg = e.downcast_ref::<String>().cloned().or_else(|| e.downcast_ref::<&str>().map(|s| s.to_string())).unwrap_or_default();
                        panic!("run {} step failed: {} ; history {:?}", run, msg, h2);
                    }
                }
                let ctx = format!("{:?}", hist);
                let res = catch_unwind(AssertUnwindSafe(|| check(&m, &r, &mut rng, "")));
                if let Err(e) = res {
                    let msg = e.downcast_ref::<String>().cloned().or_else(|| e.downcast_ref::<&str>().map(|s| s.to_string())).unwrap_or_default();
                    panic!("run {} check failed: {} ; history {}", run, msg, ctx);
                }
            }
        }
    });
    std::panic::set_hook(prev);
    if let Err(e) = result {
        let msg = e.downcast_ref::<String>().cloned().or_else(|| e.downcast_ref::<&str>().map(|s| s.to_string())).unwrap_or_default();
        panic!("{}", msg);
    }
}

#[test] fn hist_i64() { run::<i64>(1, 1500, 60); }
#[test] fn hist_i32() { run::<i32>(2, 800, 40); }
#[test] fn hist_f64() { run::<f64>(3, 1500, 60); }
#[test] fn hist_f32() { run::<f32>(4, 800, 40); }
#[test] fn hist_cplx() { run::<Complex<f64>>(5, 1500, 60); }
