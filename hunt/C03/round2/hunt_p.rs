use ohsl::matrix::Matrix;
#[test]
fn big_p() {
    let mut m = Matrix::<f64>::new(2, 3, 0.0);
    let vals = [3.0, -7.0, 0.5, 7.0, -0.0, 1e-300];
    for i in 0..2 { for j in 0..3 { m[(i,j)] = vals[i*3+j]; } }
    for &p in &[1e3, 1e6, 1e17, 1e300, f64::MAX] {
        let got = m.norm_p(p);
        let want = 7.0 * 2f64.powf(1.0/p);
        println!("p={} got={} want={}", p, got, want);
        assert!((got - want).abs() <= 1e-12 * want);
    }
    // 1x1 signed zero product observation
    let a = Matrix::<f64>::new(1,1,-0.0);
    let b = Matrix::<f64>::new(1,1,1.0);
    println!("(-0)*1 = {:?}", (&a * &b)[(0,0)]);
    // many entries, moderate sizes
    for n in [7usize, 33, 70] {
        let m = Matrix::<f64>::new(n, n+3, -2.0);
        assert_eq!(m.norm_1(), 2.0 * n as f64);
        assert_eq!(m.norm_inf(), 2.0 * (n+3) as f64);
        assert_eq!(m.norm_max(), 2.0);
        let f = 2.0 * ((n*(n+3)) as f64).sqrt();
        assert!((m.norm_frob() - f).abs() <= 1e-14 * f);
    }
}
