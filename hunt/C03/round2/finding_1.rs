// fill_band with an offset near isize::MAX: the band lies entirely outside the matrix, so by the
// definition "a[i][i+offset] = elem for every row i with 0 <= i+offset < cols" nothing is written.
// The crate computes (row as isize) + offset without care and aborts with an arithmetic-overflow panic
// (builds with overflow checks, i.e. the default dev/test profile) as soon as row >= 1.
use ohsl::matrix::Matrix;

#[test]
fn fill_band_offset_at_top_of_range_is_a_no_op() {
    // smallest case: two rows, one column
    let mut m = Matrix::<i32>::new( 2, 1, 5 );
    m.fill_band( isize::MAX, 9 );            // panics: attempt to add with overflow
    assert_eq!( ( m.rows(), m.cols() ), ( 2, 1 ) );
    assert_eq!( m[(0,0)], 5 );
    assert_eq!( m[(1,0)], 5 );
}

#[test]
fn fill_band_every_out_of_range_offset_all_shapes() {
    for r in 0..=8usize { for c in 0..=8usize {
        for &off in &[ isize::MIN, -(r as isize), c as isize, isize::MAX - 6, isize::MAX - 1, isize::MAX ] {
            let mut m = Matrix::<i64>::new( r, c, 1 );
            m.fill_band( off, 7 );
            for i in 0..r { for j in 0..c {
                let on_band = ( j as i128 ) - ( i as i128 ) == off as i128;
                assert_eq!( m[(i,j)], if on_band { 7 } else { 1 }, "fill_band({}) on {}x{} at ({},{})", off, r, c, i, j );
            } }
        }
    } }
}
