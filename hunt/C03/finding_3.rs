// Element access m[(i, j)] does not check j against the number of columns: (i, cols) silently
// aliases element (i+1, 0). A Vec<Vec<_>> reference model rejects the access; the crate reads /
// overwrites an entry of another row. swap_elem inherits the same hole.
use ohsl::matrix::Matrix;
use std::panic::{catch_unwind, AssertUnwindSafe};

fn sample() -> Matrix<i64> {
    let mut m = Matrix::<i64>::new(2, 3, 0);
    let mut k = 1;
    for i in 0..2 { for j in 0..3 { m[(i, j)] = k; k += 1; } } // [[1,2,3],[4,5,6]]
    m
}

#[test]
fn read_at_column_equal_to_cols_is_rejected() {
    let m = sample();
    let r = catch_unwind(AssertUnwindSafe(|| m[(0, 3)]));
    assert!(r.is_err(), "m[(0,3)] on a 2x3 matrix returned {:?}", r);
}

#[test]
fn write_at_column_equal_to_cols_does_not_corrupt_other_row() {
    let mut m = sample();
    let r = catch_unwind(AssertUnwindSafe(|| { m[(0, 3)] = 99; }));
    assert!(r.is_err(), "m[(0,3)] = 99 on a 2x3 matrix was accepted");
    assert!(m == sample(), "matrix changed by an out-of-range write: {:?}", m);
}

#[test]
fn swap_elem_with_column_out_of_range_is_rejected() {
    let mut m = sample();
    let r = catch_unwind(AssertUnwindSafe(|| m.swap_elem(0, 0, 0, 3)));
    assert!(r.is_err(), "swap_elem(0,0,0,3) on a 2x3 matrix was accepted");
    assert!(m == sample(), "matrix changed by an out-of-range swap: {:?}", m);
}
