mod hunt_common;
use hunt_common::*;

fn gen_matrix(rng: &mut Rng, n: usize, kind: usize) -> Vec<(usize, usize, f64)> {
    let mut t = Vec::new();
    let ints = rng.below(3) == 0;
    let val = |rng: &mut Rng| if ints { (rng.below(5) as f64) - 2.0 } else { rng.sym() };
    match kind {
        0 => { // SPD, diagonally dominant sparse symmetric
            let mut d = vec![0.0; n];
            for i in 0..n { for j in 0..i { if rng.below(n.max(2)) < 2 {
                let v = val(rng); if v != 0.0 { t.push((i, j, v)); t.push((j, i, v)); d[i] += v.abs(); d[j] += v.abs(); } } } }
            for i in 0..n { t.push((i, i, d[i] + 0.5 + rng.uni())); }
        }
        1 => { // ill-conditioned SPD: graded diagonal + weak coupling, or Hilbert
            if rng.below(2) == 0 && n <= 12 {
                for i in 0..n { for j in 0..n { t.push((i, j, 1.0 / ((i + j + 1) as f64))); } }
            } else {
                let span = rng.pick(&[4.0, 8.0, 12.0, 16.0, 30.0]);
                for i in 0..n { let s = 10f64.powf(-span * i as f64 / n.max(2) as f64); t.push((i, i, s));
                    if i > 0 { let c = 0.3 * s; t.push((i, i - 1, c)); t.push((i - 1, i, c)); } }
            }
        }
        2 => { // nonsymmetric
            let dom = rng.pick(&[0.0, 0.5, 2.0, 5.0]);
            for i in 0..n { for j in 0..n { if i == j { t.push((i, i, dom + val(rng))); }
                else if rng.below(n.max(2)) < 2 { let v = val(rng); if v != 0.0 { t.push((i, j, v)); } } } }
        }
        3 => { // symmetric indefinite
            for i in 0..n { let s = if rng.below(2) == 0 { 1.0 } else { -1.0 }; t.push((i, i, s * (0.5 + rng.uni())));
                if i > 0 && rng.below(2) == 0 { let v = val(rng) * 0.5; if v != 0.0 { t.push((i, i - 1, v)); t.push((i - 1, i, v)); } } }
        }
        4 => { // singular
            match rng.below(3) {
                0 => { let z = rng.below(n); for i in 0..n { if i != z { t.push((i, i, 1.0 + rng.uni())); if i > 0 && i - 1 != z { t.push((i, i - 1, 0.3)); } } } }
                1 => { let u: Vec<f64> = (0..n).map(|_| val(rng)).collect(); let v: Vec<f64> = (0..n).map(|_| val(rng)).collect();
                       for i in 0..n { for j in 0..n { let w = u[i] * v[j]; if w != 0.0 { t.push((i, j, w)); } } } }
                _ => { for i in 0..n { let src = if i == n - 1 && n > 1 { 0 } else { i }; // last row = first row
                       t.push((i, src, 2.0)); if src + 1 < n { t.push((i, src + 1, -1.0)); } } }
            }
        }
        5 => { if rng.below(2) == 0 { for i in 0..n { if rng.below(3) == 0 { t.push((i, rng.below(n), 0.0)); } } } }
        6 => { // permutation / cyclic shift, possibly signed
            let sh = 1 + rng.below(n.max(2) - 1).min(n - 1);
            for i in 0..n { let s = if rng.below(4) == 0 { -1.0 } else { 1.0 }; t.push((i, (i + sh) % n, s)); }
        }
        7 => { // skew symmetric (+ optional small diagonal)
            for i in 0..n { for j in 0..i { if rng.below(n.max(2)) < 3 { let v = val(rng); if v != 0.0 { t.push((i, j, v)); t.push((j, i, -v)); } } } }
            if rng.below(2) == 0 { for i in 0..n { t.push((i, i, 1.0)); } }
        }
        8 => { // few distinct eigenvalues: block of identities times constants
            let k = 1 + rng.below(3); let c: Vec<f64> = (0..k).map(|_| rng.pick(&[1.0, 2.0, -1.0, 0.5, 3.0, 0.0])).collect();
            for i in 0..n { let v = c[i % k]; if v != 0.0 || rng.below(2) == 0 { t.push((i, i, v)); } }
        }
        _ => { // small integers, dense-ish
            for i in 0..n { for j in 0..n { if rng.below(3) == 0 { let v = (rng.below(3) as f64) - 1.0; if v != 0.0 || rng.below(8) == 0 { t.push((i, j, v)); } } } }
        }
    }
    // avoid duplicates: keep the first of each (i, j)
    let mut seen = std::collections::HashSet::new();
    t.retain(|e| seen.insert((e.0, e.1)));
    t
}

const SCALES: [f64; 13] = [1.0, 1.0, 1.0, 1.0, 1e-300, 1e-200, 1e-160, 1e-100, 1e-10, 1e10, 1e100, 1e150, 1e300];

fn one_case(rng: &mut Rng, stats: &mut [usize; 3]) -> Option<String> {
    let n = match rng.below(10) { 0 => 1, 1 => 2, 2 => 3, 3..=6 => 1 + rng.below(12), _ => 1 + rng.below(60) };
    let kind = rng.below(10);
    let mut trip = gen_matrix(rng, n, kind);
    let sa = rng.pick(&SCALES);
    for e in trip.iter_mut() { e.2 *= sa; }
    if rng.below(5) == 0 { // mixed scales inside one matrix: D1 A D2
        let span = rng.pick(&[3.0, 10.0, 40.0, 150.0]);
        let d1: Vec<f64> = (0..n).map(|_| 10f64.powf(span * rng.sym())).collect();
        let d2: Vec<f64> = if rng.below(2) == 0 { d1.clone() } else { (0..n).map(|_| 10f64.powf(span * rng.sym())).collect() };
        for e in trip.iter_mut() { e.2 *= d1[e.0]; e.2 *= d2[e.1]; }
    }
    let ints = rng.below(3) == 0;
    let xs: Vec<f64> = (0..n).map(|_| if ints { rng.below(7) as f64 - 3.0 } else { rng.sym() }).collect();
    let mut b = vec![0.0; n];
    match rng.below(6) {
        0 => {}
        1 => { for i in 0..n { b[i] = rng.sym(); } }
        2 | 3 => { for &(i, j, a) in &trip { b[i] += a * xs[j]; } }
        4 => { b[rng.below(n)] = 1.0; }
        _ => { for i in 0..n { if rng.below(2) == 0 { b[i] = rng.below(5) as f64 - 2.0; } } }
    }
    let sb = if rng.below(2) == 0 { 1.0 } else { rng.pick(&SCALES) };
    for v in b.iter_mut() { *v *= sb; }
    let mut x0 = vec![0.0; n];
    match rng.below(10) {
        0 | 1 | 2 => {}
        3 => { for i in 0..n { x0[i] = rng.sym(); } }
        4 => { x0 = xs.clone(); }
        5 => { let s = rng.pick(&[1e8, 1e15, 1e100, 1e300, 1e-300, 1e-100, 1e308]); for i in 0..n { x0[i] = s * rng.sym(); } }
        6 => { x0 = xs.clone(); let k = rng.below(n); x0[k] = rng.pick(&[f64::INFINITY, f64::NEG_INFINITY, f64::NAN, f64::MAX, -0.0, 5e-324]); }
        7 => { for i in 0..n { x0[i] = rng.below(5) as f64 - 2.0; } }
        8 => { x0 = xs.clone(); let k = rng.below(n); x0[k] *= 1.0 + rng.pick(&[1e-15, 1e-13, 1e-11, 1e-7, 1e-3]); }
        _ => { let k = rng.below(n); x0[k] = rng.pick(&[1.0, -1.0, 1e10, 1e200]); }
    }
    let sys = Sys { n, trip, b };
    let tol = if rng.below(3) == 0 { 10f64.powf(-2.0 - 10.0 * rng.uni()) } else { rng.pick(&[1e-12, 1e-11, 1e-10, 1e-8, 1e-6, 1e-4, 1e-3, 1e-2]) };
    let mi = rng.pick(&[0, 1, 1, 2, 2, 3, 4, 5, 7, n, n + 1, 2 * n, 100, 300, 2000]);
    for which in 0..5 {
        stats[0] += 1;
        if let Some(m) = check(&sys, &x0, mi, tol, which, std::env::var("HUNT_SLACK").ok().and_then(|s| s.parse().ok()).unwrap_or(8.0)) {
            return Some(format!("{} | n {} kind {} sa {:e} sb {:e} mi {} \n trip {:?}\n b {:?}\n x0 {:?}", m, n, kind, sa, sb, mi,
                if sys.trip.len() < 40 { sys.trip.clone() } else { vec![] }, sys.b, x0));
        }
    }
    None
}

#[test]
fn sweep() {
    let seed: u64 = std::env::var("HUNT_SEED").ok().and_then(|s| s.parse().ok()).unwrap_or(1);
    let cases: usize = std::env::var("HUNT_CASES").ok().and_then(|s| s.parse().ok()).unwrap_or(20000);
    let mut rng = Rng(0x9E3779B97F4A7C15 ^ seed.wrapping_mul(0xD1B54A32D192ED03));
    let mut stats = [0usize; 3];
    let mut fails = 0;
    for _ in 0..cases {
        if let Some(m) = one_case(&mut rng, &mut stats) { println!("VIOLATION {}", m); fails += 1; if fails >= 400 { break; } }
    }
    println!("max (rel-tol)/allow x1000 = {}", MAXQ.load(std::sync::atomic::Ordering::Relaxed)); println!("underflow-class {}", UNDER.load(std::sync::atomic::Ordering::Relaxed)); println!("calls {} oks {} okpos {} above-tol-within-allowance {}", stats[0], OKS.load(std::sync::atomic::Ordering::Relaxed), OKPOS.load(std::sync::atomic::Ordering::Relaxed), TIGHT.load(std::sync::atomic::Ordering::Relaxed));
    assert_eq!(fails, 0);
}
