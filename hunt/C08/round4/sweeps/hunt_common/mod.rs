#![allow(dead_code)]
// Independent reference: double-double residual with power-of-two pre-scaling.
use ohsl::sparse::Sparse;
use ohsl::vector::Vector;

pub struct Rng(pub u64);
impl Rng {
    pub fn next(&mut self) -> u64 {
        self.0 ^= self.0 << 13; self.0 ^= self.0 >> 7; self.0 ^= self.0 << 17; self.0
    }
    pub fn uni(&mut self) -> f64 { (self.next() >> 11) as f64 / (1u64 << 53) as f64 }
    pub fn sym(&mut self) -> f64 { 2.0 * self.uni() - 1.0 }
    pub fn below(&mut self, n: usize) -> usize { (self.next() % n as u64) as usize }
    pub fn pick<T: Copy>(&mut self, v: &[T]) -> T { v[self.below(v.len())] }
}

pub fn ldexp(mut x: f64, mut e: i64) -> f64 {
    while e > 900 { x *= 2f64.powi(900); e -= 900; }
    while e < -900 { x *= 2f64.powi(-900); e += 900; }
    x * 2f64.powi(e as i32)
}
pub fn expo(x: f64) -> i64 {
    // floor(log2 |x|) for finite non-zero x
    if x == 0.0 || !x.is_finite() { return 0; }
    let bits = x.abs().to_bits();
    let e = (bits >> 52) as i64;
    if e == 0 { let m = bits & ((1u64 << 52) - 1); return -1075 + (64 - m.leading_zeros() as i64); }
    e - 1023
}
fn two_sum(a: f64, b: f64) -> (f64, f64) { let s = a + b; let bb = s - a; (s, (a - (s - bb)) + (b - bb)) }
fn two_prod(a: f64, b: f64) -> (f64, f64) { let p = a * b; (p, a.mul_add(b, -p)) }
#[derive(Clone, Copy)]
pub struct DD(pub f64, pub f64);
impl DD {
    pub fn add(self, o: DD) -> DD {
        let (s, e) = two_sum(self.0, o.0);
        let e = e + self.1 + o.1;
        let (s, e) = two_sum(s, e);
        DD(s, e)
    }
}

pub struct Sys { pub n: usize, pub trip: Vec<(usize, usize, f64)>, pub b: Vec<f64> }

impl Sys {
    pub fn sparse(&self) -> Sparse<f64> {
        let mut t = self.trip.clone();
        Sparse::from_triplets(self.n, self.n, &mut t)
    }
    /// (relative residual [absolute if b == 0], rounding allowance n*eps*|| |A||x| || / ||b||)
    pub fn true_rel(&self, x: &[f64]) -> (f64, f64) {
        let bmax = self.b.iter().fold(0.0f64, |m, v| m.max(v.abs()));
        let bzero = bmax == 0.0;
        let mut e = if bzero { i64::MIN } else { expo(bmax) };
        for &(_, j, a) in &self.trip { if a != 0.0 && x[j] != 0.0 { e = e.max(expo(a) + expo(x[j]) + 1); } }
        if e == i64::MIN { return (0.0, 0.0); }
        let mut r: Vec<DD> = self.b.iter().map(|v| DD(ldexp(*v, -e), 0.0)).collect();
        let mut ab = vec![0.0f64; self.n];
        for &(i, j, a) in &self.trip {
            if a == 0.0 || x[j] == 0.0 { continue; }
            let (fa, fx) = (expo(a), expo(x[j]));
            let (p, q) = two_prod(-ldexp(a, -fa), ldexp(x[j], -fx));
            let sh = fa + fx - e;
            r[i] = r[i].add(DD(ldexp(p, sh), ldexp(q, sh)));
            ab[i] += ldexp(p.abs(), sh);
        }
        let rv: Vec<f64> = r.iter().map(|d| d.0 + d.1).collect();
        let bv: Vec<f64> = self.b.iter().map(|v| ldexp(*v, -e)).collect();
        // norms as (mantissa, exponent) pairs so that no square under- or overflows
        let nrm = |v: &[f64]| -> (f64, i64) { let m = v.iter().fold(0.0f64, |m, w| m.max(w.abs())); if m == 0.0 { return (0.0, 0); }
            let f = expo(m); ((v.iter().map(|w| { let u = ldexp(*w, -f); u * u }).sum::<f64>()).sqrt(), f) };
        let (rm, rf) = nrm(&rv); let (am, af) = nrm(&ab); let (bm, bf) = nrm(&bv);
        if !bzero { return (ldexp(rm / bm, rf - bf), ldexp(am / bm, af - bf) * f64::EPSILON * self.n as f64); }
        let (rn, an, bn) = (ldexp(rm, rf), ldexp(am, af), 1.0);
        let eps = f64::EPSILON;
        if bzero { (ldexp(rn, e), ldexp(an, e) * eps * self.n as f64) }
        else { (rn / bn, an / bn * eps * self.n as f64) }
    }
}

pub static OKS: std::sync::atomic::AtomicUsize = std::sync::atomic::AtomicUsize::new(0);
pub static OKPOS: std::sync::atomic::AtomicUsize = std::sync::atomic::AtomicUsize::new(0);
pub static TIGHT: std::sync::atomic::AtomicUsize = std::sync::atomic::AtomicUsize::new(0);
pub static UNDER: std::sync::atomic::AtomicUsize = std::sync::atomic::AtomicUsize::new(0);
pub static MAXQ: std::sync::atomic::AtomicUsize = std::sync::atomic::AtomicUsize::new(0);
pub fn bits(v: &[f64]) -> Vec<u64> { v.iter().map(|x| x.to_bits()).collect() }

pub const NAMES: [&str; 5] = ["cg", "bicg1", "bicg2", "bicgstab", "qmr"];
pub fn run(which: usize, a: &Sparse<f64>, b: &Vector<f64>, x: &mut Vector<f64>, mi: usize, tol: f64) -> Result<usize, f64> {
    match which {
        0 => a.solve_cg(b, x, mi, tol),
        1 => a.solve_bicg(b, x, mi, tol, 1),
        2 => a.solve_bicg(b, x, mi, tol, 2),
        3 => a.solve_bicgstab(b, x, mi, tol),
        _ => a.solve_qmr(b, x, mi, tol),
    }
}

/// Check the property for one call; returns Some(message) on violation.
pub fn check(sys: &Sys, x0: &[f64], mi: usize, tol: f64, which: usize, slack: f64) -> Option<String> {
    let a = sys.sparse();
    let b = Vector::create(sys.b.clone());
    let mut x = Vector::create(x0.to_vec());
    let res = run(which, &a, &b, &mut x, mi, tol);
    if mi == 0 && bits(&x.vec) != bits(x0) {
        return Some(format!("{}: budget 0 but x changed", NAMES[which]));
    }
    if let Ok(k) = res {
        if k > mi { return Some(format!("{}: Ok({}) > max_iter {}", NAMES[which], k, mi)); }
        if !x.vec.iter().all(|v| v.is_finite()) { return Some(format!("{}: Ok({}) non-finite x", NAMES[which], k)); }
        let (rel, allow) = sys.true_rel(&x.vec);
        OKS.fetch_add(1, std::sync::atomic::Ordering::Relaxed);
        if k > 0 { OKPOS.fetch_add(1, std::sync::atomic::Ordering::Relaxed); }
        if rel > tol { TIGHT.fetch_add(1, std::sync::atomic::Ordering::Relaxed); let q = ((rel - tol) / allow * 1000.0) as usize; MAXQ.fetch_max(q, std::sync::atomic::Ordering::Relaxed); }
        if !(rel <= tol * (1.0 + 1e-9) + slack * allow) {
            // underflow class: b or a product a*x in (or next to) the subnormal range
            let lim = 1e-290;
            let ub = sys.b.iter().any(|v| *v != 0.0 && v.abs() < lim);
            let up = sys.trip.iter().any(|t| { let p = t.2 * x[t.1]; t.2 != 0.0 && x[t.1] != 0.0 && p.abs() < lim });
            if ub || up { UNDER.fetch_add(1, std::sync::atomic::Ordering::Relaxed); if std::env::var("HUNT_UNDER").is_err() { return None; } }
            return Some(format!("{}: Ok({}) tol {:e} true rel {:e} allowance {:e} x {:?}", NAMES[which], k, tol, rel, allow, x.vec));
        }
    }
    None
}
