mod hunt_common;
use hunt_common::*;
use ohsl::vector::Vector;

fn try_sys(name: &str, n: usize, trip: Vec<(usize, usize, f64)>, b: Vec<f64>, x0: Vec<f64>, tol: f64, mi: usize) {
    let sys = Sys { n, trip, b };
    let a = sys.sparse();
    for which in 0..5 {
        let bv = Vector::create(sys.b.clone());
        let mut x = Vector::create(x0.clone());
        let res = run(which, &a, &bv, &mut x, mi, tol);
        let (rel, _) = sys.true_rel(&x.vec);
        println!("{} {:9} {:?} true rel {:e} x {:?}", name, NAMES[which], res, rel, x.vec);
    }
}

#[test]
fn tiny() {
    { let x0 = vec![3e15, 3e15 + 1.0]; let t = vec![(0, 0, 0.1), (0, 1, -0.1), (1, 0, -0.1), (1, 1, 0.1)];
      let b = vec![0.1 * x0[0] + (-0.1) * x0[1], -0.1 * x0[0] + 0.1 * x0[1]];
      println!("b {:?}", b); try_sys("big", 2, t, b, x0, 1e-10, 50); }
    try_sys("g1", 1, vec![(0, 0, 0.75)], vec![5e-324], vec![1.0], 1e-10, 50);
    try_sys("g2", 2, vec![(0, 0, 0.7), (0, 1, -0.3), (1, 0, -0.3), (1, 1, 0.7)], vec![1e-322, 2e-322], vec![1.0, -1.0], 1e-10, 100);
    try_sys("g3", 3, vec![(0, 0, 0.7), (0, 1, -0.3), (1, 0, -0.3), (1, 1, 0.7), (1, 2, -0.3), (2, 1, -0.3), (2, 2, 0.7)], vec![1e-321, 2e-321, 1e-321], vec![1.0, 2.0, 3.0], 1e-4, 200);
}
