mod hunt_common;
use hunt_common::*;
use ohsl::vector::Vector;
use ohsl::sparse::Sparse;

#[test]
fn empty_system() {
    let a = Sparse::<f64>::from_triplets(0, 0, &mut vec![]);
    let b = Vector::<f64>::create(vec![]);
    for w in 0..5 { for mi in [0usize, 1, 5] {
        let mut x = Vector::<f64>::create(vec![]);
        let r = run(w, &a, &b, &mut x, mi, 1e-8);
        println!("empty {} mi {} -> {:?}", NAMES[w], mi, r);
        if let Ok(k) = r { assert!(k <= mi); }
    } }
}

#[test]
fn threshold() {
    let mut rng = Rng(12345);
    let mut worst: Vec<(f64, f64, f64)> = vec![]; // per tol: (tol, max normb with violation > 2 tol, its rel)
    for &tol in &[1e-12, 1e-8, 1e-4, 1e-2] {
        let mut best = (tol, 0.0, 0.0);
        for _ in 0..60000 {
            let n = 1 + rng.below(60);
            let mut trip = vec![];
            for i in 0..n { trip.push((i, i, 1.0 + rng.uni())); if i > 0 { let v = 0.4 * rng.sym(); trip.push((i, i - 1, v)); trip.push((i - 1, i, v)); } }
            let sc = 10f64.powf(-290.0 - 33.0 * rng.uni());
            let xs: Vec<f64> = (0..n).map(|_| rng.sym() * sc).collect();
            let mut b = vec![0.0; n];
            for &(i, j, a) in &trip { b[i] += a * xs[j]; }
            let sys = Sys { n, trip, b };
            let a = sys.sparse();
            let bv = Vector::create(sys.b.clone());
            let x0: Vec<f64> = if rng.below(2) == 0 { xs.clone() } else { vec![0.0; n] };
            for w in 0..5 {
                let mut x = Vector::create(x0.clone());
                if let Ok(_) = run(w, &a, &bv, &mut x, 200, tol) {
                    let (rel, _) = sys.true_rel(&x.vec);
                    let nb = bv.norm_2();
                    if rel > 2.0 * tol && nb > best.1 { best = (tol, nb, rel); }
                }
            }
        }
        worst.push(best);
    }
    for w in worst { println!("tol {:e}: largest ||b|| with Ok and true rel > 2 tol: {:e} (rel {:e})", w.0, w.1, w.2); }
}
