// C08 finding 1: at tiny scales (right-hand side in the subnormal range) the confirmation
// b - A x is evaluated with products that underflow; the solvers report Ok although the true
// relative residual exceeds the tolerance by many orders of magnitude.
use ohsl::sparse::Sparse;
use ohsl::vector::Vector;

/// True relative residual ||b - A x|| / ||b||, evaluated after exact power-of-two scaling
/// ( A * 2^ea, x * 2^ex, b * 2^(ea+ex) ) so that nothing is subnormal; what remains is ordinary
/// rounding of order 1e-16, irrelevant next to the tolerances used here.
fn true_rel( n: usize, trip: &[(usize, usize, f64)], b: &[f64], x: &[f64], ea: i32, ex: i32 ) -> f64 {
    let ( fa, fx ) = ( 2f64.powi( ea ), 2f64.powi( ex ) );
    let bs: Vec<f64> = b.iter().map( |v| v * fa * fx ).collect();
    let mut r = bs.clone();
    for &( i, j, a ) in trip { r[ i ] -= ( a * fa ) * ( x[ j ] * fx ); }
    let _ = n;
    let nr = r.iter().map( |v| v * v ).sum::<f64>().sqrt();
    let nb = bs.iter().map( |v| v * v ).sum::<f64>().sqrt();
    nr / nb
}

#[test]
fn qmr_from_zero_guess_tiny_system() {
    // A = 1e-160 * diag( 2, 3, 5 ), b about 1e-320 ( subnormal ), x = 0, tol = 1e-10
    let s = 1.0e-160;
    let trip = vec![ ( 0, 0, 2.0 * s ), ( 1, 1, 3.0 * s ), ( 2, 2, 5.0 * s ) ];
    let b = vec![ 4.0e-320, 3.0e-320, 1.0e-320 ];
    let tol = 1.0e-10;
    let a = Sparse::<f64>::from_triplets( 3, 3, &mut trip.clone() );
    let mut x = Vector::<f64>::create( vec![ 0.0; 3 ] );
    let res = a.solve_qmr( &Vector::create( b.clone() ), &mut x, 50, tol );
    if let Ok( k ) = res {
        assert!( k <= 50 );
        assert!( x.vec.iter().all( |v| v.is_finite() ) );
        let rel = true_rel( 3, &trip, &b, &x.vec, 600, 400 );
        assert!( rel <= tol * 1.001, "solve_qmr returned Ok({}) with tol {:e}, true relative residual {:e}, x = {:?}", k, tol, rel, x.vec );
    }
}

#[test]
fn all_solvers_smallest_subnormal_rhs() {
    // A = [ 0.75 ], b = [ 5e-324 ], guess x = [ 5e-324 ]: 0.75 * x rounds to b, the residual reads 0,
    // the true relative residual is 0.25 ( no representable x does better than 0.25: the answer must be Err )
    let trip = vec![ ( 0usize, 0usize, 0.75 ) ];
    let b = vec![ 5.0e-324 ];
    let tol = 1.0e-2;
    let a = Sparse::<f64>::from_triplets( 1, 1, &mut trip.clone() );
    let bv = Vector::create( b.clone() );
    for which in 0..5 {
        let mut x = Vector::<f64>::create( vec![ 5.0e-324 ] );
        let res = match which {
            0 => a.solve_cg( &bv, &mut x, 10, tol ),
            1 => a.solve_bicg( &bv, &mut x, 10, tol, 1 ),
            2 => a.solve_bicg( &bv, &mut x, 10, tol, 2 ),
            3 => a.solve_bicgstab( &bv, &mut x, 10, tol ),
            _ => a.solve_qmr( &bv, &mut x, 10, tol ),
        };
        if let Ok( k ) = res {
            let rel = true_rel( 1, &trip, &b, &x.vec, 0, 1000 );
            assert!( rel <= tol * 1.001, "solver {} returned Ok({}) with tol {:e}, true relative residual {:e}, x = {:?}", which, k, tol, rel, x.vec );
        }
    }
}
