use ohsl::sparse::Sparse;
use ohsl::vector::Vector;

struct Rng(u64);
impl Rng {
    fn next(&mut self) -> u64 { let mut x = self.0; x ^= x << 13; x ^= x >> 7; x ^= x << 17; self.0 = x; x }
    fn uni(&mut self) -> f64 { (self.next() >> 11) as f64 / (1u64 << 53) as f64 }
    fn below(&mut self, n: usize) -> usize { (self.next() % n as u64) as usize }
    fn pick(&mut self, v: &[f64]) -> f64 { v[self.below(v.len())] }
}

fn two_sum(a: f64, b: f64) -> (f64, f64) { let s = a + b; let bb = s - a; (s, (a - (s - bb)) + (b - bb)) }
fn two_prod(a: f64, b: f64) -> (f64, f64) { let p = a * b; (p, a.mul_add(b, -p)) }
fn dd_add(a: (f64, f64), b: (f64, f64)) -> (f64, f64) {
    let (s, e) = two_sum(a.0, b.0); let e = e + a.1 + b.1; two_sum(s, e)
}
fn p2(k: i64) -> f64 { // exact 2^k for |k| <= 1000
    let k = k.max(-1000).min(1000) as i32;
    let h = k / 2; 2f64.powi(h) * 2f64.powi(k - h)
}
fn frexp(v: f64) -> (f64, i64) {
    if v == 0.0 { return (0.0, 0); }
    let mut m = v; let mut e: i64 = 0;
    if m.abs() < 1e-250 { m *= p2(400); e -= 400; }
    if m.abs() > 1e250 { m *= p2(-400); e += 400; }
    let k = m.abs().log2().floor() as i64;
    (m * p2(-k), e + k)
}
// sum of scaled terms ( (hi,lo), e ) -> ( (hi,lo), E )
fn sum_terms(t: &[((f64, f64), i64)]) -> ((f64, f64), i64) {
    let mut emax = i64::MIN;
    for x in t { if (x.0).0 != 0.0 && x.1 > emax { emax = x.1; } }
    if emax == i64::MIN { return ((0.0, 0.0), 0); }
    let mut acc = (0.0, 0.0);
    for x in t {
        let d = x.1 - emax;
        if (x.0).0 == 0.0 || d < -900 { continue; }
        let f = p2(d);
        acc = dd_add(acc, ((x.0).0 * f, (x.0).1 * f));
    }
    (acc, emax)
}
fn norm_scaled(v: &[(f64, i64)]) -> (f64, i64) {
    let mut emax = i64::MIN;
    for x in v { if x.0 != 0.0 && x.1 > emax { emax = x.1; } }
    if emax == i64::MIN { return (0.0, 0); }
    let mut s = 0.0;
    for x in v { let d = x.1 - emax; if x.0 == 0.0 || d < -400 { continue; } let y = x.0 * p2(d); s += y * y; }
    (s.sqrt(), emax)
}
/// returns ( ||b - A x|| / ||b||, || |b| + |A||x| || / ||b|| ) without any over/underflow in the reference
fn ref_relres(n: usize, trip: &[(usize, usize, f64)], b: &[f64], x: &[f64]) -> (f64, f64) {
    let mut rows: Vec<Vec<((f64, f64), i64)>> = vec![vec![]; n];
    let mut rabs: Vec<Vec<((f64, f64), i64)>> = vec![vec![]; n];
    for i in 0..n { let (m, e) = frexp(b[i]); rows[i].push(((m, 0.0), e)); rabs[i].push(((m.abs(), 0.0), e)); }
    for &(i, j, v) in trip {
        let (ma, ea) = frexp(v); let (mx, ex) = frexp(x[j]);
        let p = two_prod(ma, mx);
        rows[i].push(((-p.0, -p.1), ea + ex));
        rabs[i].push(((p.0.abs(), 0.0), ea + ex));
    }
    let r: Vec<(f64, i64)> = rows.iter().map(|t| { let s = sum_terms(t); ((s.0).0, s.1) }).collect();
    let ra: Vec<(f64, i64)> = rabs.iter().map(|t| { let s = sum_terms(t); ((s.0).0, s.1) }).collect();
    let bb: Vec<(f64, i64)> = b.iter().map(|v| frexp(*v)).collect();
    let (rn, re) = norm_scaled(&r);
    let (an, ae) = norm_scaled(&ra);
    let (bn, be) = norm_scaled(&bb);
    let q = |v: f64, e: i64| -> f64 { if v == 0.0 { return 0.0; } let d = e - be; if d > 1000 { f64::INFINITY } else if d < -1000 { 0.0 } else { v / bn * p2(d) } };
    (q(rn, re), q(an, ae))
}

fn lattice(rng: &mut Rng) -> f64 {
    let mags = [1e-300, 1e-200, 1e-160, 1e-154, 1e-120, 1e-40, 1e-16, 1e-7, 1e-3, 1.0, 1.0, 1.0, 1e3, 1e7, 1e16, 1e40, 1e120, 1e154, 1e160, 1e200, 1e300];
    let mant = [1.0, 1.0, 0.7, -0.3, 0.55, 45.24, -0.001, 1.0 + f64::EPSILON, 1.0 - f64::EPSILON / 2.0, 0.5, 2.0, 3.0, -1.0, 1.0 / 3.0];
    let m = if rng.uni() < 0.3 { 0.5 + rng.uni() } else { rng.pick(&mant) };
    let s = if rng.uni() < 0.45 { 1.0 } else { rng.pick(&mags) };
    m * s
}

#[test]
fn lattice_sweep() {
    let cases: usize = std::env::var("HUNT_CASES").ok().and_then(|s| s.parse().ok()).unwrap_or(100000);
    let seed: u64 = std::env::var("HUNT_SEED").ok().and_then(|s| s.parse().ok()).unwrap_or(0xDEADBEEFCAFE);
    let mut rng = Rng(seed);
    let names = ["cg", "bicg1", "bicg2", "bicgstab", "qmr"];
    let mut oks = [0usize; 5];
    let mut worst = [0.0f64; 5];
    let mut viol = 0;
    for case in 0..cases {
        let nmax = if rng.uni() < 0.8 { 4 } else { 9 }; let n = 1 + rng.below(nmax);
        let mut trip: Vec<(usize, usize, f64)> = vec![];
        let dens = rng.pick(&[0.3, 0.6, 1.0]);
        let symm = rng.uni() < 0.4;
        // one global magnitude so that most systems stay consistent, individual entries may leave it
        let g = if rng.uni() < 0.5 { 1.0 } else { lattice(&mut rng).abs() };
        for i in 0..n { for j in 0..n {
            if symm && j > i { continue; }
            if i == j && rng.uni() < 0.85 || rng.uni() < dens {
                let v = if rng.uni() < 0.7 { (0.5 + rng.uni()) * rng.pick(&[1.0, -1.0, 1.0]) * g } else { lattice(&mut rng) * if rng.uni() < 0.5 { g } else { 1.0 } };
                if v.is_finite() { trip.push((i, j, v)); if symm && i != j { trip.push((j, i, v)); } }
            }
        } }
        let xt: Vec<f64> = (0..n).map(|_| lattice(&mut rng)).collect();
        let mut b: Vec<f64> = match rng.below(3) {
            0 => { let mut v = vec![0.0; n]; for &(i, j, a) in &trip { v[i] += a * xt[j]; } v }
            1 => (0..n).map(|_| lattice(&mut rng)).collect(),
            _ => { let mut v = vec![0.0; n]; let k = rng.below(n); v[k] = lattice(&mut rng); if rng.uni() < 0.3 { let k2 = rng.below(n); v[k2] = -0.0; } v }
        };
        if rng.uni() < 0.3 { let s = lattice(&mut rng).abs(); for v in b.iter_mut() { *v *= s; } }
        if b.iter().any(|v| !v.is_finite()) { continue; }
        let bmax = b.iter().fold(0.0f64, |m, v| m.max(v.abs()));
        if bmax < 2.3e-308 { continue; } // zero and subnormal right-hand sides are known
        let x0: Vec<f64> = match rng.below(6) {
            0 | 1 => vec![0.0; n],
            2 => xt.clone(),
            3 => xt.iter().map(|v| v * (1.0 + rng.pick(&[1e-15, -1e-12, 1e-9, 1e-6, -1e-3, f64::EPSILON]))).collect(),
            4 => (0..n).map(|_| lattice(&mut rng)).collect(),
            _ => (0..n).map(|_| if rng.uni() < 0.5 { 0.0 } else { -0.0 }).collect(),
        };
        if x0.iter().any(|v| !v.is_finite()) { continue; }
        let tol = rng.pick(&[1e-12, 1e-12, 1e-10, 3.3e-9, 1e-7, 1e-5, 1e-2, 1e-2]);
        let max_iter = rng.pick(&[0.0, 1.0, 2.0, 3.0, 4.0, 5.0, 10.0, 50.0, 1000.0]) as usize;
        let mut t2 = trip.clone();
        let sp = Sparse::from_triplets(n, n, &mut t2);
        let bv = Vector::create(b.clone());
        for s in 0..5 {
            let mut x = Vector::create(x0.clone());
            let res = match s {
                0 => sp.solve_cg(&bv, &mut x, max_iter, tol),
                1 => sp.solve_bicg(&bv, &mut x, max_iter, tol, 1),
                2 => sp.solve_bicg(&bv, &mut x, max_iter, tol, 2),
                3 => sp.solve_bicgstab(&bv, &mut x, max_iter, tol),
                _ => sp.solve_qmr(&bv, &mut x, max_iter, tol),
            };
            if max_iter == 0 && !x.vec.iter().zip(x0.iter()).all(|(p, q)| p.to_bits() == q.to_bits()) {
                viol += 1; println!("VIOL budget 0 changed x case {} {}", case, names[s]);
            }
            if let Ok(k) = res {
                oks[s] += 1;
                let mut bad = String::new();
                if k > max_iter { bad.push_str("iter>max "); }
                if !x.vec.iter().all(|v| v.is_finite()) { bad.push_str("nonfinite "); }
                let (rel, sc) = ref_relres(n, &trip, &b, &x.vec);
                let allowed = tol * (1.0 + 1e-12) + 4.0 * (n as f64 + 4.0) * f64::EPSILON * sc;
                if rel > tol { let e = (rel - tol) / (f64::EPSILON * sc); if e > worst[s] { worst[s] = e; } }
                if !(rel <= allowed) { bad.push_str("resid "); }
                if !bad.is_empty() {
                    viol += 1;
                    println!("VIOL {} case {} {} n {} tol {:e} max_iter {} k {} rel {:e} sc {:e}\n  trip {:?}\n  b {:?}\n  x0 {:?}\n  x {:?}", bad, case, names[s], n, tol, max_iter, k, rel, sc, trip, b, x0, x.vec);
                }
            }
        }
    }
    println!("oks {:?}", oks);
    println!("worst excess in eps * || |b|+|A||x| || / ||b|| units {:?}", worst);
    assert_eq!(viol, 0);
}

#[test]
fn tiny_normal_window() {
    let mut rng = Rng(0x1234567);
    let mut worst = 0.0f64; let mut oks = 0;
    for case in 0..4000 {
        let n = 5 + rng.below(56);
        let sa = rng.pick(&[1e-154, 1e-150, 1e-160, 1e-100, 1e-200, 1e-250]);
        let sx = rng.pick(&[1e-154, 1e-150, 1e-148, 1e-200, 1e-100, 1e-50]) ;
        let mut trip = vec![];
        for i in 0..n { let mut s = 0.0; for j in 0..i { let v = (rng.uni() - 0.5) * sa; trip.push((i, j, v)); trip.push((j, i, v)); s += v.abs(); } let _ = s; }
        let mut rowsum = vec![0.0; n]; for &(i, _, v) in &trip { rowsum[i] += v.abs(); }
        for i in 0..n { trip.push((i, i, rowsum[i] * 1.1 + sa * 0.1)); }
        let xt: Vec<f64> = (0..n).map(|_| (0.5 + rng.uni()) * sx).collect();
        let mut b = vec![0.0; n]; for &(i, j, a) in &trip { b[i] += a * xt[j]; }
        let bmax = b.iter().fold(0.0f64, |m, v| m.max(v.abs()));
        if bmax < 2.3e-308 { continue; }
        let tol = rng.pick(&[1e-12, 1e-11, 1e-10]);
        let mut t2 = trip.clone();
        let sp = Sparse::from_triplets(n, n, &mut t2);
        let bv = Vector::create(b.clone());
        for s in 0..5 {
            let mut x = Vector::create(vec![0.0; n]);
            let res = match s {
                0 => sp.solve_cg(&bv, &mut x, 1000, tol),
                1 => sp.solve_bicg(&bv, &mut x, 1000, tol, 1),
                2 => sp.solve_bicg(&bv, &mut x, 1000, tol, 2),
                3 => sp.solve_bicgstab(&bv, &mut x, 1000, tol),
                _ => sp.solve_qmr(&bv, &mut x, 1000, tol),
            };
            if let Ok(_) = res {
                oks += 1;
                let (rel, _) = ref_relres(n, &trip, &b, &x.vec);
                if rel / tol > worst { worst = rel / tol; println!("case {} solver {} n {} bmax {:e} tol {:e} rel/tol {}", case, s, n, bmax, tol, rel / tol); }
            }
        }
    }
    println!("oks {} worst rel/tol {}", oks, worst);
}
