use ohsl::sparse::Sparse;
use ohsl::vector::Vector;

// ---------- rng ----------
struct Rng(u64);
impl Rng {
    fn next(&mut self) -> u64 {
        let mut x = self.0;
        x ^= x << 13; x ^= x >> 7; x ^= x << 17;
        self.0 = x; x
    }
    fn uni(&mut self) -> f64 { (self.next() >> 11) as f64 / (1u64 << 53) as f64 }
    fn below(&mut self, n: usize) -> usize { (self.next() % n as u64) as usize }
    fn sym(&mut self) -> f64 { 2.0 * self.uni() - 1.0 }
    // generic value with mantissa in [0.5,1) and sign
    fn gen(&mut self) -> f64 { let s = if self.next() & 1 == 0 { 1.0 } else { -1.0 }; s * (0.5 + 0.5 * self.uni()) }
    fn pick(&mut self, v: &[f64]) -> f64 { v[self.below(v.len())] }
}

// ---------- double-double ----------
fn two_sum(a: f64, b: f64) -> (f64, f64) { let s = a + b; let bb = s - a; (s, (a - (s - bb)) + (b - bb)) }
fn two_prod(a: f64, b: f64) -> (f64, f64) { let p = a * b; (p, a.mul_add(b, -p)) }
fn dd_add(a: (f64, f64), b: (f64, f64)) -> (f64, f64) {
    let (s, e) = two_sum(a.0, b.0);
    let e = e + a.1 + b.1;
    let (h, l) = two_sum(s, e);
    (h, l)
}

fn exp2i(k: i32) -> f64 {
    // 2^k with clamping, exact
    let mut k = k.max(-1070).min(1020);
    let mut r = 1.0f64;
    while k > 500 { r *= 2f64.powi(500); k -= 500; }
    while k < -500 { r *= 2f64.powi(-500); k += 500; }
    r * 2f64.powi(k)
}
fn expo(v: f64) -> i32 { if v == 0.0 || !v.is_finite() { 0 } else { v.abs().log2().floor() as i32 } }
fn scale_by(v: f64, k: i32) -> f64 {
    // v * 2^k in two steps to avoid spurious over/underflow
    let h = k / 2; v * exp2i(h) * exp2i(k - h)
}

/// relative residual ||b - A x|| / ||b|| computed with power-of-two prescaling and double-double accumulation
/// also returns ||A||_F * ||x|| / ||b|| (the rounding scale)
fn ref_relres(n: usize, trip: &[(usize, usize, f64)], b: &[f64], x: &[f64]) -> (f64, f64) {
    let amax = trip.iter().fold(0.0f64, |m, t| m.max(t.2.abs()));
    let xmax = x.iter().fold(0.0f64, |m, v| m.max(v.abs()));
    let bmax = b.iter().fold(0.0f64, |m, v| m.max(v.abs()));
    let (ea, ex, eb) = (expo(amax), expo(xmax), expo(bmax));
    let bs: Vec<f64> = b.iter().map(|v| scale_by(*v, -eb)).collect();
    let xs: Vec<f64> = x.iter().map(|v| scale_by(*v, -ex)).collect();
    let mut ax = vec![(0.0f64, 0.0f64); n];
    let mut af = 0.0;
    for &(i, j, v) in trip {
        let vs = scale_by(v, -ea);
        af += vs * vs;
        let p = two_prod(vs, xs[j]);
        ax[i] = dd_add(ax[i], p);
    }
    let f = ea as i64 + ex as i64 - eb as i64;
    let f = f.max(-2000).min(2000) as i32;
    let mut bb = 0.0; let mut xx = 0.0;
    let mut rs = vec![0.0f64; n];
    for i in 0..n {
        let axh = scale_by(ax[i].0, f);
        let axl = scale_by(ax[i].1, f);
        if !axh.is_finite() { return (f64::INFINITY, f64::INFINITY); }
        let r = dd_add((bs[i], 0.0), (-axh, -axl));
        rs[i] = r.0; bb += bs[i] * bs[i]; xx += xs[i] * xs[i];
    }
    let rmax = rs.iter().fold(0.0f64, |m, v| m.max(v.abs()));
    let rel = if rmax == 0.0 { 0.0 } else { rmax * (rs.iter().map(|v| (v / rmax) * (v / rmax)).sum::<f64>()).sqrt() / bb.sqrt() };
    let mut scale = (af * xx / bb).sqrt();
    scale = if f > 900 { f64::INFINITY } else { scale * exp2i(f) };
    (rel, scale)
}

fn build(n: usize, trip: &[(usize, usize, f64)]) -> Sparse<f64> {
    let mut t = trip.to_vec();
    Sparse::from_triplets(n, n, &mut t)
}

fn dense_to_trip(n: usize, a: &[f64]) -> Vec<(usize, usize, f64)> {
    let mut t = vec![];
    for i in 0..n { for j in 0..n { if a[i * n + j] != 0.0 { t.push((i, j, a[i * n + j])); } } }
    t
}

fn gen_matrix(rng: &mut Rng, n: usize, kind: usize) -> Vec<f64> {
    let mut a = vec![0.0; n * n];
    let dens = rng.pick(&[0.05, 0.1, 0.3, 0.6, 1.0]);
    match kind {
        0 => { // SPD diag dominant
            for i in 0..n { for j in 0..i { if rng.uni() < dens { let v = rng.gen(); a[i*n+j] = v; a[j*n+i] = v; } } }
            for i in 0..n { let mut s = 0.0; for j in 0..n { if j != i { s += a[i*n+j].abs(); } } a[i*n+i] = s + 0.1 + rng.uni(); }
        }
        1 => { // B^T B + mu I
            let mut bm = vec![0.0; n * n];
            for v in bm.iter_mut() { if rng.uni() < dens { *v = rng.gen(); } }
            let mu = rng.pick(&[1.0, 1e-3, 1e-7, 1e-11, 0.0]);
            for i in 0..n { for j in 0..n { let mut s = 0.0; for k in 0..n { s += bm[k*n+i] * bm[k*n+j]; } a[i*n+j] = s; } a[i*n+i] += mu; }
        }
        2 => { // nonsymmetric diag dominant
            for i in 0..n { for j in 0..n { if i != j && rng.uni() < dens { a[i*n+j] = rng.gen(); } } }
            for i in 0..n { let mut s = 0.0; for j in 0..n { if j != i { s += a[i*n+j].abs(); } } a[i*n+i] = (s * rng.pick(&[1.01, 1.5, 0.7]) + 0.1) * if rng.uni() < 0.2 { -1.0 } else { 1.0 }; }
        }
        3 => { // general random
            for v in a.iter_mut() { if rng.uni() < dens { *v = rng.gen() * rng.pick(&[1.0, 1.0, 1e-3, 1e3, 45.24]); } }
            for i in 0..n { if rng.uni() < 0.7 { a[i*n+i] = rng.gen(); } }
        }
        4 => { // symmetric indefinite
            for i in 0..n { for j in 0..=i { if rng.uni() < dens || i == j { let v = rng.gen(); a[i*n+j] = v; a[j*n+i] = v; } } }
        }
        5 => { // graded ill-conditioned D1 M D2
            let g = rng.pick(&[1e-1, 1e-2, 3e-4, 1e-7]);
            let sym = rng.uni() < 0.5;
            for i in 0..n { for j in 0..n { if rng.uni() < dens || i == j { a[i*n+j] = rng.gen() + if i == j { 2.0 } else { 0.0 }; } } }
            if sym { for i in 0..n { for j in 0..i { a[i*n+j] = a[j*n+i]; } } }
            for i in 0..n { for j in 0..n {
                let di = g.powf(i as f64 / n as f64 * 8.0); let dj = g.powf(j as f64 / n as f64 * 8.0);
                a[i*n+j] *= di * if sym { dj } else { 1.0 / dj.max(1e-100) };
            } }
        }
        6 => { // singular
            let sub = rng.below(4);
            for v in a.iter_mut() { if rng.uni() < dens { *v = rng.gen(); } }
            for i in 0..n { a[i*n+i] = 1.0 + rng.uni(); }
            let k = rng.below(n);
            match sub {
                0 => { for j in 0..n { a[k*n+j] = 0.0; } }
                1 => { for i in 0..n { a[i*n+k] = 0.0; } }
                2 => { let m = rng.below(n); for j in 0..n { a[k*n+j] = a[m*n+j] * 0.7; } }
                _ => { let u: Vec<f64> = (0..n).map(|_| rng.gen()).collect(); let w: Vec<f64> = (0..n).map(|_| rng.gen()).collect();
                       for i in 0..n { for j in 0..n { a[i*n+j] = u[i] * w[j]; } } }
            }
        }
        7 => { // Hilbert-like
            let sh = rng.pick(&[1.0, 0.7, 2.3]);
            for i in 0..n { for j in 0..n { a[i*n+j] = 1.0 / (i as f64 + j as f64 + sh); } }
        }
        8 => { // structured breakdown: cyclic shift / skew-symmetric / permutation with values
            let sub = rng.below(3);
            match sub {
                0 => { for i in 0..n { a[i*n + (i+1)%n] = rng.gen(); } }
                1 => { for i in 0..n { for j in 0..i { if rng.uni() < dens { let v = rng.gen(); a[i*n+j] = v; a[j*n+i] = -v; } } } }
                _ => { let mut p: Vec<usize> = (0..n).collect(); for i in (1..n).rev() { let j = rng.below(i+1); p.swap(i, j); }
                       for i in 0..n { a[i*n+p[i]] = rng.gen() * rng.pick(&[1.0, 1e-7, 1e7]); } }
            }
        }
        9 => { // diagonal / near-diagonal with huge range
            let mags = [1e-120, 1e-40, 1e-7, 1.0, 1e7, 1e40, 1e120];
            for i in 0..n { a[i*n+i] = rng.gen() * rng.pick(&mags); }
            if rng.uni() < 0.5 { for i in 1..n { a[i*n+i-1] = rng.gen() * rng.pick(&mags); } }
        }
        _ => { // identity with tiny perturbations and few clusters of eigenvalues
            for i in 0..n { a[i*n+i] = 1.0 + rng.pick(&[0.0, f64::EPSILON, -f64::EPSILON/2.0, 1e-7, 1e-12]); }
            for _ in 0..rng.below(n+1) { let i = rng.below(n); let j = rng.below(n); if i != j { a[i*n+j] = rng.gen() * rng.pick(&[1e-7, 1e-12, 1e-40, 0.3]); } }
        }
    }
    a
}

fn matvec(n: usize, a: &[f64], x: &[f64]) -> Vec<f64> {
    (0..n).map(|i| (0..n).map(|j| a[i*n+j] * x[j]).sum()).collect()
}

#[test]
fn sweep() {
    let cases: usize = std::env::var("HUNT_CASES").ok().and_then(|s| s.parse().ok()).unwrap_or(20000);
    let seed: u64 = std::env::var("HUNT_SEED").ok().and_then(|s| s.parse().ok()).unwrap_or(0x9E3779B97F4A7C15);
    let mut rng = Rng(seed);
    let names = ["cg", "bicg1", "bicg2", "bicgstab", "qmr"];
    let mut oks = [0usize; 5];
    let mut worst_excess = [0.0f64; 5];   // (rel - tol) / (eps * scale)
    let mut worst_ratio = [0.0f64; 5];    // rel / tol
    let mut viol = 0usize;
    let scales = [1e-300, 1e-200, 1e-120, 1e-40, 1e-7, 1.0, 1.0, 1.0, 1.0, 0.7, 45.24, 1e7, 1e40, 1e120, 1e150, 1e200];
    for case in 0..cases {
        let n = match rng.below(10) { 0 => 1 + rng.below(3), 1..=5 => 2 + rng.below(12), 6..=8 => 7 + rng.below(30), _ => 30 + rng.below(31) };
        let kind = rng.below(11);
        let mut a = gen_matrix(&mut rng, n, kind);
        let sa = if rng.uni() < 0.5 { 1.0 } else { rng.pick(&scales) * rng.uni().max(0.1) };
        for v in a.iter_mut() { *v *= sa; }
        let trip = dense_to_trip(n, &a);
        if trip.iter().any(|t| !t.2.is_finite()) { continue; }
        let xt: Vec<f64> = (0..n).map(|_| rng.gen() * rng.pick(&[1.0, 1.0, 1.0, 1e-7, 1e7])).collect();
        let sx = if rng.uni() < 0.6 { 1.0 } else { rng.pick(&scales) };
        let xt: Vec<f64> = xt.iter().map(|v| v * sx).collect();
        let bk = rng.below(6);
        let mut b: Vec<f64> = match bk {
            0 | 1 => matvec(n, &a, &xt),
            2 => (0..n).map(|_| rng.gen()).collect(),
            3 => { let mut e = vec![0.0; n]; e[rng.below(n)] = rng.gen(); e }
            4 => (0..n).map(|_| rng.gen() * rng.pick(&[1e-40, 1e-7, 1.0, 1e7, 1e40])).collect(),
            _ => { let mut v = matvec(n, &a, &xt); let k = rng.below(n); v[k] += rng.gen() * rng.pick(&[1e-13, 1e-9, 1e-5, 1e-2]) * v[k].abs().max(1e-300); v }
        };
        if bk >= 2 && bk <= 4 { let sb = if rng.uni() < 0.5 { 1.0 } else { rng.pick(&scales) }; for v in b.iter_mut() { *v *= sb; } }
        if b.iter().any(|v| !v.is_finite()) { continue; }
        if b.iter().all(|v| *v == 0.0) { continue; } // b = 0 convention is known
        // known: subnormal rhs -> require ||b||_inf >= 1e-290
        let bmax = b.iter().fold(0.0f64, |m, v| m.max(v.abs()));
        if bmax < 2.3e-308 { continue; }
        let x0: Vec<f64> = match rng.below(8) {
            0 | 1 | 2 => vec![0.0; n],
            3 => (0..n).map(|_| rng.gen()).collect(),
            4 => xt.clone(),
            5 => xt.iter().map(|v| v * (1.0 + rng.sym() * rng.pick(&[1e-15, 1e-12, 1e-9, 1e-6, 1e-3]))).collect(),
            6 => (0..n).map(|_| rng.gen() * rng.pick(&scales)).collect(),
            _ => xt.iter().map(|v| v * rng.pick(&[1e-7, 1e7, 1e40, -1.0, 2.0])).collect(),
        };
        let tol = 10f64.powf(-2.0 - 10.0 * rng.uni());
        let tol = if rng.uni() < 0.2 { rng.pick(&[1e-12, 1e-2, 1e-8, 1e-10]) } else { tol };
        let max_iter = match rng.below(8) { 0 => 0, 1 => 1, 2 => 2, 3 => 1 + rng.below(n), 4 => n, 5 => 2 * n, 6 => 10 * n, _ => 1000 };
        let sp = match rng.below(5) {
            0 => build(n, &trip),
            1 => { // shuffled triplets
                let mut t = trip.clone(); for i in (1..t.len()).rev() { let j = rng.below(i+1); t.swap(i, j); } Sparse::from_triplets(n, n, &mut t) }
            2 => { // from_vecs with rows in descending order inside each column
                let mut val = vec![]; let mut ri = vec![]; let mut cs = vec![0usize];
                for j in 0..n { for i in (0..n).rev() { if a[i*n+j] != 0.0 { val.push(a[i*n+j]); ri.push(i); } } cs.push(val.len()); }
                Sparse::from_vecs(n, n, val, ri, cs) }
            3 => { // built by insert, in random order, with an overwrite
                let mut e: Vec<(usize, usize, f64)> = vec![]; let mut sp = Sparse::from_triplets(n, n, &mut e);
                let mut t = trip.clone(); for i in (1..t.len()).rev() { let j = rng.below(i+1); t.swap(i, j); }
                if n <= 20 { for &(i, j, v) in t.iter() { sp.insert(i, j, v * 3.0); } for &(i, j, v) in t.iter() { sp.insert(i, j, v); } sp } else { build(n, &trip) } }
            _ => { build(n, &trip).transpose().transpose() }
        };
        let bv = Vector::create(b.clone());
        for s in 0..5 {
            let mut x = Vector::create(x0.clone());
            let res = match s {
                0 => sp.solve_cg(&bv, &mut x, max_iter, tol),
                1 => sp.solve_bicg(&bv, &mut x, max_iter, tol, 1),
                2 => sp.solve_bicg(&bv, &mut x, max_iter, tol, 2),
                3 => sp.solve_bicgstab(&bv, &mut x, max_iter, tol),
                _ => sp.solve_qmr(&bv, &mut x, max_iter, tol),
            };
            if max_iter == 0 {
                let same = x.vec.iter().zip(x0.iter()).all(|(p, q)| p.to_bits() == q.to_bits());
                if !same { viol += 1; println!("VIOL budget0 x changed: case {} {} n {} kind {}", case, names[s], n, kind); }
            }
            if let Ok(k) = res {
                oks[s] += 1;
                let mut bad = String::new();
                if k > max_iter { bad.push_str("iter>max "); }
                if !x.vec.iter().all(|v| v.is_finite()) { bad.push_str("nonfinite "); }
                let (rel, scale) = ref_relres(n, &trip, &b, &x.vec);
                let excess = (rel - tol) / (f64::EPSILON * scale.max(1e-300));
                let ratio = rel / tol;
                if rel > tol {
                    if excess > worst_excess[s] { worst_excess[s] = excess; }
                    if ratio > worst_ratio[s] && excess > 4.0 * (n as f64) { worst_ratio[s] = ratio; }
                }
                // violation: residual above tol by more than rounding of evaluating b - A x (n * eps * ||A|| ||x|| / ||b||)
                if !(rel <= tol * (1.0 + 1e-12) + 4.0 * (n as f64 + 4.0) * f64::EPSILON * scale) { bad.push_str("resid "); }
                if !bad.is_empty() {
                    viol += 1;
                    println!("x = {:?}\nb = {:?}\nx0 = {:?}\ntrip = {:?}", x.vec, b, x0, trip);
                    let rc = bv.clone() - sp.multiply(&x);
                    println!("crate resid {:e} normb {:e}", rc.norm_2(), bv.norm_2());
                    println!("VIOL {} case {} {} n {} kind {} sa {:e} bk {} tol {:e} max_iter {} k {} rel {:e} scale {:e} excess {:e}", bad, case, names[s], n, kind, sa, bk, tol, max_iter, k, rel, scale, excess);
                }
            }
        }
    }
    println!("oks {:?}", oks);
    println!("worst excess (in eps*||A||*||x||/||b|| units) {:?}", worst_excess);
    println!("worst ratio rel/tol among those with excess > 4n: {:?}", worst_ratio);
    assert_eq!(viol, 0);
}
