use ohsl::sparse::Sparse;
use ohsl::vector::Vector;
#[test]
fn order_zero_and_budget_extremes() {
    let mut t: Vec<(usize, usize, f64)> = vec![];
    let sp = Sparse::from_triplets(0, 0, &mut t);
    let b = Vector::<f64>::create(vec![]);
    for s in 0..5 {
        let mut x = Vector::<f64>::create(vec![]);
        let r = match s { 0 => sp.solve_cg(&b, &mut x, 5, 1e-8), 1 => sp.solve_bicg(&b, &mut x, 5, 1e-8, 1), 2 => sp.solve_bicg(&b, &mut x, 5, 1e-8, 2), 3 => sp.solve_bicgstab(&b, &mut x, 5, 1e-8), _ => sp.solve_qmr(&b, &mut x, 5, 1e-8) };
        println!("n=0 solver {} -> {:?}", s, r);
    }
    // 100000 budget on a solvable 2x2 with generic values, and on an unsolvable one that breaks down
    let mut t = vec![(0, 0, 0.7), (0, 1, -0.3), (1, 0, 0.55), (1, 1, 45.24)];
    let sp = Sparse::from_triplets(2, 2, &mut t);
    let b = Vector::create(vec![-0.001, 0.3]);
    for s in 0..5 {
        let mut x = Vector::create(vec![0.0, -0.0]);
        let r = match s { 0 => sp.solve_cg(&b, &mut x, 100000, 1e-12), 1 => sp.solve_bicg(&b, &mut x, 100000, 1e-12, 1), 2 => sp.solve_bicg(&b, &mut x, 100000, 1e-12, 2), 3 => sp.solve_bicgstab(&b, &mut x, 100000, 1e-12), _ => sp.solve_qmr(&b, &mut x, 100000, 1e-12) };
        let r0 = b[0] - (0.7 * x[0] - 0.3 * x[1]); let r1 = b[1] - (0.55 * x[0] + 45.24 * x[1]);
        println!("2x2 solver {} -> {:?} rel {:e}", s, r, (r0 * r0 + r1 * r1).sqrt() / (b[0] * b[0] + b[1] * b[1]).sqrt());
    }
}
