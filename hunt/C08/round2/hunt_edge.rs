use ohsl::vector::Vector;
use ohsl::sparse::Sparse;

fn run(s: &Sparse<f64>, b: &[f64], x0: &[f64], maxit: usize, tol: f64) {
    for solver in 0..5 {
        let bv = Vector::create(b.to_vec());
        let mut x = Vector::create(x0.to_vec());
        let res = match solver {
            0 => s.solve_cg(&bv, &mut x, maxit, tol),
            1 => s.solve_bicg(&bv, &mut x, maxit, tol, 1),
            2 => s.solve_bicg(&bv, &mut x, maxit, tol, 2),
            3 => s.solve_bicgstab(&bv, &mut x, maxit, tol),
            _ => s.solve_qmr(&bv, &mut x, maxit, tol),
        };
        println!("  solver {} -> {:?} x = {:?}", solver, res, x.vec);
    }
}

#[test]
fn zero_col_overflow() {
    println!("A = [[1e-156,.],[1e153,.]] b = col0");
    let mut t = vec![(0usize, 0usize, 1e-156), (1, 0, 1e153)];
    let s = Sparse::<f64>::from_triplets(2, 2, &mut t);
    run(&s, &[1e-156, 1e153], &[0.0, 0.0], 10, 1e-8);
    println!("A = [[1e-160,.],[1,.]] b = (1e-10,1e150)");
    let mut t = vec![(0usize, 0usize, 1e-160), (1, 0, 1.0)];
    let s = Sparse::<f64>::from_triplets(2, 2, &mut t);
    run(&s, &[1e-10, 1e150], &[0.0, 0.0], 10, 1e-8);
}

#[test]
fn normb_overflow() {
    let mut t = vec![(0usize, 0usize, 1.0), (1, 1, 1.0)];
    let s = Sparse::<f64>::from_triplets(2, 2, &mut t);
    run(&s, &[1.5e308, 1.5e308], &[0.75e308, 0.75e308], 10, 1e-8);
    run(&s, &[1.5e308, 1.5e308], &[0.75e308, 0.75e308], 0, 1e-8);
}

#[test]
fn empty_system() {
    let mut t: Vec<(usize, usize, f64)> = vec![];
    let s = Sparse::<f64>::from_triplets(0, 0, &mut t);
    run(&s, &[], &[], 10, 1e-8);
}

#[test]
fn zero_matrix() {
    let mut t: Vec<(usize, usize, f64)> = vec![];
    let s = Sparse::<f64>::from_triplets(3, 3, &mut t);
    run(&s, &[0.0, 0.0, 0.0], &[1.0, f64::MAX, -3.0], 10, 1e-8);
    run(&s, &[1.0, 0.0, 0.0], &[1.0, 2.0, -3.0], 10, 1e-2);
}

#[test]
fn zero_rhs() {
    let mut t = vec![(0usize, 0usize, 2.0), (1, 1, 3.0), (0, 1, 1.0), (1, 0, 1.0)];
    let s = Sparse::<f64>::from_triplets(2, 2, &mut t);
    run(&s, &[0.0, 0.0], &[1.0, 1.0], 10, 1e-2);
    run(&s, &[0.0, -0.0], &[1e-3, 1e-3], 10, 1e-2);
}
