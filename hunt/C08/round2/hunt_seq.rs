use ohsl::vector::Vector;
use ohsl::sparse::Sparse;

struct Rng(u64);
impl Rng {
    fn next(&mut self) -> u64 { let mut x = self.0; x ^= x << 13; x ^= x >> 7; x ^= x << 17; self.0 = x; x }
    fn uni(&mut self) -> f64 { (self.next() >> 11) as f64 / (1u64 << 53) as f64 }
    fn sym(&mut self) -> f64 { 2.0 * self.uni() - 1.0 }
    fn below(&mut self, n: usize) -> usize { (self.next() % n as u64) as usize }
}
fn nrm(v: &[f64]) -> f64 { v.iter().map(|a| a * a).sum::<f64>().sqrt() }

#[test]
fn built_by_edits() {
    let mut rng = Rng(12345);
    let mut bad = 0; let mut oks = 0;
    for trial in 0..1500 {
        let n = 1 + rng.below(25);
        let mut a = vec![vec![0.0f64; n]; n];
        // start from a few triplets (possibly none), then insert/overwrite, scale, transpose
        let mut t = vec![];
        for _ in 0..rng.below(2 * n) { let i = rng.below(n); let j = rng.below(n); if a[i][j] == 0.0 { let v = rng.sym(); a[i][j] = v; t.push((i, j, v)); } }
        let mut s = Sparse::<f64>::from_triplets(n, n, &mut t);
        let ops = 1 + rng.below(4 * n);
        for _ in 0..ops {
            match rng.below(10) {
                0 => { let f = 1.0 + rng.uni(); s.scale(&f); for i in 0..n { for j in 0..n { a[i][j] *= f; } } }
                1 => { s = s.transpose(); let mut at = vec![vec![0.0; n]; n]; for i in 0..n { for j in 0..n { at[j][i] = a[i][j]; } } a = at; }
                2 => { let i = rng.below(n); let v = 3.0 + rng.uni(); s.insert(i, i, v); a[i][i] = v; }
                _ => { let i = rng.below(n); let j = rng.below(n); let v = rng.sym(); s.insert(i, j, v); a[i][j] = v; }
            }
        }
        if rng.below(2) == 0 { for i in 0..n { let v = 4.0 + rng.uni() + (n as f64) * 0.2; s.insert(i, i, v); a[i][i] = v; } }
        // accessor consistency
        for i in 0..n { for j in 0..n { let g = s.get(i, j).unwrap_or(0.0); if g != a[i][j] { bad += 1; println!("get mismatch trial {} ({},{}) {} vs {}", trial, i, j, g, a[i][j]); } } }
        let b: Vec<f64> = (0..n).map(|_| rng.sym()).collect();
        let tol = [1e-12, 1e-8, 1e-4, 1e-2][rng.below(4)];
        let maxit = [0, 1, 3, 50, 1000][rng.below(5)];
        for solver in 0..5 {
            let bv = Vector::create(b.clone());
            let x0: Vec<f64> = (0..n).map(|_| rng.sym()).collect();
            let mut x = Vector::create(x0.clone());
            let res = match solver {
                0 => s.solve_cg(&bv, &mut x, maxit, tol),
                1 => s.solve_bicg(&bv, &mut x, maxit, tol, 1),
                2 => s.solve_bicg(&bv, &mut x, maxit, tol, 2),
                3 => s.solve_bicgstab(&bv, &mut x, maxit, tol),
                _ => s.solve_qmr(&bv, &mut x, maxit, tol),
            };
            if maxit == 0 && x.vec != x0 { bad += 1; println!("touched"); }
            if let Ok(it) = res {
                oks += 1;
                let mut r = b.clone();
                for i in 0..n { for j in 0..n { r[i] -= a[i][j] * x[j]; } }
                let rel = nrm(&r) / nrm(&b);
                let amax = a.iter().flatten().fold(0.0f64, |m, v| m.max(v.abs()));
                let allow = tol * (1.0 + 1e-9) + 1e-14 * n as f64 * amax * nrm(&x.vec) / nrm(&b);
                if it > maxit || !x.vec.iter().all(|v| v.is_finite()) || !(rel <= allow) {
                    bad += 1; println!("VIOLATION trial {} n {} solver {} Ok({}) rel {:e} tol {:e}", trial, n, solver, it, rel, tol);
                }
            }
        }
    }
    println!("oks {} bad {}", oks, bad);
    assert_eq!(bad, 0);
}

#[test]
fn from_vecs_unsorted_rows() {
    // column-compressed arrays with rows in descending order inside each column
    let n = 6;
    let mut val = vec![]; let mut ri = vec![]; let mut cs = vec![0usize];
    let mut a = vec![vec![0.0f64; n]; n];
    for j in 0..n { for i in (0..n).rev() { if i == j || (i + j) % 3 == 0 { let v = if i == j { 5.0 } else { 0.5 + 0.1 * i as f64 - 0.07 * j as f64 }; a[i][j] = v; val.push(v); ri.push(i); } } cs.push(val.len()); }
    let s = Sparse::<f64>::from_vecs(n, n, val, ri, cs);
    let b: Vec<f64> = (0..n).map(|i| 1.0 + i as f64).collect();
    for solver in 0..5 {
        let bv = Vector::create(b.clone());
        let mut x = Vector::create(vec![0.0; n]);
        let res = match solver {
            0 => s.solve_cg(&bv, &mut x, 100, 1e-10),
            1 => s.solve_bicg(&bv, &mut x, 100, 1e-10, 1),
            2 => s.solve_bicg(&bv, &mut x, 100, 1e-10, 2),
            3 => s.solve_bicgstab(&bv, &mut x, 100, 1e-10),
            _ => s.solve_qmr(&bv, &mut x, 100, 1e-10),
        };
        let mut r = b.clone();
        for i in 0..n { for j in 0..n { r[i] -= a[i][j] * x[j]; } }
        println!("solver {} {:?} rel {:e}", solver, res, nrm(&r) / nrm(&b));
        if res.is_ok() { assert!(nrm(&r) / nrm(&b) <= 1.0001e-10); }
    }
}
