// C08: "whenever a solver reports success, the vector left in x is finite".
// Singular 2 x 2 system whose second column is structurally empty (x[1] is a free unknown):
//     A = [ 1e-156  . ]     b = [ 1e-156 ]   ( = A * (1, anything) ),   x0 = 0, tol 1e-8, budget 10
//         [ 1e153   . ]         [ 1e153  ]
// The first step is alpha * p with alpha = 1e156 and p = b, so x[1] = 1e156 * 1e153 overflows to inf.
// The confirmation b - A x never looks at x[1] (Sparse::multiply skips the empty column), sees a zero
// residual and the solver answers Ok(1) with x = [1, inf].
use ohsl::vector::Vector;
use ohsl::sparse::Sparse;

fn system() -> ( Sparse<f64>, Vector<f64> ) {
    let mut triplets = vec![ ( 0usize, 0usize, 1.0e-156 ), ( 1, 0, 1.0e153 ) ];
    let a = Sparse::<f64>::from_triplets( 2, 2, &mut triplets );
    let b = Vector::<f64>::create( vec![ 1.0e-156, 1.0e153 ] );
    ( a, b )
}

fn check( name: &str, result: Result<usize, f64>, x: &Vector<f64> ) {
    if let Ok( iter ) = result {
        assert!( iter <= 10 );
        assert!( x.vec.iter().all( |v| v.is_finite() ),
            "{} answered Ok({}) but left the non-finite vector {:?} in x", name, iter, x.vec );
    }
}

#[test]
fn ok_means_x_is_finite_cg() {
    let ( a, b ) = system();
    let mut x = Vector::<f64>::new( 2, 0.0 );
    let result = a.solve_cg( &b, &mut x, 10, 1.0e-8 );
    check( "solve_cg", result, &x );
}

#[test]
fn ok_means_x_is_finite_bicg_itol_1() {
    let ( a, b ) = system();
    let mut x = Vector::<f64>::new( 2, 0.0 );
    let result = a.solve_bicg( &b, &mut x, 10, 1.0e-8, 1 );
    check( "solve_bicg(itol=1)", result, &x );
}

#[test]
fn ok_means_x_is_finite_bicg_itol_2() {
    let ( a, b ) = system();
    let mut x = Vector::<f64>::new( 2, 0.0 );
    let result = a.solve_bicg( &b, &mut x, 10, 1.0e-8, 2 );
    check( "solve_bicg(itol=2)", result, &x );
}

#[test]
fn ok_means_x_is_finite_bicgstab() {
    let ( a, b ) = system();
    let mut x = Vector::<f64>::new( 2, 0.0 );
    let result = a.solve_bicgstab( &b, &mut x, 10, 1.0e-8 );
    check( "solve_bicgstab", result, &x );
}

#[test]
fn ok_means_x_is_finite_qmr() {
    // holds today (QMR answers Err here); kept so that a repair does not move the defect
    let ( a, b ) = system();
    let mut x = Vector::<f64>::new( 2, 0.0 );
    let result = a.solve_qmr( &b, &mut x, 10, 1.0e-8 );
    check( "solve_qmr", result, &x );
}
