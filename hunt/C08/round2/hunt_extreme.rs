use ohsl::vector::Vector;
use ohsl::sparse::Sparse;

struct Rng(u64);
impl Rng {
    fn next(&mut self) -> u64 { let mut x = self.0; x ^= x << 13; x ^= x >> 7; x ^= x << 17; self.0 = x; x }
    fn uni(&mut self) -> f64 { (self.next() >> 11) as f64 / (1u64 << 53) as f64 }
    fn sym(&mut self) -> f64 { 2.0 * self.uni() - 1.0 }
    fn below(&mut self, n: usize) -> usize { (self.next() % n as u64) as usize }
    fn p10(&mut self, lim: i32) -> f64 { 10f64.powi(self.below((2 * lim + 1) as usize) as i32 - lim) }
}

// wide-exponent float: value = m * 2^e, m in [0.5,1) or 0
#[derive(Clone, Copy, Debug)]
struct X { m: f64, e: i64 }
fn norm(m: f64, e: i64) -> X {
    if m == 0.0 { return X { m: 0.0, e: 0 }; }
    let bits = m.to_bits();
    let ex = ((bits >> 52) & 0x7ff) as i64;
    if ex == 0 { // subnormal
        let mm = m * 2f64.powi(200);
        let r = norm(mm, e - 200); return r;
    }
    let shift = ex - 1022; // m = f * 2^shift with f in [0.5,1)
    let f = f64::from_bits((bits & !(0x7ffu64 << 52)) | (1022u64 << 52));
    X { m: f, e: e + shift }
}
fn xf(v: f64) -> X { norm(v, 0) }
fn mul(a: X, b: X) -> X { norm(a.m * b.m, a.e + b.e) }
fn add(a: X, b: X) -> X {
    if a.m == 0.0 { return b; } if b.m == 0.0 { return a; }
    let (hi, lo) = if a.e >= b.e { (a, b) } else { (b, a) };
    let d = hi.e - lo.e;
    if d > 120 { return hi; }
    norm(hi.m + lo.m * 2f64.powi(-(d as i32)), hi.e)
}
fn neg(a: X) -> X { X { m: -a.m, e: a.e } }
fn sqrtx(a: X) -> X { if a.m == 0.0 { return a; } if a.e % 2 == 0 { norm(a.m.sqrt(), a.e / 2) } else { norm((a.m * 2.0).sqrt(), (a.e - 1) / 2) } }
fn nrmx(v: &[X]) -> X { let mut s = X { m: 0.0, e: 0 }; for &a in v { s = add(s, mul(a, a)); } sqrtx(s) }
fn ratio(a: X, b: X) -> f64 { // a/b as f64 (saturating)
    if a.m == 0.0 { return 0.0; }
    let q = a.m / b.m; let e = a.e - b.e;
    if e > 1000 { return f64::INFINITY * q.signum(); } if e < -1000 { return 0.0; }
    q * 2f64.powi(e as i32)
}

#[test]
fn extreme() {
    let mut rng = Rng(0xABCDEF12345);
    let tols = [1e-12, 1e-10, 1e-8, 1e-6, 1e-4, 1e-2];
    let mut oks = 0; let mut bad = 0; let mut nonfin = 0;
    for trial in 0..20000 {
        let nmax = if rng.below(3) == 0 { 60 } else { 6 }; let n = 1 + rng.below(nmax);
        let mut a = vec![vec![0.0f64; n]; n];
        let mode = rng.below(6);
        let lim = [150, 150, 300, 100, 153, 160][mode];
        let sa = rng.p10(lim);
        for i in 0..n {
            let rs = if rng.below(2) == 0 { rng.p10(lim / 2) } else { 1.0 };
            a[i][i] = sa * rs * (2.0 + rng.uni());
            for _ in 0..rng.below(3) { let j = rng.below(n); a[i][j] = sa * rs * rng.sym() * if rng.below(4) == 0 { rng.p10(lim / 2) } else { 1.0 }; }
        }
        if rng.below(3) == 0 { let j = rng.below(n); for i in 0..n { a[i][j] = 0.0; } }
        if rng.below(6) == 0 { let i = rng.below(n); for j in 0..n { a[i][j] = 0.0; } }
        for i in 0..n { for j in 0..n { if !a[i][j].is_finite() { a[i][j] = 0.0; } } }
        let mut t = vec![];
        for i in 0..n { for j in 0..n { if a[i][j] != 0.0 { t.push((i, j, a[i][j])); } } }
        let s = Sparse::<f64>::from_triplets(n, n, &mut t);
        let mut b = vec![0.0f64; n];
        let bk = rng.below(4);
        let xs: Vec<f64> = (0..n).map(|_| rng.sym() * if rng.below(3) == 0 { rng.p10(lim / 2) } else { 1.0 }).collect();
        if bk <= 1 { for i in 0..n { let mut sum = 0.0; for j in 0..n { sum += a[i][j] * xs[j]; } b[i] = sum; } }
        else if bk == 2 { let sb = rng.p10(lim); for i in 0..n { b[i] = sb * rng.sym(); } }
        for i in 0..n { if !b[i].is_finite() { b[i] = 0.0; } }
        let x0: Vec<f64> = match rng.below(4) { 0 => xs.iter().map(|v| v * (1.0 + 1e-6 * rng.sym())).collect(), 1 => (0..n).map(|_| rng.sym() * rng.p10(lim)).collect(), _ => vec![0.0; n] };
        let tol = tols[rng.below(6)];
        let maxit = [0, 1, 2, 5, 100, 1000][rng.below(6)];
        for solver in 0..5 {
            let bv = Vector::create(b.clone());
            let mut x = Vector::create(x0.clone());
            let res = match solver {
                0 => s.solve_cg(&bv, &mut x, maxit, tol),
                1 => s.solve_bicg(&bv, &mut x, maxit, tol, 1),
                2 => s.solve_bicg(&bv, &mut x, maxit, tol, 2),
                3 => s.solve_bicgstab(&bv, &mut x, maxit, tol),
                _ => s.solve_qmr(&bv, &mut x, maxit, tol),
            };
            if maxit == 0 { for i in 0..n { if x[i].to_bits() != x0[i].to_bits() { bad += 1; println!("touched"); } } }
            if let Ok(it) = res {
                oks += 1;
                let fin = x.vec.iter().all(|v| v.is_finite());
                if !fin { nonfin += 1; if nonfin <= 5 { println!("NONFINITE trial {} n {} solver {} Ok({}) x {:?}", trial, n, solver, it, if n <= 6 { x.vec.clone() } else { vec![] }); } continue; }
                let mut r = vec![X { m: 0.0, e: 0 }; n];
                let mut big = X { m: 0.0, e: 0 };
                for i in 0..n { let mut sum = xf(b[i]); for j in 0..n { if a[i][j] != 0.0 { let p = mul(xf(a[i][j]), xf(x[j])); let pa = X { m: p.m.abs(), e: p.e }; if ratio(pa, X{m:0.5,e:0}) > ratio(big, X{m:0.5,e:0}) || (pa.m != 0.0 && (big.m == 0.0 || pa.e > big.e)) { big = pa; } sum = add(sum, neg(p)); } } r[i] = sum; }
                let bx: Vec<X> = b.iter().map(|&v| xf(v)).collect();
                let nb = nrmx(&bx); let nr = nrmx(&r);
                let rel = if nb.m == 0.0 { ratio(nr, X { m: 0.5, e: 1 }) } else { ratio(nr, nb) };
                let drift = if nb.m == 0.0 { ratio(big, X { m: 0.5, e: 1 }) } else { ratio(big, nb) } * 1e-14 * n as f64;
                if it > maxit || !(rel <= tol * (1.0 + 1e-9) + drift) {
                    bad += 1;
                    if bad <= 20 { println!("VIOLATION trial {} n {} mode {} solver {} tol {:e} maxit {} Ok({}) rel {:e} drift {:e} nb {:?}", trial, n, mode, solver, tol, maxit, it, rel, drift, nb); if n <= 4 { println!("   a {:?} b {:?} x0 {:?} x {:?}", a, b, x0, x.vec); } }
                }
            }
        }
    }
    println!("oks {} bad {} nonfinite {}", oks, bad, nonfin);
    assert_eq!(bad + nonfin, 0);
}
