use ohsl::vector::Vector;
use ohsl::sparse::Sparse;

struct Rng(u64);
impl Rng {
    fn next(&mut self) -> u64 { let mut x = self.0; x ^= x << 13; x ^= x >> 7; x ^= x << 17; self.0 = x; x }
    fn uni(&mut self) -> f64 { (self.next() >> 11) as f64 / (1u64 << 53) as f64 }
    fn sym(&mut self) -> f64 { 2.0 * self.uni() - 1.0 }
    fn below(&mut self, n: usize) -> usize { (self.next() % n as u64) as usize }
}

// scaled 2-norm
fn nrm(v: &[f64]) -> f64 {
    let mut s = 0.0f64;
    for &a in v { if a.abs() > s || a.is_nan() { s = a.abs(); } }
    if s == 0.0 || !s.is_finite() { return s; }
    let mut t = 0.0;
    for &a in v { let q = a / s; t += q * q; }
    s * t.sqrt()
}

fn dense_mul(a: &Vec<Vec<f64>>, x: &[f64]) -> Vec<f64> {
    let n = a.len();
    let mut y = vec![0.0; n];
    for i in 0..n { let mut s = 0.0; for j in 0..n { if a[i][j] != 0.0 || !x[j].is_finite() { s += a[i][j] * x[j]; } } y[i] = s; }
    y
}

fn gen(rng: &mut Rng, n: usize, kind: usize) -> Vec<Vec<f64>> {
    let mut a = vec![vec![0.0; n]; n];
    match kind {
        0 => { // SPD tridiagonal-ish
            for i in 0..n { a[i][i] = 2.0 + rng.uni(); if i + 1 < n { let v = -rng.uni(); a[i][i+1] = v; a[i+1][i] = v; } }
        }
        1 => { // nonsymmetric diag dominant sparse
            for i in 0..n { a[i][i] = 4.0 + rng.uni(); for _ in 0..2 { let j = rng.below(n); if j != i { a[i][j] = rng.sym(); } } }
        }
        2 => { // indefinite symmetric
            for i in 0..n { a[i][i] = if i % 2 == 0 { 1.0 + rng.uni() } else { -1.0 - rng.uni() }; if i + 1 < n { let v = 0.3 * rng.sym(); a[i][i+1] = v; a[i+1][i] = v; } }
        }
        3 => { // ill-conditioned SPD: diag with spread
            for i in 0..n { a[i][i] = 10f64.powf(-12.0 * (i as f64) / (n.max(2) - 1) as f64); if i + 1 < n { let v = 1e-13 * rng.sym(); a[i][i+1] = v; a[i+1][i] = v; } }
        }
        4 => { // singular: zero column(s) and maybe zero rows
            for i in 0..n { a[i][i] = 2.0 + rng.uni(); for _ in 0..2 { let j = rng.below(n); a[i][j] = rng.sym(); } }
            let j = rng.below(n); for i in 0..n { a[i][j] = 0.0; }
            if rng.below(2) == 0 { let i = rng.below(n); for j in 0..n { a[i][j] = 0.0; } }
        }
        5 => { // singular symmetric (graph Laplacian)
            for i in 0..n { if i + 1 < n { a[i][i] += 1.0; a[i+1][i+1] += 1.0; a[i][i+1] -= 1.0; a[i+1][i] -= 1.0; } }
        }
        6 => { // random dense-ish nonsymmetric
            for i in 0..n { for j in 0..n { if rng.below(3) == 0 { a[i][j] = rng.sym(); } } }
        }
        7 => { // mixed magnitude rows/cols
            for i in 0..n { let s = 10f64.powi((rng.below(61) as i32) - 30); a[i][i] = s * (1.0 + rng.uni()); for _ in 0..2 { let j = rng.below(n); a[i][j] += s * rng.sym(); } }
        }
        8 => { // extreme magnitude scalings
            let s = 10f64.powi((rng.below(601) as i32) - 300);
            for i in 0..n { a[i][i] = s * (2.0 + rng.uni()); if i + 1 < n { let v = -s * rng.uni(); a[i][i+1] = v; a[i+1][i] = v; } }
        }
        _ => { // permutation-like / skew
            for i in 0..n { let j = (i + 1) % n; a[i][j] = 1.0 + rng.uni(); if rng.below(2) == 0 { a[j][i] = -a[i][j]; } }
        }
    }
    a
}

fn to_sparse(a: &Vec<Vec<f64>>, rng: &mut Rng) -> Sparse<f64> {
    let n = a.len();
    let mut t = vec![];
    for i in 0..n { for j in 0..n { if a[i][j] != 0.0 { t.push((i, j, a[i][j])); } } }
    // shuffle
    for k in (1..t.len()).rev() { let l = rng.below(k + 1); t.swap(k, l); }
    Sparse::<f64>::from_triplets(n, n, &mut t)
}

#[test]
fn fuzz() {
    let mut rng = Rng(0x9E3779B97F4A7C15);
    let tols = [1e-12, 1e-10, 1e-8, 1e-6, 1e-4, 1e-2];
    let mut oks = 0usize; let mut runs = 0usize; let mut bad = 0usize;
    for trial in 0..6000 {
        let n = match rng.below(6) { 0 => 1 + rng.below(3), 1 => 60, _ => 1 + rng.below(60) };
        let kind = rng.below(10);
        let a = gen(&mut rng, n, kind);
        let s = to_sparse(&a, &mut rng);
        // rhs
        let bk = rng.below(6);
        let bscale = match rng.below(5) { 0 => 10f64.powi((rng.below(601) as i32) - 300), _ => 1.0 };
        let mut b = vec![0.0; n];
        match bk {
            0 => {}
            1 => { let xs: Vec<f64> = (0..n).map(|_| rng.sym()).collect(); b = dense_mul(&a, &xs); }
            2 => { b[rng.below(n)] = 1.0; }
            _ => { for i in 0..n { b[i] = rng.sym(); } }
        }
        for i in 0..n { b[i] *= bscale; }
        let x0k = rng.below(5);
        let mut x0 = vec![0.0; n];
        match x0k { 0 => {}, 1 => { for i in 0..n { x0[i] = rng.sym(); } }, 2 => { for i in 0..n { x0[i] = 1e8 * rng.sym(); } }, 3 => { for i in 0..n { x0[i] = -0.0; } }, _ => { for i in 0..n { x0[i] = bscale * rng.sym(); } } }
        let tol = tols[rng.below(6)];
        let maxit = match rng.below(6) { 0 => 0, 1 => 1, 2 => 2, 3 => n, 4 => 1000, _ => rng.below(200) };
        for solver in 0..5 {
            let bv = Vector::create(b.clone());
            let mut x = Vector::create(x0.clone());
            let res = match solver {
                0 => s.solve_cg(&bv, &mut x, maxit, tol),
                1 => s.solve_bicg(&bv, &mut x, maxit, tol, 1),
                2 => s.solve_bicg(&bv, &mut x, maxit, tol, 2),
                3 => s.solve_bicgstab(&bv, &mut x, maxit, tol),
                _ => s.solve_qmr(&bv, &mut x, maxit, tol),
            };
            runs += 1;
            if maxit == 0 {
                for i in 0..n { if x[i].to_bits() != x0[i].to_bits() { bad += 1; println!("UNTOUCHED violated trial {} solver {}", trial, solver); } }
            }
            match res {
                Ok(it) => {
                    oks += 1;
                    if it > maxit { bad += 1; println!("ITER {} > {} trial {} solver {}", it, maxit, trial, solver); }
                    let fin = x.vec.iter().all(|v| v.is_finite());
                    let ax = dense_mul(&a, &x.vec);
                    let r: Vec<f64> = (0..n).map(|i| b[i] - ax[i]).collect();
                    let nb = nrm(&b); let nr = nrm(&r);
                    let rel = if nb == 0.0 { nr } else { nr / nb };
                    // drift allowance
                    let mut na = 0.0f64; for i in 0..n { for j in 0..n { na = na.max(a[i][j].abs()); } }
                    let nx = nrm(&x.vec);
                    let allow = tol * (1.0 + 1e-9) + 1e-14 * (n as f64) * na * nx / if nb == 0.0 { 1.0 } else { nb };
                    if !fin || !(rel <= allow) {
                        bad += 1;
                        println!("VIOLATION trial {} n {} kind {} bk {} bscale {:e} x0k {} tol {:e} maxit {} solver {} -> Ok({}) fin {} rel {:e} allow {:e} nb {:e}", trial, n, kind, bk, bscale, x0k, tol, maxit, solver, it, fin, rel, allow, nb);
                    }
                }
                Err(_) => {}
            }
        }
    }
    println!("runs {} oks {} bad {}", runs, oks, bad);
    assert_eq!(bad, 0);
}
