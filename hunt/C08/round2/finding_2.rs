// C08: "whenever a solver reports success ... the true relative residual ||b - A x|| / ||b|| is at most
// the requested tolerance".
// A = I (2 x 2), b = (1.5e308, 1.5e308), initial guess x0 = (1.5e308, 0): the first equation is solved,
// the second is not, so ||b - A x0|| / ||b|| = 1 / sqrt(2) = 0.707.  ||b|| = 2.12e308 is not representable,
// b.norm_2() returns inf, and every solver computes resid = 1.5e308 / inf = 0 <= tol and answers Ok(0).
use ohsl::vector::Vector;
use ohsl::sparse::Sparse;

const TOL: f64 = 1.0e-8;

fn system() -> ( Sparse<f64>, Vector<f64>, Vector<f64> ) {
    let mut triplets = vec![ ( 0usize, 0usize, 1.0 ), ( 1, 1, 1.0 ) ];
    let a = Sparse::<f64>::from_triplets( 2, 2, &mut triplets );
    let b = Vector::<f64>::create( vec![ 1.5e308, 1.5e308 ] );
    let x0 = Vector::<f64>::create( vec![ 1.5e308, 0.0 ] );
    ( a, b, x0 )
}

// true relative residual for A = I; every entry is divided by b[0] first so that nothing overflows
fn relative_residual( b: &Vector<f64>, x: &Vector<f64> ) -> f64 {
    let r0 = ( b[ 0 ] - x[ 0 ] ) / b[ 0 ];
    let r1 = ( b[ 1 ] - x[ 1 ] ) / b[ 0 ];
    let b1 = b[ 1 ] / b[ 0 ];
    ( r0 * r0 + r1 * r1 ).sqrt() / ( 1.0 + b1 * b1 ).sqrt()
}

fn check( name: &str, result: Result<usize, f64>, x: &Vector<f64> ) {
    if let Ok( iter ) = result {
        let rel = relative_residual( &Vector::<f64>::create( vec![ 1.5e308, 1.5e308 ] ), x );
        assert!( x.vec.iter().all( |v| v.is_finite() ) );
        assert!( rel <= TOL * ( 1.0 + 1.0e-9 ),
            "{} answered Ok({}) with x = {:?} whose true relative residual is {:e} > tol = {:e}",
            name, iter, x.vec, rel, TOL );
    }
}

#[test]
fn ok_means_solved_cg() {
    let ( a, b, mut x ) = system();
    let result = a.solve_cg( &b, &mut x, 10, TOL );
    check( "solve_cg", result, &x );
}

#[test]
fn ok_means_solved_bicg_itol_1() {
    let ( a, b, mut x ) = system();
    let result = a.solve_bicg( &b, &mut x, 10, TOL, 1 );
    check( "solve_bicg(itol=1)", result, &x );
}

#[test]
fn ok_means_solved_bicg_itol_2() {
    let ( a, b, mut x ) = system();
    let result = a.solve_bicg( &b, &mut x, 10, TOL, 2 );
    check( "solve_bicg(itol=2)", result, &x );
}

#[test]
fn ok_means_solved_bicgstab() {
    let ( a, b, mut x ) = system();
    let result = a.solve_bicgstab( &b, &mut x, 10, TOL );
    check( "solve_bicgstab", result, &x );
}

#[test]
fn ok_means_solved_qmr() {
    let ( a, b, mut x ) = system();
    let result = a.solve_qmr( &b, &mut x, 10, TOL );
    check( "solve_qmr", result, &x );
}
