// C08 finding 1: solve_cg / solve_bicg answer Ok although the x they leave behind does not solve
// the system at all, when the step alpha*p underflows (x stays 0, or lands in the subnormal range).
// The recurrence residual r -= alpha*(A p) is not affected by the underflow, goes to ~0 and is the
// only thing the success test looks at. solve_bicgstab / solve_qmr (which confirm with b - A x)
// answer Err on the same inputs.
use ohsl::sparse::Sparse;
use ohsl::vector::Vector;

const SOLVERS: [&str; 5] = ["cg", "bicg1", "bicg2", "bicgstab", "qmr"];

fn run(s: &str, a: &Sparse<f64>, b: &Vector<f64>, x: &mut Vector<f64>, it: usize, tol: f64) -> Result<usize, f64> {
    match s {
        "cg" => a.solve_cg(b, x, it, tol),
        "bicg1" => a.solve_bicg(b, x, it, tol, 1),
        "bicg2" => a.solve_bicg(b, x, it, tol, 2),
        "bicgstab" => a.solve_bicgstab(b, x, it, tol),
        _ => a.solve_qmr(b, x, it, tol),
    }
}

// A = scale * tridiag(-1, 2, -1) of order n (SPD, condition number < 6 for n = 3)
fn tridiag(n: usize, scale: f64) -> (Sparse<f64>, Vec<Vec<f64>>) {
    let mut dense = vec![vec![0.0; n]; n];
    let mut t = vec![];
    for i in 0..n {
        dense[i][i] = 2.0 * scale;
        t.push((i, i, 2.0 * scale));
        if i + 1 < n {
            dense[i][i + 1] = -scale; dense[i + 1][i] = -scale;
            t.push((i, i + 1, -scale)); t.push((i + 1, i, -scale));
        }
    }
    (Sparse::<f64>::from_triplets(n, n, &mut t), dense)
}

fn norm(v: &[f64]) -> f64 {
    let m = v.iter().fold(0.0f64, |m, x| m.max(x.abs()));
    if m == 0.0 { return 0.0; }
    m * v.iter().map(|x| (x / m) * (x / m)).sum::<f64>().sqrt()
}

// ||b - A x|| / ||b|| from the dense copy; A and x are rescaled by exact powers of two
// (A * 2^-1000, x * 2^1000) so that subnormal x entries take part as ordinary numbers.
fn rel_residual(dense: &Vec<Vec<f64>>, b: &[f64], x: &[f64]) -> f64 {
    let up = 2f64.powi(1000);
    let down = 2f64.powi(-1000);
    let n = b.len();
    let mut r = vec![0.0; n];
    for i in 0..n {
        let mut s = b[i];
        for j in 0..n { s -= (dense[i][j] * down) * (x[j] * up); }
        r[i] = s;
    }
    norm(&r) / norm(b)
}

fn judge(n: usize, scale_a: f64, scale_b: f64, tol: f64, only: &[&str]) {
    let (a, dense) = tridiag(n, scale_a);
    let bs = vec![scale_b; n];
    let b = Vector::<f64>::create(bs.clone());
    let max_iter = 100;
    let mut bad = vec![];
    for s in SOLVERS.iter().filter(|s| only.contains(s)) {
        let mut x = Vector::<f64>::new(n, 0.0);
        let res = run(s, &a, &b, &mut x, max_iter, tol);
        let xs: Vec<f64> = (0..n).map(|i| x[i]).collect();
        if let Ok(k) = res {
            assert!(k <= max_iter);
            assert!(xs.iter().all(|v| v.is_finite()));
            let rel = rel_residual(&dense, &bs, &xs);
            println!("{}: Ok({}) x = {:e?} true relative residual = {:e} (tol {:e})", s, k, xs, rel, tol);
            // rounding allowance: eps * (k+1) * (||b|| + ||A|| ||x||) / ||b|| is below 1e-13 here
            if !(rel <= tol + 1e-13) { bad.push(format!("{}: Ok({}) with true relative residual {:e} > tol {:e}, x = {:e?}", s, k, rel, tol, xs)); }
        } else {
            println!("{}: {:?}", s, res);
        }
    }
    assert!(bad.is_empty(), "{:#?}", bad);
}

// 1 x 1: A = [2e200], b = [1e-150], x0 = 0. alpha * p = 5e-351 underflows to 0, x is never moved,
// yet the answer is Ok(1). ||b - A x|| / ||b|| = 1.
#[test] fn cg_reports_ok_with_x_still_zero() { judge(1, 1e200, 1e-150, 1e-8, &["cg"]); }
#[test] fn bicg_itol1_reports_ok_with_x_still_zero() { judge(1, 1e200, 1e-150, 1e-8, &["bicg1"]); }
#[test] fn bicg_itol2_reports_ok_with_x_still_zero() { judge(1, 1e200, 1e-150, 1e-8, &["bicg2"]); }

// 3 x 3, well conditioned: A = 1e200 * tridiag(-1,2,-1), b = 1e-119 * (1,1,1); the solution
// (1.5,2,1.5)e-319 is subnormal, the x returned carries 4-5 digits, residual ~1e-5 >> tol = 1e-10.
#[test] fn cg_reports_ok_with_subnormal_x() { judge(3, 1e200, 1e-119, 1e-10, &["cg"]); }
#[test] fn bicg_reports_ok_with_subnormal_x() { judge(3, 1e200, 1e-119, 1e-10, &["bicg1", "bicg2"]); }

// the solvers that confirm with the true residual do not claim success on these inputs
#[test] fn control_bicgstab_qmr() {
    judge(1, 1e200, 1e-150, 1e-8, &["bicgstab", "qmr"]);
    judge(3, 1e200, 1e-119, 1e-10, &["bicgstab", "qmr"]);
}
