use ohsl::sparse::Sparse;
use ohsl::vector::Vector;
use std::panic::{catch_unwind, AssertUnwindSafe};

struct Rng(u64);
impl Rng {
    fn next(&mut self) -> u64 { self.0 ^= self.0 << 13; self.0 ^= self.0 >> 7; self.0 ^= self.0 << 17; self.0 }
    fn below(&mut self, n: usize) -> usize { (self.next() % (n as u64)) as usize }
    fn int(&mut self, lo: i64, hi: i64) -> i64 { lo + (self.next() % ((hi - lo + 1) as u64)) as i64 }
}

fn perms(n: usize) -> Vec<Vec<usize>> {
    if n == 0 { return vec![vec![]]; }
    let mut out = vec![];
    for p in perms(n - 1) { for pos in 0..=p.len() { let mut q = p.clone(); q.insert(pos, n - 1); out.push(q); } }
    out
}

fn dmul(a: &Vec<Vec<i64>>, r: usize, c: usize, x: &Vec<i64>) -> Vec<i64> { (0..r).map(|i| (0..c).map(|j| a[i][j] * x[j]).sum()).collect() }
fn dtmul(a: &Vec<Vec<i64>>, r: usize, c: usize, y: &Vec<i64>) -> Vec<i64> { (0..c).map(|j| (0..r).map(|i| a[i][j] * y[i]).sum()).collect() }

// every pattern of every shape with r*c <= 6 cells... and every order of the triplets (<= 6 entries => 720 orders)
#[test]
fn exhaustive_small_all_orders() {
    let mut n = 0usize;
    for r in 0..=4usize { for c in 0..=4usize {
        let cells = r * c; if cells > 6 { continue; }
        for mask in 0u32..(1 << cells) {
            let mut ent = vec![];
            for k in 0..cells { if mask >> k & 1 == 1 { ent.push((k / c, k % c, (k as i64 + 2) * if k % 2 == 0 { 1 } else { -1 })); } }
            let mut a = vec![vec![0i64; c]; r];
            for t in &ent { a[t.0][t.1] = t.2; }
            // distinct primes so that any index mix-up shows
            let x: Vec<i64> = [101, 103, 107, 109][..c].to_vec();
            let y: Vec<i64> = [211, 223, 227, 229][..r].to_vec();
            for p in perms(ent.len()) {
                let mut t: Vec<(usize, usize, i64)> = p.iter().map(|&i| ent[i]).collect();
                let s = Sparse::<i64>::from_triplets(r, c, &mut t);
                n += 1;
                assert_eq!(s.multiply(&Vector::create(x.clone())).vec, dmul(&a, r, c, &x));
                assert_eq!(s.transpose_multiply(&Vector::create(y.clone())).vec, dtmul(&a, r, c, &y));
                let st = s.transpose();
                assert_eq!(st.multiply(&Vector::create(y.clone())).vec, dtmul(&a, r, c, &y));
                assert_eq!(st.transpose_multiply(&Vector::create(x.clone())).vec, dmul(&a, r, c, &x));
                // the same through insert in this order
                let mut e: Vec<(usize, usize, i64)> = vec![];
                let mut s2 = Sparse::<i64>::from_triplets(r, c, &mut e);
                for &i in &p { s2.insert(ent[i].0, ent[i].1, ent[i].2); }
                assert_eq!(s2.multiply(&Vector::create(x.clone())).vec, dmul(&a, r, c, &x));
                assert_eq!(s2.transpose_multiply(&Vector::create(y.clone())).vec, dtmul(&a, r, c, &y));
                assert_eq!(s2.transpose().multiply(&Vector::create(y.clone())).vec, dtmul(&a, r, c, &y));
            }
        }
    } }
    println!("exhaustive: {} matrices", n);
}

// sizes beyond the quantifier (informational): up to 70 x 70, 1 x 300, 300 x 1, 0 x 300, 300 x 0
#[test]
fn larger_sizes() {
    let mut rng = Rng(0xdeadbeefcafe);
    let mut shapes = vec![(1, 300), (300, 1), (0, 300), (300, 0), (2, 257), (257, 2), (64, 65), (70, 70), (33, 70), (70, 7)];
    for k in 7..30 { shapes.push((k, 77 - k)); }
    for (r, c) in shapes {
        for dens in [0usize, 1, 5, 50, 100] {
            let mut ent = vec![]; let mut a = vec![vec![0i64; c]; r];
            for i in 0..r { for j in 0..c { if rng.below(100) < dens { let v = rng.int(-1000, 1000); a[i][j] = v; ent.push((i, j, v)); } } }
            // shuffle
            for i in (1..ent.len()).rev() { let j = rng.below(i + 1); ent.swap(i, j); }
            let x: Vec<i64> = (0..c).map(|_| rng.int(-1000, 1000)).collect();
            let y: Vec<i64> = (0..r).map(|_| rng.int(-1000, 1000)).collect();
            let mut s = Sparse::<i64>::from_triplets(r, c, &mut ent);
            assert_eq!(s.multiply(&Vector::create(x.clone())).vec, dmul(&a, r, c, &x));
            assert_eq!(s.transpose_multiply(&Vector::create(y.clone())).vec, dtmul(&a, r, c, &y));
            let st = s.transpose();
            assert_eq!(st.multiply(&Vector::create(y.clone())).vec, dtmul(&a, r, c, &y));
            assert_eq!(st.transpose_multiply(&Vector::create(x.clone())).vec, dmul(&a, r, c, &x));
            let yax: i64 = y.iter().zip(dmul(&a, r, c, &x)).map(|(p, q)| p * q).sum();
            assert_eq!(Vector::create(y.clone()).dot(&s.multiply(&Vector::create(x.clone()))), yax);
            assert_eq!(s.transpose_multiply(&Vector::create(y.clone())).dot(&Vector::create(x.clone())), yax);
            s.scale(&-3);
            assert_eq!(s.multiply(&Vector::create(x.clone())).vec, dmul(&a, r, c, &x).iter().map(|v| -3 * v).collect::<Vec<_>>());
            assert_eq!(s.transpose_multiply(&Vector::create(y.clone())).vec, dtmul(&a, r, c, &y).iter().map(|v| -3 * v).collect::<Vec<_>>());
        }
    }
}

// extreme magnitudes, one entry per row and column (no sums, so the f64 result is exactly val * x)
#[test]
fn extreme_values_permutation_patterns() {
    let vals = [1e-300, 1e300, -1e300, 5e-324, -5e-324, f64::MAX, f64::MIN_POSITIVE, 1.0, 1.0 + f64::EPSILON, 1.0 - f64::EPSILON / 2.0, 0.0, -0.0, 1e154, 1e-154, 3.0e-162];
    let mut rng = Rng(0x777);
    for n in 1..=10usize { for _ in 0..200 {
        let mut perm: Vec<usize> = (0..n).collect();
        for i in (1..n).rev() { let j = rng.below(i + 1); perm.swap(i, j); }
        let v: Vec<f64> = (0..n).map(|_| vals[rng.below(vals.len())]).collect();
        let x: Vec<f64> = (0..n).map(|_| vals[rng.below(vals.len())]).collect();
        let mut t: Vec<(usize, usize, f64)> = (0..n).map(|j| (perm[j], j, v[j])).collect();
        let mut s = Sparse::<f64>::from_triplets(n, n, &mut t);
        let ax = s.multiply(&Vector::create(x.clone()));
        let st = s.transpose();
        for j in 0..n {
            let want = 0.0 + v[j] * x[j];
            assert!(ax[perm[j]] == want || (ax[perm[j]].is_nan() && want.is_nan()), "{} vs {}", ax[perm[j]], want);
        }
        let y: Vec<f64> = (0..n).map(|_| vals[rng.below(vals.len())]).collect();
        let aty = s.transpose_multiply(&Vector::create(y.clone()));
        let aty2 = st.multiply(&Vector::create(y.clone()));
        for j in 0..n {
            let want = 0.0 + v[j] * y[perm[j]];
            assert!(aty[j] == want || (aty[j].is_nan() && want.is_nan()), "{} vs {}", aty[j], want);
            assert!(aty2[j] == want || (aty2[j].is_nan() && want.is_nan()), "{} vs {}", aty2[j], want);
        }
        let al = vals[rng.below(vals.len())];
        s.scale(&al);
        let sax = s.multiply(&Vector::create(x.clone()));
        for j in 0..n { let want = 0.0 + (v[j] * al) * x[j]; assert!(sax[perm[j]] == want || (sax[perm[j]].is_nan() && want.is_nan()), "{} vs {}", sax[perm[j]], want); }
    } }
}

// general f64 values, row-sorted storage: multiply, transpose_multiply and transpose().multiply all sum in the dense order,
// so they should be bit-identical to the dense loops (incl. overflow to inf and inf - inf)
#[test]
fn f64_bitwise_when_sorted() {
    let vals = [1e300, -1e300, 1e-300, 1.0, -1.0, 1.0 + f64::EPSILON, 0.1, 0.3, 1e16, -1e16, 3.0, 5e-324, f64::MAX, -f64::MAX, 1e200, 1e-200, -0.0, 0.0];
    let mut rng = Rng(0x4242);
    for _ in 0..20000 {
        let r = rng.below(11); let c = rng.below(11);
        let mut a = vec![vec![0.0f64; c]; r]; let mut ent = vec![];
        // column major, rows ascending
        for j in 0..c { for i in 0..r { if rng.below(3) > 0 { let v = vals[rng.below(vals.len())]; a[i][j] = v; ent.push((i, j, v)); } } }
        let x: Vec<f64> = (0..c).map(|_| vals[rng.below(vals.len())]).collect();
        let y: Vec<f64> = (0..r).map(|_| vals[rng.below(vals.len())]).collect();
        let s = Sparse::<f64>::from_triplets(r, c, &mut ent);
        let mut ax = vec![0.0f64; r]; for i in 0..r { for j in 0..c { ax[i] += a[i][j] * x[j]; } }
        let mut aty = vec![0.0f64; c]; for j in 0..c { for i in 0..r { aty[j] += a[i][j] * y[i]; } }
        let same = |p: &Vec<f64>, q: &Vec<f64>| p.len() == q.len() && p.iter().zip(q).all(|(u, v)| u.to_bits() == v.to_bits() || (u.is_nan() && v.is_nan()));
        assert!(same(&s.multiply(&Vector::create(x.clone())).vec, &ax), "mul {:?} {:?} {:?}\n{:?}\n{:?}", a, x, y, s.multiply(&Vector::create(x.clone())).vec, ax);
        assert!(same(&s.transpose_multiply(&Vector::create(y.clone())).vec, &aty), "tmul");
        assert!(same(&s.transpose().multiply(&Vector::create(y.clone())).vec, &aty), "t.mul");
        assert!(same(&s.transpose().transpose_multiply(&Vector::create(x.clone())).vec, &ax), "t.tmul");
    }
}

// operations after a failed call leave the matrix usable and unchanged
#[test]
fn after_failed_calls() {
    let mut t = vec![(2usize, 0usize, 5i64), (0, 1, 7), (1, 3, -2)];
    let mut s = Sparse::<i64>::from_triplets(3, 4, &mut t);
    let x = Vector::create(vec![1i64, 10, 100, 1000]);
    let want = vec![70i64, -2000, 5];
    assert_eq!(s.multiply(&x).vec, want);
    assert!(catch_unwind(AssertUnwindSafe(|| s.insert(3, 0, 1))).is_err());
    assert!(catch_unwind(AssertUnwindSafe(|| s.insert(0, 4, 1))).is_err());
    assert!(catch_unwind(AssertUnwindSafe(|| s.get(3, 0))).is_err());
    assert!(catch_unwind(AssertUnwindSafe(|| s.multiply(&Vector::create(vec![1i64; 3])))).is_err());
    assert!(catch_unwind(AssertUnwindSafe(|| s.multiply(&Vector::create(vec![1i64; 5])))).is_err());
    assert!(catch_unwind(AssertUnwindSafe(|| s.transpose_multiply(&Vector::create(vec![1i64; 4])))).is_err());
    assert!(catch_unwind(AssertUnwindSafe(|| s.transpose_multiply(&Vector::create(vec![1i64; 2])))).is_err());
    assert_eq!(s.multiply(&x).vec, want);
    assert_eq!(s.nonzero, 3);
    assert_eq!(s.transpose().transpose_multiply(&x).vec, want);
    // last / first positions
    s.insert(2, 3, 9); s.insert(0, 0, 4);
    assert_eq!(s.multiply(&x).vec, vec![74i64, -2000, 9005]);
    assert_eq!(s.transpose_multiply(&Vector::create(vec![1i64, 10, 100])).vec, vec![504i64, 7, 0, 880]);
    // a failed from_triplets must not disturb anything else; triplets partially consumed is left open
    let mut bad = vec![(0usize, 0usize, 1i64), (3, 1, 1)];
    assert!(catch_unwind(AssertUnwindSafe(|| Sparse::<i64>::from_triplets(3, 4, &mut bad))).is_err());
    assert_eq!(s.multiply(&x).vec, vec![74i64, -2000, 9005]);
}

// from_vecs accepts every legal compressed-column description (unsorted rows, empty leading / trailing / all columns)
#[test]
fn from_vecs_legal_inputs() {
    let s = Sparse::<i64>::from_vecs(0, 0, vec![], vec![], vec![0]);
    assert_eq!(s.multiply(&Vector::create(vec![])).vec, Vec::<i64>::new());
    assert_eq!(s.transpose_multiply(&Vector::create(vec![])).vec, Vec::<i64>::new());
    assert_eq!(s.transpose().multiply(&Vector::create(vec![])).vec, Vec::<i64>::new());
    let s = Sparse::<i64>::from_vecs(3, 0, vec![], vec![], vec![0]);
    assert_eq!(s.multiply(&Vector::create(vec![])).vec, vec![0, 0, 0]);
    assert_eq!(s.transpose_multiply(&Vector::create(vec![1, 2, 3])).vec, Vec::<i64>::new());
    assert_eq!(s.transpose().multiply(&Vector::create(vec![1, 2, 3])).vec, Vec::<i64>::new());
    assert_eq!(s.transpose().transpose_multiply(&Vector::create(vec![])).vec, vec![0, 0, 0]);
    let s = Sparse::<i64>::from_vecs(0, 3, vec![], vec![], vec![0, 0, 0, 0]);
    assert_eq!(s.multiply(&Vector::create(vec![1, 2, 3])).vec, Vec::<i64>::new());
    assert_eq!(s.transpose_multiply(&Vector::create(vec![])).vec, vec![0, 0, 0]);
    assert_eq!(s.transpose().multiply(&Vector::create(vec![])).vec, vec![0, 0, 0]);
    let s = Sparse::<i64>::from_vecs(3, 4, vec![1, 2, 3], vec![2, 0, 1], vec![0, 0, 3, 3, 3]);
    assert_eq!(s.multiply(&Vector::create(vec![5, 7, 11, 13])).vec, vec![14, 21, 7]);
    assert_eq!(s.transpose_multiply(&Vector::create(vec![5, 7, 11])).vec, vec![0, 11 + 10 + 21, 0, 0]);
    assert_eq!(s.transpose().multiply(&Vector::create(vec![5, 7, 11])).vec, vec![0, 42, 0, 0]);
    let mut s = Sparse::<i64>::from_vecs(1, 1, vec![7], vec![0], vec![0, 1]);
    s.scale(&0); assert_eq!(s.multiply(&Vector::create(vec![3])).vec, vec![0]);
    assert_eq!(s.nonzero, 1);
    s.insert(0, 0, 2); s.scale(&5); assert_eq!(s.transpose().multiply(&Vector::create(vec![3])).vec, vec![30]);
}
