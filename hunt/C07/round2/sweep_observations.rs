use ohsl::sparse::Sparse;
use ohsl::vector::Vector;
#[test]
fn observations() {
    // rows inside the single column stored in the order 2, 0, 1
    for vals in [[1e300, 1e300, -1e300], [1.0, 1e16, -1e16]] {
        let mut t = vec![(2usize, 0usize, vals[0]), (0, 0, vals[1]), (1, 0, vals[2])];
        let s = Sparse::<f64>::from_triplets(3, 1, &mut t);
        let sc = if vals[0] > 1e100 { 1e8 } else { 1.0 };
        let y = Vector::create(vec![sc; 3]);
        let d = s.to_dense();
        let mut dense = 0.0; for i in 0..3 { dense += d[(i, 0)] * y[i]; }
        println!("vals {:?}: transpose_multiply {:?}  transpose().multiply {:?}  dense(row order) {:?}", vals, s.transpose_multiply(&y).vec, s.transpose().multiply(&y).vec, dense);
    }
    let mut t = vec![(0usize, 0usize, 1.0f64)];
    let s = Sparse::<f64>::from_triplets(1, 2, &mut t);
    println!("structural zero times inf: sparse {:?} (dense loop gives NaN)", s.multiply(&Vector::create(vec![1.0, f64::INFINITY])).vec);
}
