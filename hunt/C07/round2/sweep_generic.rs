// Generic exact sweep: Sparse<T> for T = Q (exact rational), i64, f32, f64 (dyadic), Complex<f64> (Gaussian ints)
use ohsl::sparse::Sparse;
use ohsl::vector::Vector;
use ohsl::complex::Complex;
use ohsl::traits::{Number, Zero, One};
use core::ops::*;

#[derive(Clone, Copy, Debug, PartialEq)]
struct Q { n: i128, d: i128 }
fn gcd(a: i128, b: i128) -> i128 { if b == 0 { a.abs() } else { gcd(b, a % b) } }
impl Q { fn new(n: i128, d: i128) -> Q { assert!(d != 0); let g = gcd(n, d); let (mut n, mut d) = if g == 0 { (0, 1) } else { (n / g, d / g) }; if d < 0 { n = -n; d = -d; } Q { n, d } } }
impl Add for Q { type Output = Q; fn add(self, o: Q) -> Q { Q::new(self.n * o.d + o.n * self.d, self.d * o.d) } }
impl Sub for Q { type Output = Q; fn sub(self, o: Q) -> Q { Q::new(self.n * o.d - o.n * self.d, self.d * o.d) } }
impl Mul for Q { type Output = Q; fn mul(self, o: Q) -> Q { Q::new(self.n * o.n, self.d * o.d) } }
impl Div for Q { type Output = Q; fn div(self, o: Q) -> Q { Q::new(self.n * o.d, self.d * o.n) } }
impl AddAssign for Q { fn add_assign(&mut self, o: Q) { *self = *self + o; } }
impl SubAssign for Q { fn sub_assign(&mut self, o: Q) { *self = *self - o; } }
impl MulAssign for Q { fn mul_assign(&mut self, o: Q) { *self = *self * o; } }
impl DivAssign for Q { fn div_assign(&mut self, o: Q) { *self = *self / o; } }
impl Zero for Q { fn zero() -> Q { Q { n: 0, d: 1 } } }
impl One for Q { fn one() -> Q { Q { n: 1, d: 1 } } }
impl Number for Q {}

struct Rng(u64);
impl Rng {
    fn next(&mut self) -> u64 { self.0 ^= self.0 << 13; self.0 ^= self.0 >> 7; self.0 ^= self.0 << 17; self.0 }
    fn below(&mut self, n: usize) -> usize { (self.next() % (n as u64)) as usize }
    fn int(&mut self, lo: i64, hi: i64) -> i64 { lo + (self.next() % ((hi - lo + 1) as u64)) as i64 }
    fn shuffle<T>(&mut self, v: &mut Vec<T>) { for i in (1..v.len()).rev() { let j = self.below(i + 1); v.swap(i, j); } }
}

// independent dense reference (Vec<Vec<T>>)
fn dense_mul<T: Copy + Number>(a: &Vec<Vec<T>>, r: usize, c: usize, x: &Vec<T>) -> Vec<T> {
    let mut y = vec![T::zero(); r];
    for i in 0..r { for j in 0..c { y[i] += a[i][j] * x[j]; } }
    y
}
fn dense_tmul<T: Copy + Number>(a: &Vec<Vec<T>>, r: usize, c: usize, x: &Vec<T>) -> Vec<T> {
    let mut y = vec![T::zero(); c];
    for j in 0..c { for i in 0..r { y[j] += a[i][j] * x[i]; } }
    y
}
fn dotp<T: Copy + Number>(a: &Vec<T>, b: &Vec<T>) -> T { let mut s = T::zero(); for i in 0..a.len() { s += a[i] * b[i]; } s }

#[derive(Clone, Copy, Debug)]
enum Build { Triplets, Vecs, Inserts, InsertsOverwrite, TT }

fn build<T: Copy + Number + std::fmt::Debug>(rng: &mut Rng, how: Build, r: usize, c: usize, entries: &Vec<(usize, usize, T)>, junk: T) -> Sparse<T> {
    let mut e = entries.clone();
    rng.shuffle(&mut e);
    match how {
        Build::Triplets => Sparse::from_triplets(r, c, &mut e),
        Build::TT => {
            // build the transpose from swapped triplets and transpose it back
            let mut et: Vec<(usize, usize, T)> = e.iter().map(|t| (t.1, t.0, t.2)).collect();
            Sparse::from_triplets(c, r, &mut et).transpose()
        }
        Build::Vecs => {
            // column-compressed by hand, rows within a column in shuffled order
            let mut val = vec![]; let mut ri = vec![]; let mut cs = vec![0usize; c + 1];
            for j in 0..c { for t in e.iter() { if t.1 == j { val.push(t.2); ri.push(t.0); } } cs[j + 1] = val.len(); }
            Sparse::from_vecs(r, c, val, ri, cs)
        }
        Build::Inserts => {
            let mut empty: Vec<(usize, usize, T)> = vec![];
            let mut s = Sparse::from_triplets(r, c, &mut empty);
            for t in e.iter() { s.insert(t.0, t.1, t.2); }
            s
        }
        Build::InsertsOverwrite => {
            // half through triplets with junk values, then insert everything (overwriting the junk)
            let half = e.len() / 2;
            let mut first: Vec<(usize, usize, T)> = e[..half].iter().map(|t| (t.0, t.1, junk)).collect();
            let mut s = Sparse::from_triplets(r, c, &mut first);
            let mut order = e.clone(); rng.shuffle(&mut order);
            for t in order.iter() { s.insert(t.0, t.1, t.2); }
            s
        }
    }
}

fn check_all<T: Copy + Number + std::fmt::Debug>(tag: &str, seed: u64, rounds: usize, gen: &dyn Fn(&mut Rng) -> T, maxdim: usize) {
    let mut rng = Rng(seed);
    let hows = [Build::Triplets, Build::Vecs, Build::Inserts, Build::InsertsOverwrite, Build::TT];
    let mut cases = 0usize;
    for r in 0..=maxdim { for c in 0..=maxdim { for round in 0..rounds {
        // pattern density classes: empty, full, sparse, single row, single col, diagonal-ish
        let mut entries: Vec<(usize, usize, T)> = vec![];
        let class = round % 7;
        for i in 0..r { for j in 0..c {
            let take = match class {
                0 => false,
                1 => true,
                2 => rng.below(4) == 0,
                3 => rng.below(2) == 0,
                4 => i == r - 1,
                5 => j == c - 1 || j == 0,
                _ => rng.below(10) < 8,
            };
            if take { entries.push((i, j, gen(&mut rng))); }
        } }
        let mut a = vec![vec![T::zero(); c]; r];
        for t in entries.iter() { a[t.0][t.1] = t.2; }
        let x: Vec<T> = (0..c).map(|_| gen(&mut rng)).collect();
        let y: Vec<T> = (0..r).map(|_| gen(&mut rng)).collect();
        let ax = dense_mul(&a, r, c, &x);
        let aty = dense_tmul(&a, r, c, &y);
        let alpha = gen(&mut rng);
        for how in hows.iter() {
            cases += 1;
            let junk = gen(&mut rng);
            let mut s = build(&mut rng, *how, r, c, &entries, junk);
            let ctx = format!("{} {:?} {}x{} entries={:?} x={:?} y={:?}", tag, how, r, c, entries, x, y);
            assert_eq!(s.rows, r); assert_eq!(s.cols, c); assert_eq!(s.nonzero, entries.len(), "{}", ctx);
            assert_eq!(s.val.len(), entries.len()); assert_eq!(s.row_index.len(), entries.len()); assert_eq!(s.col_start.len(), c + 1);
            let vx = Vector::create(x.clone()); let vy = Vector::create(y.clone());
            // products
            assert_eq!(s.multiply(&vx).vec, ax, "multiply {}", ctx);
            assert_eq!(s.transpose_multiply(&vy).vec, aty, "transpose_multiply {}", ctx);
            let st = s.transpose();
            assert_eq!(st.rows, c); assert_eq!(st.cols, r); assert_eq!(st.nonzero, entries.len());
            assert_eq!(st.multiply(&vy).vec, aty, "transpose().multiply {}", ctx);
            assert_eq!(st.transpose_multiply(&vx).vec, ax, "transpose().transpose_multiply {}", ctx);
            let stt = st.transpose();
            assert_eq!(stt.multiply(&vx).vec, ax, "tt multiply {}", ctx);
            assert_eq!(stt.transpose_multiply(&vy).vec, aty, "tt tmultiply {}", ctx);
            // adjoint
            let lhs = Vector::create(y.clone()).dot(&s.multiply(&vx));
            let rhs = s.transpose_multiply(&vy).dot(&vx);
            assert!(lhs == rhs, "adjoint {}", ctx);
            assert!(lhs == dotp(&y, &ax), "adjoint ref {}", ctx);
            // element accessors agree
            for i in 0..r { for j in 0..c {
                let want = entries.iter().find(|t| t.0 == i && t.1 == j).map(|t| t.2);
                assert!(s.get(i, j) == want, "get {}", ctx);
                assert!(st.get(j, i) == want, "get t {}", ctx);
                assert!(s.to_dense()[(i, j)] == a[i][j], "to_dense {}", ctx);
            } }
            // scale
            s.scale(&alpha);
            let sax: Vec<T> = ax.iter().map(|v| alpha * *v).collect();
            let saty: Vec<T> = aty.iter().map(|v| alpha * *v).collect();
            assert_eq!(s.multiply(&vx).vec, sax, "scaled multiply alpha={:?} {}", alpha, ctx);
            assert_eq!(s.transpose_multiply(&vy).vec, saty, "scaled tmultiply alpha={:?} {}", alpha, ctx);
            assert_eq!(s.transpose().multiply(&vy).vec, saty, "scaled transpose().multiply alpha={:?} {}", alpha, ctx);
            // scale the transpose made before scaling: independent object, also must scale
            let mut st2 = st; st2.scale(&alpha);
            assert_eq!(st2.multiply(&vy).vec, saty, "scale of transpose {}", ctx);
            assert_eq!(st2.transpose_multiply(&vx).vec, sax, "scale of transpose tm {}", ctx);
            // edit after scale, query via other accessor
            if r > 0 && c > 0 {
                let (i, j) = (rng.below(r), rng.below(c));
                let v = gen(&mut rng);
                s.insert(i, j, v);
                let mut a2 = a.clone();
                for ii in 0..r { for jj in 0..c { a2[ii][jj] = alpha * a2[ii][jj]; } }
                a2[i][j] = v;
                assert_eq!(s.multiply(&vx).vec, dense_mul(&a2, r, c, &x), "after insert {}", ctx);
                assert_eq!(s.transpose_multiply(&vy).vec, dense_tmul(&a2, r, c, &y), "after insert tm {}", ctx);
                assert_eq!(s.transpose().multiply(&vy).vec, dense_tmul(&a2, r, c, &y), "after insert t.m {}", ctx);
                s.scale(&alpha);
                let want: Vec<T> = dense_mul(&a2, r, c, &x).iter().map(|v| alpha * *v).collect();
                assert_eq!(s.multiply(&vx).vec, want, "scale after insert {}", ctx);
            }
        }
    } } }
    println!("{}: {} cases ok", tag, cases);
}

#[test] fn rational() { check_all::<Q>("Q", 0x1234567, 14, &|r| Q::new(r.int(-9, 9) as i128, r.int(1, 7) as i128), 10); }
#[test] fn int64() { check_all::<i64>("i64", 0x9876543, 14, &|r| r.int(-50, 50), 10); }
#[test] fn int8_small() { check_all::<i8>("i8", 0x55aa55, 7, &|r| r.int(-1, 1) as i8, 6); }
#[test] fn u8_small() { check_all::<u8>("u8", 0x55aa77, 7, &|r| r.int(0, 1) as u8, 6); }
#[test] fn f64_dyadic() { check_all::<f64>("f64", 0xabcdef1, 14, &|r| r.int(-64, 64) as f64 / 8.0, 10); }
#[test] fn f32_small() { check_all::<f32>("f32", 0xabcdef3, 14, &|r| r.int(-8, 8) as f32 / 2.0, 10); }
#[test] fn cmplx() { check_all::<Complex<f64>>("Complex<f64>", 0xfeedbeef, 14, &|r| Complex::new(r.int(-9, 9) as f64, r.int(-9, 9) as f64), 10); }
#[test] fn cmplx_pure() { check_all::<Complex<f64>>("Complex<f64> pure", 0xfeedbee1, 14, &|r| if r.below(2) == 0 { Complex::new(r.int(-9, 9) as f64, 0.0) } else { Complex::new(0.0, r.int(-9, 9) as f64) }, 10); }
