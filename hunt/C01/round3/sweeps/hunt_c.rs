// Sweep C: exact element types ( i128 rationals, prime field ) - exact residual check
use ohsl::{Matrix, Vector, Number, Signed, Zero, One};
use core::ops::{Add, Sub, Mul, Div, Neg, AddAssign, SubAssign, MulAssign, DivAssign};
use std::cmp::Ordering;

struct Rng(u64);
impl Rng {
    fn next(&mut self) -> u64 { let mut x = self.0; x ^= x << 13; x ^= x >> 7; x ^= x << 17; self.0 = x; x }
    fn below(&mut self, n: usize) -> usize { ( self.next() % n as u64 ) as usize }
}

fn gcd( a: i128, b: i128 ) -> i128 { let ( mut a, mut b ) = ( a.abs(), b.abs() ); while b != 0 { let t = a % b; a = b; b = t; } a }

#[derive(Clone, Copy, Debug, PartialEq)]
struct Q { n: i128, d: i128 }
impl Q {
    fn new( n: i128, d: i128 ) -> Q {
        if d == 0 { panic!( "Q: division by zero" ); }
        let g = gcd( n, d ); let ( mut n, mut d ) = if g == 0 { ( 0, 1 ) } else { ( n / g, d / g ) };
        if d < 0 { n = -n; d = -d; }
        Q { n, d }
    }
    fn int( v: i64 ) -> Q { Q { n: v as i128, d: 1 } }
}
impl Add for Q { type Output = Q; fn add( self, o: Q ) -> Q { let g = gcd( self.d, o.d ); let l = self.d / g; Q::new( self.n.checked_mul( o.d / g ).unwrap().checked_add( o.n.checked_mul( l ).unwrap() ).unwrap(), l.checked_mul( o.d ).unwrap() ) } }
impl Neg for Q { type Output = Q; fn neg( self ) -> Q { Q { n: -self.n, d: self.d } } }
impl Sub for Q { type Output = Q; fn sub( self, o: Q ) -> Q { self + ( -o ) } }
impl Mul for Q { type Output = Q; fn mul( self, o: Q ) -> Q { let g1 = gcd( self.n, o.d ).max(1); let g2 = gcd( o.n, self.d ).max(1); Q::new( ( self.n / g1 ).checked_mul( o.n / g2 ).unwrap(), ( self.d / g2 ).checked_mul( o.d / g1 ).unwrap() ) } }
impl Div for Q { type Output = Q; fn div( self, o: Q ) -> Q { if o.n == 0 { panic!( "Q: division by zero" ); } self * Q::new( o.d, o.n ) } }
impl AddAssign for Q { fn add_assign( &mut self, o: Q ) { *self = *self + o; } }
impl SubAssign for Q { fn sub_assign( &mut self, o: Q ) { *self = *self - o; } }
impl MulAssign for Q { fn mul_assign( &mut self, o: Q ) { *self = *self * o; } }
impl DivAssign for Q { fn div_assign( &mut self, o: Q ) { *self = *self / o; } }
impl Zero for Q { fn zero() -> Q { Q { n: 0, d: 1 } } }
impl One for Q { fn one() -> Q { Q { n: 1, d: 1 } } }
impl Number for Q {}
impl Signed for Q { fn abs( &self ) -> Q { Q { n: self.n.abs(), d: self.d } } }
impl PartialOrd for Q { fn partial_cmp( &self, o: &Q ) -> Option<Ordering> { self.n.checked_mul( o.d ).unwrap().partial_cmp( &o.n.checked_mul( self.d ).unwrap() ) } }

// prime field GF(p), p = 2^31 - 1 ( products fit in u64 )
const P: u64 = 2147483647;
#[derive(Clone, Copy, Debug, PartialEq, PartialOrd)]
struct F( u64 );
fn fpow( mut b: u64, mut e: u64 ) -> u64 { let mut r = 1u64; while e > 0 { if e & 1 == 1 { r = r * b % P; } b = b * b % P; e >>= 1; } r }
impl Add for F { type Output = F; fn add( self, o: F ) -> F { F( ( self.0 + o.0 ) % P ) } }
impl Neg for F { type Output = F; fn neg( self ) -> F { F( ( P - self.0 ) % P ) } }
impl Sub for F { type Output = F; fn sub( self, o: F ) -> F { F( ( self.0 + P - o.0 ) % P ) } }
impl Mul for F { type Output = F; fn mul( self, o: F ) -> F { F( self.0 * o.0 % P ) } }
impl Div for F { type Output = F; fn div( self, o: F ) -> F { if o.0 == 0 { panic!( "F: division by zero" ); } F( self.0 * fpow( o.0, P - 2 ) % P ) } }
impl AddAssign for F { fn add_assign( &mut self, o: F ) { *self = *self + o; } }
impl SubAssign for F { fn sub_assign( &mut self, o: F ) { *self = *self - o; } }
impl MulAssign for F { fn mul_assign( &mut self, o: F ) { *self = *self * o; } }
impl DivAssign for F { fn div_assign( &mut self, o: F ) { *self = *self / o; } }
impl Zero for F { fn zero() -> F { F( 0 ) } }
impl One for F { fn one() -> F { F( 1 ) } }
impl Number for F {}
impl Signed for F { fn abs( &self ) -> F { *self } }

// own determinant mod P ( plain elimination ) to recognise singular matrices
fn det_mod_p( a: &Vec<Vec<u64>> ) -> u64 {
    let n = a.len(); let mut m = a.clone(); let mut det = 1u64;
    for k in 0..n {
        let mut p = n; for i in k..n { if m[i][k] != 0 { p = i; break; } }
        if p == n { return 0; }
        if p != k { m.swap( p, k ); det = ( P - det ) % P; }
        det = det * m[k][k] % P;
        let inv = fpow( m[k][k], P - 2 );
        for i in k+1..n { let f = m[i][k] * inv % P; if f != 0 { for j in k..n { m[i][j] = ( m[i][j] + P - f * m[k][j] % P ) % P; } } }
    }
    det
}

#[test]
fn field_sweep() {
    let mut rng = Rng( 0xABCDEF0123456789 );
    let mut cases = 0usize; let mut singular = 0usize;
    for n in 1..=70usize {
        let reps = if n <= 12 { 600 } else { 40 };
        for rep in 0..reps {
            let dens_pct = [ 100, 60, 30, 15, 8 ][ rep % 5 ];
            let small = rep % 2 == 0; // small values give many ties / repeated values
            let mut perm: Vec<usize> = ( 0..n ).collect();
            for i in ( 1..n ).rev() { let j = rng.below( i + 1 ); perm.swap( i, j ); }
            let mut a = vec![ vec![ 0u64; n ]; n ];
            for i in 0..n { for j in 0..n { if rng.below( 100 ) < dens_pct || perm[i] == j {
                a[i][j] = if small { [ 1, P - 1, 2, P - 2, 1, 1 ][ rng.below( 6 ) ] } else { 1 + rng.next() % ( P - 1 ) };
            } } }
            if rep % 3 == 0 { for i in 0..n { if perm[i] != i { a[i][i] = 0; } } }
            if det_mod_p( &a ) == 0 { singular += 1; continue; }
            let b: Vec<u64> = ( 0..n ).map( |_| if rep % 7 == 3 { 0 } else { rng.next() % P } ).collect();
            let mut m1 = Matrix::<F>::new( n, n, F( 0 ) );
            for i in 0..n { for j in 0..n { m1[(i,j)] = F( a[i][j] ); } }
            let mut m2 = m1.clone();
            let bv = Vector::<F>::create( b.iter().map( |v| F( *v ) ).collect() );
            let x1 = m1.solve_basic( &bv ); let x2 = m2.solve_lu( &bv );
            assert_eq!( x1.size(), n ); assert_eq!( x2.size(), n );
            for i in 0..n {
                let mut s1 = 0u64; let mut s2 = 0u64;
                for j in 0..n { s1 = ( s1 + a[i][j] * x1[j].0 ) % P; s2 = ( s2 + a[i][j] * x2[j].0 ) % P; }
                assert!( s1 == b[i], "basic: residual n={} rep={} row {}\n{:?}\n{:?}", n, rep, i, a, b );
                assert!( s2 == b[i], "lu: residual n={} rep={} row {}\n{:?}\n{:?}", n, rep, i, a, b );
            }
            assert!( x1.vec == x2.vec );
            cases += 1;
        }
    }
    println!( "field cases {} ( singular skipped {} )", cases, singular );
}

// fraction-free determinant over the integers ( Bareiss ) for the rational sweep
fn det_int( a: &Vec<Vec<i128>> ) -> i128 {
    let n = a.len(); let mut m = a.clone(); let mut sign = 1i128; let mut prev = 1i128;
    for k in 0..n {
        let mut p = n; for i in k..n { if m[i][k] != 0 { p = i; break; } }
        if p == n { return 0; }
        if p != k { m.swap( p, k ); sign = -sign; }
        for i in k+1..n { for j in k+1..n { m[i][j] = ( m[i][j] * m[k][k] - m[i][k] * m[k][j] ) / prev; } }
        prev = m[k][k];
    }
    sign * m[n-1][n-1]
}

#[test]
fn rational_sweep() {
    let mut rng = Rng( 0x5DEECE66D1234567 );
    let mut cases = 0usize; let mut singular = 0usize;
    for n in 1..=9usize {
        for rep in 0..3000usize {
            let dens_pct = [ 100, 70, 45, 25 ][ rep % 4 ];
            let range: i64 = if n <= 5 { [ 1, 2, 9, 1000 ][ ( rep / 4 ) % 4 ] } else { [ 1, 2, 3, 5 ][ ( rep / 4 ) % 4 ] };
            let mut perm: Vec<usize> = ( 0..n ).collect();
            for i in ( 1..n ).rev() { let j = rng.below( i + 1 ); perm.swap( i, j ); }
            let mut a = vec![ vec![ 0i128; n ]; n ];
            for i in 0..n { for j in 0..n { if rng.below( 100 ) < dens_pct || perm[i] == j {
                let mut v = 0i64; while v == 0 { v = rng.below( ( 2 * range + 1 ) as usize ) as i64 - range; }
                a[i][j] = v as i128;
            } } }
            if rep % 3 == 0 { for i in 0..n { if perm[i] != i { a[i][i] = 0; } } }
            if det_int( &a ) == 0 { singular += 1; continue; }
            // rational entries: divide each row by a small integer, and the right-hand side has denominators too
            let rd: Vec<i128> = ( 0..n ).map( |_| 1 + rng.below( 7 ) as i128 ).collect();
            let b: Vec<Q> = ( 0..n ).map( |_| Q::new( rng.below( 41 ) as i128 - 20, 1 + rng.below( 9 ) as i128 ) ).collect();
            let mut m1 = Matrix::<Q>::new( n, n, Q::int( 0 ) );
            for i in 0..n { for j in 0..n { m1[(i,j)] = Q::new( a[i][j], rd[i] ); } }
            let orig = m1.clone();
            let mut m2 = m1.clone();
            let bv = Vector::<Q>::create( b.clone() );
            let x1 = m1.solve_basic( &bv ); let x2 = m2.solve_lu( &bv );
            assert_eq!( x1.size(), n ); assert_eq!( x2.size(), n );
            for i in 0..n {
                let mut s1 = Q::int( 0 ); let mut s2 = Q::int( 0 );
                for j in 0..n { s1 = s1 + orig[(i,j)] * x1[j]; s2 = s2 + orig[(i,j)] * x2[j]; }
                assert!( s1 == b[i], "basic: residual n={} rep={} row {}\n{:?}\n{:?}", n, rep, i, a, b );
                assert!( s2 == b[i], "lu: residual n={} rep={} row {}\n{:?}\n{:?}", n, rep, i, a, b );
            }
            assert!( x1.vec == x2.vec );
            cases += 1;
        }
    }
    println!( "rational cases {} ( singular skipped {} )", cases, singular );
}
