// Sweep D: structured systems - forced exchanges, ties, unit-modulus complex entries, near-ties, axis values with tiny other parts
include!( "../_hunt/common.rs.inc" );

fn solve_any( a: &Vec<Vec<(f64,f64)>>, b: &Vec<(f64,f64)>, real: bool ) -> ( f64, f64, bool ) {
    if real {
        let ar: Vec<Vec<f64>> = a.iter().map( |r| r.iter().map( |v| v.0 ).collect() ).collect();
        let br: Vec<f64> = b.iter().map( |v| v.0 ).collect();
        run_real( &ar, &br )
    } else { run_cmplx( a, b ) }
}

struct Stat { worst: f64, at: String, cases: usize, bad: usize, dis: usize }
impl Stat {
    fn new() -> Stat { Stat { worst: 0.0, at: String::new(), cases: 0, bad: 0, dis: 0 } }
    fn add( &mut self, a: &Vec<Vec<(f64,f64)>>, b: &Vec<(f64,f64)>, real: bool, tol: f64, tag: String ) {
        let ( r1, r2, same ) = solve_any( a, b, real );
        self.cases += 1; if !same { self.dis += 1; }
        let e = r1.max( r2 ); let e = if e.is_nan() { f64::INFINITY } else { e };
        if e > self.worst { self.worst = e; self.at = tag.clone(); }
        if !( e < tol * EPS ) || !same { self.bad += 1; if self.bad <= 5 { println!( "BAD {} eta=({:e},{:e}) same={}\n a={:?}\n b={:?}", tag, r1, r2, same, a, b ); } }
    }
    fn report( &self, name: &str ) { println!( "{}: cases {} bad {} disagreements {} worst eta/eps {:e} at {}", name, self.cases, self.bad, self.dis, self.worst / EPS, self.at ); }
}

#[test]
fn forced_exchanges() {
    // A = P * T, T upper triangular ( or upper + a few subdiagonals ) with generic entries and a diagonal that is
    // zero / tiny after permutation, so that every step must exchange
    let mut rng = Rng( 0x0123456789ABCDEF ); let mut st = Stat::new();
    let tiny = [ 0.0, 1e-7, 1e-40, 1e-120, 1e-300, 5e-324, -0.0 ];
    for n in 2..=70usize {
        let reps = if n <= 10 { 300 } else { 30 };
        for rep in 0..reps { for kind in 0..6usize {
            let mut t = vec![ vec![ (0.0,0.0); n ]; n ];
            let sub = rep % 4; // number of sub-diagonals filled with tiny values
            for i in 0..n { for j in 0..n {
                if j >= i { t[i][j] = gen_entry( &mut rng, kind ); if j == i { let g = gen_entry( &mut rng, kind ); t[i][j] = ( g.0 + if g.0 < 0.0 { -1.0 } else { 1.0 }, g.1 ); if kind == 2 { t[i][j] = ( 0.0, g.1 + if g.1 < 0.0 { -1.0 } else { 1.0 } ); } } }
                else if i - j <= sub { let s = tiny[ rng.below( tiny.len() ) ]; let g = gen_entry( &mut rng, kind ); t[i][j] = ( g.0 * s, g.1 * s ); }
            } }
            // permutation: cyclic shift, reversal or random
            let mut perm: Vec<usize> = ( 0..n ).collect();
            match rep % 3 { 0 => { perm.rotate_left( 1 + rep % ( n - 1 ).max( 1 ) ); }, 1 => { perm.reverse(); }, _ => { for i in ( 1..n ).rev() { let j = rng.below( i + 1 ); perm.swap( i, j ); } } }
            let a: Vec<Vec<(f64,f64)>> = ( 0..n ).map( |i| t[ perm[i] ].clone() ).collect();
            let b: Vec<(f64,f64)> = ( 0..n ).map( |_| gen_entry( &mut rng, kind ) ).collect();
            st.add( &a, &b, kind == 0, 1000.0, format!( "n={} rep={} kind={}", n, rep, kind ) );
        } }
    }
    st.report( "forced_exchanges" );
    assert!( st.bad == 0 );
}

#[test]
fn ties_and_unit_modulus() {
    let mut rng = Rng( 0xFEEDFACE12345678 ); let mut st = Stat::new();
    // DFT matrices ( every entry has modulus one ), Hadamard-like +-1 matrices with a generic diagonal shift, +-v ties
    for n in 1..=64usize {
        let mut a = vec![ vec![ (0.0,0.0); n ]; n ];
        for i in 0..n { for j in 0..n { let th = -2.0 * std::f64::consts::PI * ( ( i * j ) % n ) as f64 / n as f64; a[i][j] = ( th.cos(), th.sin() ); } }
        for kind in 0..6usize { let b: Vec<(f64,f64)> = ( 0..n ).map( |_| gen_entry( &mut rng, kind ) ).collect(); st.add( &a, &b, false, 1000.0, format!( "dft n={}", n ) ); }
    }
    let units: [ (f64,f64); 8 ] = [ (1.0,0.0), (0.0,1.0), (-1.0,0.0), (0.0,-1.0), (0.6,0.8), (0.8,-0.6), (-0.6,0.8), (-0.28,-0.96) ];
    for n in 1..=40usize { for rep in 0..200usize {
        // entries of modulus exactly one ( or zero ); singular or nearly singular samples are recognised by the reference pivots
        let mut a = vec![ vec![ (0.0,0.0); n ]; n ];
        for i in 0..n { for j in 0..n { if rep % 3 != 0 || rng.below( 3 ) > 0 { a[i][j] = units[ rng.below( if rep % 2 == 0 { 4 } else { 8 } ) ]; } } }
        let b: Vec<(f64,f64)> = ( 0..n ).map( |_| gen_entry( &mut rng, 1 ) ).collect();
        match ref_solve_p( &a, &b ) { Some( t ) => { if t.1 < -6.0 { continue; } }, None => { continue; } }
        st.add( &a, &b, false, 1.0e5, format!( "units n={} rep={}", n, rep ) );
    } }
    for n in 1..=40usize { for rep in 0..200usize {
        // real +-v ties with a generic v, some zeros
        let v = 0.1 + rng.unif();
        let mut a = vec![ vec![ (0.0,0.0); n ]; n ];
        for i in 0..n { for j in 0..n { if rep % 3 != 0 || rng.below( 3 ) > 0 { a[i][j] = ( if rng.below( 2 ) == 0 { v } else { -v }, 0.0 ); } } }
        let b: Vec<(f64,f64)> = ( 0..n ).map( |_| gen_entry( &mut rng, 0 ) ).collect();
        match ref_solve_p( &a, &b ) { Some( t ) => { if t.1 < -6.0 { continue; } }, None => { continue; } }
        st.add( &a, &b, true, 1.0e5, format!( "pm n={} rep={}", n, rep ) );
    } }
    st.report( "ties_and_unit_modulus" );
    assert!( st.bad == 0 );
}

fn ulps( x: f64, k: i64 ) -> f64 { f64::from_bits( ( x.to_bits() as i64 + k ) as u64 ) }

#[test]
fn near_ties_and_axis_values() {
    let mut rng = Rng( 0xC0FFEE0DDF00D123 ); let mut st = Stat::new();
    // generic well-conditioned matrix G; the first column ( and the diagonal ) replaced by values a few ulps apart
    for n in 2..=30usize { for rep in 0..300usize { for kind in 0..6usize {
        let mut a = vec![ vec![ (0.0,0.0); n ]; n ];
        for i in 0..n { for j in 0..n { a[i][j] = gen_entry( &mut rng, kind ); } }
        for i in 0..n { let g = a[i][i]; a[i][i] = ( g.0 + 3.0 * g.0.signum(), g.1 ); if kind == 2 { a[i][i] = ( 0.0, g.1 + 3.0 * g.1.signum() ); } }
        let v = 0.5 + rng.unif();
        for i in 0..n {
            let k = rng.below( 5 ) as i64 - 2;
            let sgn = if rng.below( 2 ) == 0 { 1.0 } else { -1.0 };
            match rep % 4 {
                0 => { a[i][0] = if kind == 2 { ( 0.0, sgn * ulps( v, k ) ) } else { ( sgn * ulps( v, k ), 0.0 ) }; },
                1 => { // complex of almost equal modulus, different arguments
                    if kind != 0 { let th = rng.unif() * 6.28; a[i][0] = ( ulps( v, k ) * th.cos(), v * th.sin() ); } },
                2 => { // exactly 1 or exactly on an axis, with a tiny other part
                    let tiny = [ 0.0, 1e-7, 1e-40, 1e-120, 1e-300, 5e-324 ][ rng.below( 6 ) ];
                    if kind != 0 { a[i][ rng.below( n ) ] = if rng.below( 2 ) == 0 { ( sgn, tiny ) } else { ( tiny, sgn ) }; } },
                _ => {}
            }
        }
        let b: Vec<(f64,f64)> = ( 0..n ).map( |_| gen_entry( &mut rng, kind ) ).collect();
        match ref_solve_p( &a, &b ) { Some( t ) => { if t.1 < -5.0 { continue; } }, None => { continue; } }
        st.add( &a, &b, kind == 0, 1.0e4, format!( "n={} rep={} kind={}", n, rep, kind ) );
    } } }
    st.report( "near_ties_and_axis_values" );
    assert!( st.bad == 0 );
}
