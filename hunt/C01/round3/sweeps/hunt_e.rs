// Sweep E: classical test matrices ( ill-conditioned but representable ), large orders
include!( "../_hunt/common.rs.inc" );
fn check( name: &str, a: &Vec<Vec<f64>>, b: &Vec<f64>, worst: &mut (f64,String) ) {
    let ( r1, r2, same ) = run_real( a, b );
    let e = r1.max( r2 ); let e = if e.is_nan() { f64::INFINITY } else { e };
    if !same { println!( "DISAGREE {} n={}", name, a.len() ); }
    if e > worst.0 { *worst = ( e, format!( "{} n={}", name, a.len() ) ); }
    if !( e < 1000.0 * EPS ) { println!( "BAD {} n={} eta/eps=({:e},{:e})", name, a.len(), r1 / EPS, r2 / EPS ); }
}
#[test]
fn classics() {
    let mut rng = Rng( 0x7777777712345678 ); let mut worst = ( 0.0, String::new() );
    for n in 1..=70usize {
        let b: Vec<f64> = ( 0..n ).map( |_| rng.sym() ).collect();
        let f = |g: &dyn Fn(usize,usize) -> f64| -> Vec<Vec<f64>> { ( 0..n ).map( |i| ( 0..n ).map( |j| g( i, j ) ).collect() ).collect() };
        if n <= 13 { check( "hilbert", &f( &|i,j| 1.0 / ( i + j + 1 ) as f64 ), &b, &mut worst ); }
        if n <= 25 { let mut p = vec![ vec![ 1.0f64; n ]; n ]; for i in 1..n { for j in 1..n { p[i][j] = p[i-1][j] + p[i][j-1]; } } check( "pascal", &p, &b, &mut worst ); }
        if n <= 20 { let nodes: Vec<f64> = ( 0..n ).map( |_| rng.sym() * 1.3 ).collect(); check( "vandermonde", &f( &|i,j| nodes[i].powi( j as i32 ) ), &b, &mut worst ); }
        check( "lehmer", &f( &|i,j| ( i.min( j ) + 1 ) as f64 / ( i.max( j ) + 1 ) as f64 ), &b, &mut worst );
        check( "minij", &f( &|i,j| ( i.min( j ) + 1 ) as f64 * 0.7 ), &b, &mut worst );
        check( "frank", &f( &|i,j| if j + 1 >= i { ( n - i.max( j ) ) as f64 * 0.3 } else { 0.0 } ), &b, &mut worst );
        check( "tridiag", &f( &|i,j| if i == j { 2.0 * 0.7 } else if i + 1 == j || j + 1 == i { -0.7 } else { 0.0 } ), &b, &mut worst );
        check( "kahan", &f( &|i,j| { let s: f64 = 0.3f64.sin(); let c = 0.3f64.cos(); if j < i { 0.0 } else if i == j { s.powi( i as i32 ) } else { -c * s.powi( i as i32 ) } } ), &b, &mut worst );
        check( "cauchy", &f( &|i,j| 1.0 / ( 0.37 + i as f64 * 1.1 + j as f64 * 0.9 ) ), &b[..].to_vec(), &mut worst );
        check( "anti-identity+eps", &f( &|i,j| if i + j == n - 1 { 0.7 } else { 1e-9 * ( ( i * 7 + j * 3 ) % 5 ) as f64 } ), &b, &mut worst );
        check( "orthog", &f( &|i,j| ( 2.0 / ( n as f64 + 1.0 ) ).sqrt() * ( ( ( i + 1 ) * ( j + 1 ) ) as f64 * std::f64::consts::PI / ( n as f64 + 1.0 ) ).sin() ), &b, &mut worst );
    }
    for n in [ 100usize, 150, 200, 300 ] {
        let a: Vec<Vec<f64>> = ( 0..n ).map( |_| ( 0..n ).map( |_| rng.sym() ).collect() ).collect();
        let b: Vec<f64> = ( 0..n ).map( |_| rng.sym() ).collect();
        check( "random-large", &a, &b, &mut worst );
    }
    println!( "classics worst eta/eps {:e} at {}", worst.0 / EPS, worst.1 );
    assert!( worst.0 < 1000.0 * EPS );
}
