// Sweep B: magnitudes. D1 G D2 scalings, global scalings, individually scaled entries.
include!( "../_hunt/common.rs.inc" );

const EXPS: [i32; 11] = [ 0, 7, -7, 40, -40, 120, -120, 150, -150, 1, -1 ];

fn p10( e: i32 ) -> f64 { format!( "1e{}", e ).parse::<f64>().unwrap() }

fn solve_any( a: &Vec<Vec<(f64,f64)>>, b: &Vec<(f64,f64)>, real: bool ) -> ( f64, f64, bool ) {
    if real {
        let ar: Vec<Vec<f64>> = a.iter().map( |r| r.iter().map( |v| v.0 ).collect() ).collect();
        let br: Vec<f64> = b.iter().map( |v| v.0 ).collect();
        run_real( &ar, &br )
    } else { run_cmplx( a, b ) }
}

fn cmul( p: (f64,f64), q: (f64,f64) ) -> (f64,f64) { ( p.0 * q.0 - p.1 * q.1, p.0 * q.1 + p.1 * q.0 ) }

#[test]
fn sweep_row_col_scaling() {
    let mut rng = Rng( 0xDEADBEEFCAFEF00D );
    let mut worst = ( 0.0f64, String::new() );
    let mut bad = 0usize; let mut cases = 0usize; let mut disagreements = 0usize;
    for n in 1..=24usize {
        let reps = if n <= 6 { 1500 } else { 200 };
        for rep in 0..reps {
            for kind in 0..6usize {
                let dens = match rep % 4 { 0 => 1.0, 1 => 0.5, 2 => 0.25, _ => 0.1 };
                let mut perm: Vec<usize> = ( 0..n ).collect();
                for i in ( 1..n ).rev() { let j = rng.below( i + 1 ); perm.swap( i, j ); }
                let mode = rep % 6;
                let e1: Vec<i32> = ( 0..n ).map( |_| if mode == 1 { 0 } else { EXPS[ rng.below( EXPS.len() ) ] } ).collect();
                let e2: Vec<i32> = ( 0..n ).map( |_| if mode == 2 { 0 } else { EXPS[ rng.below( EXPS.len() ) ] } ).collect();
                let g0: i32 = if mode == 3 { [ 290, -290, 300, -300, 250, -250 ][ rng.below(6) ] } else { 0 };
                let mut a = vec![ vec![ (0.0,0.0); n ]; n ];
                let mut y = vec![ (0.0,0.0); n ];
                for j in 0..n { y[j] = gen_entry( &mut rng, kind ); }
                for i in 0..n { for j in 0..n {
                    if rng.unif() < dens || perm[i] == j {
                        let g = gen_entry( &mut rng, kind );
                        let ( s1, s2 ) = if mode == 3 { ( p10( g0 ), 1.0 ) } else { ( p10( e1[i] ), p10( e2[j] ) ) };
                        a[i][j] = ( g.0 * s1 * s2, g.1 * s1 * s2 );
                    }
                } }
                // x_true = y / d2 ; b = A x_true ( formed in f64 from the unscaled parts so nothing overflows )
                let mut b = vec![ (0.0,0.0); n ];
                for i in 0..n {
                    let mut s = ( 0.0, 0.0 );
                    for j in 0..n {
                        let ( s1, s2 ) = if mode == 3 { ( p10( g0 ), 1.0 ) } else { ( p10( e1[i] ), p10( e2[j] ) ) };
                        let g = ( a[i][j].0 / s2 / s1, a[i][j].1 / s2 / s1 );
                        let t = cmul( g, y[j] ); s.0 += t.0; s.1 += t.1;
                    }
                    let s1 = if mode == 3 { p10( g0 ) } else { p10( e1[i] ) };
                    // mode 4: right-hand side of order one instead ( x scales the other way )
                    b[i] = if mode == 4 { gen_entry( &mut rng, kind ) } else { ( s.0 * s1, s.1 * s1 ) };
                }
                if mode == 4 {
                    // keep the solution representable: only row scalings of moderate size
                    continue;
                }
                let ( r1, r2, same ) = solve_any( &a, &b, kind == 0 );
                cases += 1;
                if !same { disagreements += 1; }
                let e = r1.max( r2 );
                if !( e < 100.0 * EPS ) {
                    bad += 1;
                    if bad <= 8 { std::fs::write( format!( "_hunt/case_{}.txt", bad ), format!( "let a = vec!{:?};\nlet b = vec!{:?};\n", a, b ).replace( "[[", "[vec![" ).replace( "], [", "], vec![" ) ).unwrap(); println!( "ranges {:?}", ref_ranges( &a, &b ) ); println!( "BAD n={} kind={} mode={} rep={} eta=({:e},{:e})\n a={:?}\n b={:?}", n, kind, mode, rep, r1, r2, a, b ); }
                }
                if e > worst.0 { worst = ( e, format!( "n={} kind={} mode={} rep={}", n, kind, mode, rep ) ); }
            }
        }
    }
    println!( "cases {} bad {} disagreements {} worst eta/eps {:e} at {}", cases, bad, disagreements, worst.0 / EPS, worst.1 );
    assert!( bad == 0 && disagreements == 0 );
}

#[test]
fn sweep_entrywise_scaling() {
    let mut rng = Rng( 0x1234567887654321 );
    let exps: [i32; 9] = [ 0, 7, -7, 40, -40, 120, -120, 140, -140 ];
    let mut worst = ( 0.0f64, String::new() );
    let mut bad_finite = 0usize; let mut nonfinite = 0usize; let mut cases = 0usize; let mut disagreements = 0usize;
    for n in 1..=8usize {
        for rep in 0..6000usize {
            for kind in 0..6usize {
                let dens = match rep % 3 { 0 => 1.0, 1 => 0.6, _ => 0.3 };
                let mut perm: Vec<usize> = ( 0..n ).collect();
                for i in ( 1..n ).rev() { let j = rng.below( i + 1 ); perm.swap( i, j ); }
                let mut a = vec![ vec![ (0.0,0.0); n ]; n ];
                for i in 0..n { for j in 0..n {
                    if rng.unif() < dens || perm[i] == j {
                        let g = gen_entry( &mut rng, kind ); let s = p10( exps[ rng.below( 9 ) ] );
                        a[i][j] = ( g.0 * s, g.1 * s );
                    }
                } }
                let b: Vec<(f64,f64)> = ( 0..n ).map( |_| { let g = gen_entry( &mut rng, kind ); let s = p10( exps[ rng.below( 9 ) ] ); ( g.0 * s, g.1 * s ) } ).collect();
                let ( r1, r2, same ) = solve_any( &a, &b, kind == 0 );
                cases += 1;
                if !same { disagreements += 1; if disagreements <= 0 { println!( "DISAGREE n={} kind={} rep={} eta=({:e},{:e})\n a={:?}\n b={:?}", n, kind, rep, r1, r2, a, b ); } }
                let e = r1.max( r2 );
                if e.is_infinite() || e.is_nan() {
                    let dom = match ref_ranges( &a, &b ) { Some( ( hi, _lo, ma ) ) => hi < 290.0 && ma + hi < 290.0, None => false };
                    if !dom { continue; }
                    nonfinite += 1; if nonfinite <= 40 { let t = ref_solve_p( &a, &b ).unwrap(); println!( "ranges {:?} minpiv {} minmid {}", ref_ranges( &a, &b ), t.1, t.2 ); if t.2 < -320.0 { continue; } println!( "NONFINITE n={} kind={} rep={} eta=({:e},{:e})\n a={:?}\n b={:?}", n, kind, rep, r1, r2, a, b ); } continue; }
                if !( e < 100.0 * EPS ) {
                    bad_finite += 1;
                    if bad_finite <= 8 { println!( "BAD n={} kind={} rep={} eta=({:e},{:e})\n a={:?}\n b={:?}", n, kind, rep, r1, r2, a, b ); }
                }
                if e > worst.0 { worst = ( e, format!( "n={} kind={} rep={}", n, kind, rep ) ); }
            }
        }
    }
    println!( "cases {} bad_finite {} nonfinite {} disagreements {} worst eta/eps {:e} at {}", cases, bad_finite, nonfinite, disagreements, worst.0 / EPS, worst.1 );
    assert!( bad_finite == 0 && disagreements == 0 );
}

#[test]
fn sweep_complex_component_scales() {
    // every complex entry has one part of order one and the other part scaled by 1, 1e-7, 1e-40, 1e-120, 1e-300 or 0 ; rows and columns scaled as before
    let mut rng = Rng( 0xA5A5A5A55A5A5A5A );
    let part = [ 1.0, 1e-7, 1e-40, 1e-120, 1e-300, 0.0, 5e-324 ];
    let mut worst = ( 0.0f64, String::new() ); let mut bad = 0usize; let mut cases = 0usize; let mut dis = 0usize;
    for n in 1..=20usize { for rep in 0..600usize {
        let scaled = rep % 2 == 1;
        let e1: Vec<i32> = ( 0..n ).map( |_| if scaled { EXPS[ rng.below( EXPS.len() ) ] } else { 0 } ).collect();
        let e2: Vec<i32> = ( 0..n ).map( |_| if scaled { EXPS[ rng.below( EXPS.len() ) ] } else { 0 } ).collect();
        let mut a = vec![ vec![ (0.0,0.0); n ]; n ];
        let mut g = vec![ vec![ (0.0,0.0); n ]; n ];
        for i in 0..n { for j in 0..n {
            let s = part[ rng.below( part.len() ) ];
            let v = if rng.below( 2 ) == 0 { ( rng.sym(), rng.sym() * s ) } else { ( rng.sym() * s, rng.sym() ) };
            g[i][j] = v;
            let ( s1, s2 ) = ( p10( e1[i] ), p10( e2[j] ) );
            a[i][j] = ( v.0 * s1 * s2, v.1 * s1 * s2 );
        } }
        let y: Vec<(f64,f64)> = ( 0..n ).map( |_| { let s = part[ rng.below( part.len() ) ]; if rng.below( 2 ) == 0 { ( rng.sym(), rng.sym() * s ) } else { ( rng.sym() * s, rng.sym() ) } } ).collect();
        let b: Vec<(f64,f64)> = ( 0..n ).map( |i| { let mut s = ( 0.0, 0.0 ); for j in 0..n { let t = cmul( g[i][j], y[j] ); s.0 += t.0; s.1 += t.1; } let s1 = p10( e1[i] ); ( s.0 * s1, s.1 * s1 ) } ).collect();
        let ( r1, r2, same ) = run_cmplx( &a, &b );
        cases += 1; if !same { dis += 1; }
        let e = r1.max( r2 ); let e = if e.is_nan() { f64::INFINITY } else { e };
        if !( e < 100.0 * EPS ) { bad += 1; if bad <= 4 { println!( "BAD n={} rep={} eta=({:e},{:e})\n a={:?}\n b={:?}", n, rep, r1, r2, a, b ); } }
        if e > worst.0 { worst = ( e, format!( "n={} rep={}", n, rep ) ); }
    } }
    println!( "component scales: cases {} bad {} disagreements {} worst eta/eps {:e} at {}", cases, bad, dis, worst.0 / EPS, worst.1 );
    assert!( bad == 0 && dis == 0 );
}
