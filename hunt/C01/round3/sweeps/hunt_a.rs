// Sweep A: generic-valued f64 and complex systems, n = 1..70, many zero patterns.
use ohsl::{Matrix, Vector, Complex};

type C = Complex<f64>;

struct Rng(u64);
impl Rng {
    fn next(&mut self) -> u64 {
        let mut x = self.0;
        x ^= x << 13; x ^= x >> 7; x ^= x << 17;
        self.0 = x; x
    }
    fn unif(&mut self) -> f64 { ( self.next() >> 11 ) as f64 / ( 1u64 << 53 ) as f64 }
    fn sym(&mut self) -> f64 { 2.0 * self.unif() - 1.0 }
    fn below(&mut self, n: usize) -> usize { ( self.next() % n as u64 ) as usize }
}

fn pow2_scale( m: f64 ) -> f64 {
    // power of two s with m * s in [1,2)  ( 1 if m is zero or not finite )
    if !( m > 0.0 ) || !m.is_finite() { return 1.0; }
    let mut s = 1.0f64; let mut v = m;
    while v >= 2.0 { v *= 0.5; s *= 0.5; }
    while v < 1.0 { v *= 2.0; s *= 2.0; }
    s
}

fn cabs( z: (f64,f64) ) -> f64 { z.0.hypot( z.1 ) }

/// normwise backward error  max_i |b - A x|_i / ( ||A||_inf ||x||_inf + ||b||_inf ), computed on power-of-two scaled copies
fn eta( a: &Vec<Vec<(f64,f64)>>, x: &Vec<(f64,f64)>, b: &Vec<(f64,f64)> ) -> f64 {
    let n = a.len();
    if x.len() != n { return f64::INFINITY; }
    for v in x { if !v.0.is_finite() || !v.1.is_finite() { return f64::INFINITY; } }
    let mut ma = 0.0f64; for r in a { for v in r { ma = ma.max( v.0.abs().max( v.1.abs() ) ); } }
    let mut mx = 0.0f64; for v in x { mx = mx.max( v.0.abs().max( v.1.abs() ) ); }
    let sa = pow2_scale( ma ); let sx = pow2_scale( mx );
    let mut norm_a = 0.0f64; let mut norm_x = 0.0f64; let mut norm_b = 0.0f64; let mut norm_r = 0.0f64;
    for v in x { norm_x = norm_x.max( cabs( ( v.0 * sx, v.1 * sx ) ) ); }
    for i in 0..n {
        let mut row = 0.0;
        let bi = ( b[i].0 * sa * sx, b[i].1 * sa * sx );
        let mut re = bi.0; let mut im = bi.1;
        // compensated-free: plain accumulation in f64 ( error ~ n eps ( |A||x| + |b| ) )
        for j in 0..n {
            let p = ( a[i][j].0 * sa, a[i][j].1 * sa ); let q = ( x[j].0 * sx, x[j].1 * sx );
            row += cabs( p );
            re -= p.0 * q.0 - p.1 * q.1;
            im -= p.0 * q.1 + p.1 * q.0;
        }
        norm_a = norm_a.max( row );
        norm_b = norm_b.max( cabs( bi ) );
        norm_r = norm_r.max( cabs( ( re, im ) ) );
    }
    let den = norm_a * norm_x + norm_b;
    if den == 0.0 { return if norm_r == 0.0 { 0.0 } else { f64::INFINITY }; }
    norm_r / den
}

fn run_real( a: &Vec<Vec<f64>>, b: &Vec<f64> ) -> ( f64, f64, bool ) {
    let n = a.len();
    let mut m1 = Matrix::<f64>::new( n, n, 0.0 );
    for i in 0..n { for j in 0..n { m1[(i,j)] = a[i][j]; } }
    let mut m2 = m1.clone();
    let bv = Vector::<f64>::create( b.clone() );
    let x1 = m1.solve_basic( &bv );
    let x2 = m2.solve_lu( &bv );
    let ac: Vec<Vec<(f64,f64)>> = a.iter().map( |r| r.iter().map( |v| ( *v, 0.0 ) ).collect() ).collect();
    let bc: Vec<(f64,f64)> = b.iter().map( |v| ( *v, 0.0 ) ).collect();
    let x1c: Vec<(f64,f64)> = x1.vec.iter().map( |v| ( *v, 0.0 ) ).collect();
    let x2c: Vec<(f64,f64)> = x2.vec.iter().map( |v| ( *v, 0.0 ) ).collect();
    let same = x1.vec.len() == x2.vec.len() && x1.vec.iter().zip( x2.vec.iter() ).all( |(p,q)| p.to_bits() == q.to_bits() || p == q );
    ( eta( &ac, &x1c, &bc ), eta( &ac, &x2c, &bc ), same )
}

fn run_cmplx( a: &Vec<Vec<(f64,f64)>>, b: &Vec<(f64,f64)> ) -> ( f64, f64, bool ) {
    let n = a.len();
    let mut m1 = Matrix::<C>::new( n, n, C::new( 0.0, 0.0 ) );
    for i in 0..n { for j in 0..n { m1[(i,j)] = C::new( a[i][j].0, a[i][j].1 ); } }
    let mut m2 = m1.clone();
    let bv = Vector::<C>::create( b.iter().map( |v| C::new( v.0, v.1 ) ).collect() );
    let x1 = m1.solve_basic( &bv );
    let x2 = m2.solve_lu( &bv );
    let x1c: Vec<(f64,f64)> = x1.vec.iter().map( |v| ( v.real, v.imag ) ).collect();
    let x2c: Vec<(f64,f64)> = x2.vec.iter().map( |v| ( v.real, v.imag ) ).collect();
    let same = x1c.len() == x2c.len() && x1c.iter().zip( x2c.iter() ).all( |(p,q)| p.0 == q.0 && p.1 == q.1 );
    ( eta( a, &x1c, b ), eta( a, &x2c, b ), same )
}

const EPS: f64 = f64::EPSILON;

fn gen_entry( rng: &mut Rng, kind: usize ) -> (f64,f64) {
    match kind {
        0 => ( rng.sym(), 0.0 ),
        1 => ( rng.sym(), rng.sym() ),
        2 => ( 0.0, rng.sym() ),
        3 => if rng.below(2) == 0 { ( rng.sym(), 0.0 ) } else { ( 0.0, rng.sym() ) },
        4 => ( rng.sym() * 45.24, rng.sym() * 0.001 ),
        _ => { let t = rng.below(4); match t { 0 => ( rng.sym(), 0.0 ), 1 => ( 0.0, rng.sym() ), 2 => ( rng.sym(), rng.sym() ), _ => ( 1.0, rng.sym() * 1e-9 ) } }
    }
}

#[test]
fn sweep_generic() {
    let mut rng = Rng( 0x9E3779B97F4A7C15 );
    let mut worst = [ ( 0.0f64, 0usize, 0usize, 0usize ); 2 ];
    let mut disagreements = 0usize;
    let mut cases = 0usize;
    for n in 1..=70usize {
        let reps = if n <= 10 { 400 } else if n <= 30 { 60 } else { 12 };
        for rep in 0..reps {
            for kind in 0..6usize {
                // zero pattern: density
                let dens = match rep % 5 { 0 => 1.0, 1 => 0.6, 2 => 0.3, 3 => 0.15, _ => 0.05 };
                let mut a = vec![ vec![ (0.0,0.0); n ]; n ];
                // guarantee structural nonsingularity with a random permutation of generic entries
                let mut perm: Vec<usize> = ( 0..n ).collect();
                for i in ( 1..n ).rev() { let j = rng.below( i + 1 ); perm.swap( i, j ); }
                for i in 0..n { for j in 0..n {
                    if rng.unif() < dens || perm[i] == j { a[i][j] = gen_entry( &mut rng, kind ); }
                } }
                // force zero leading pivots in some cases
                if rep % 3 == 0 { for i in 0..n { if perm[i] != i { a[i][i] = ( 0.0, 0.0 ); } } }
                if rep % 7 == 0 { for i in 0..n { if perm[i] != i { a[i][i] = if kind == 0 { ( -0.0, 0.0 ) } else { ( -0.0, -0.0 ) }; } } }
                let b: Vec<(f64,f64)> = ( 0..n ).map( |_| gen_entry( &mut rng, kind ) ).collect();
                let ( e1, e2, same ) = if kind == 0 {
                    let ar: Vec<Vec<f64>> = a.iter().map( |r| r.iter().map( |v| v.0 ).collect() ).collect();
                    let br: Vec<f64> = b.iter().map( |v| v.0 ).collect();
                    run_real( &ar, &br )
                } else { run_cmplx( &a, &b ) };
                cases += 1;
                if !same { disagreements += 1; if disagreements < 5 { println!( "disagree n={} kind={} rep={} e1={:e} e2={:e}", n, kind, rep, e1, e2 ); } }
                // sparse random matrices can be (nearly) singular: only count finite results here, report infinities separately
                if e1 > worst[0].0 { worst[0] = ( e1, n, kind, rep ); }
                if e2 > worst[1].0 { worst[1] = ( e2, n, kind, rep ); }
            }
        }
    }
    println!( "cases {} disagreements {}", cases, disagreements );
    println!( "worst basic eta/eps = {:e} at n={} kind={} rep={}", worst[0].0 / EPS, worst[0].1, worst[0].2, worst[0].3 );
    println!( "worst lu    eta/eps = {:e} at n={} kind={} rep={}", worst[1].0 / EPS, worst[1].1, worst[1].2, worst[1].3 );
    assert!( disagreements == 0 );
    assert!( worst[0].0 < 1000.0 * EPS && worst[1].0 < 1000.0 * EPS );
}
