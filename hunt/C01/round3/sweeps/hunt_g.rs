// G: lattice of special / in-between values for 2x2 ( exhaustive ) and 3x3, 4x4 ( sampled ) complex and real systems
include!( "../_hunt/common.rs.inc" );
fn values() -> Vec<(f64,f64)> {
    vec![ (0.0,0.0), (1.0,0.0), (-1.0,0.0), (0.0,1.0), (0.0,-1.0), (1.0,1e-40), (1e-7,1.0), (0.7,0.0), (-0.3,0.55), (45.24,-0.001),
          (0.7e-120,-0.2e-120), (0.0,0.9e120), (1e-40,0.0), (-0.6e7,0.8e7), (1.0,5e-324), (0.3e-300,0.0), (0.0,-0.4e300), (1.0000000000000002,0.0), (0.6,0.8), (-0.0,1e-7) ]
}
fn xeta( a: &Vec<Vec<(f64,f64)>>, x: &Vec<XC>, b: &Vec<(f64,f64)> ) -> bool {
    // is the reference solution representable with representable products ?
    let mut hi = f64::NEG_INFINITY; for v in x { if !v.is_zero() { hi = hi.max( v.log10abs() ); } }
    let mut ma = f64::NEG_INFINITY; for r in a { for v in r { if v.0 != 0.0 || v.1 != 0.0 { ma = ma.max( v.0.abs().max( v.1.abs() ).log10() ); } } }
    let _ = b;
    hi < 290.0 && ma + hi < 290.0
}
#[test]
fn lattice() {
    let vals = values(); let nv = vals.len();
    let mut rng = Rng( 0x3141592653589793 );
    let mut cases = 0usize; let mut indomain = 0usize; let mut bad = 0usize; let mut worst = ( 0.0f64, String::new() ); let mut dis = 0usize;
    let mut run = |a: Vec<Vec<(f64,f64)>>, b: Vec<(f64,f64)>, tag: &str| {
        cases += 1;
        let t = match ref_solve_p( &a, &b ) { Some( t ) => t, None => { return; } };
        // domain: no intermediate quantity of the unbounded-exponent elimination outside 1e-290 .. 1e290, pivots not at rounding-noise level
        if !( t.2 > -290.0 ) || !xeta( &a, &t.0, &b ) { return; }
        // condition: skip numerically singular samples ( smallest pivot relative to the largest entry )
        let mut ma = f64::NEG_INFINITY; for r in &a { for v in r { if v.0 != 0.0 || v.1 != 0.0 { ma = ma.max( cabs( *v ).log10() ); } } }
        if !( t.1 - ma > -13.0 ) { return; }
        indomain += 1;
        let ( r1, r2, same ) = run_cmplx( &a, &b );
        if !same { dis += 1; }
        let e = r1.max( r2 ); let e = if e.is_nan() { f64::INFINITY } else { e };
        if e > worst.0 { worst = ( e, format!( "{} a={:?} b={:?}", tag, a, b ) ); }
        if !( e < 100.0 * EPS ) { bad += 1; if bad <= 6 { println!( "BAD {} eta=({:e},{:e}) minpiv {} minmid {}\n a={:?}\n b={:?}", tag, r1, r2, t.1, t.2, a, b ); } }
    };
    for i0 in 0..nv { for i1 in 0..nv { for i2 in 0..nv { for i3 in 0..nv {
        let a = vec![ vec![ vals[i0], vals[i1] ], vec![ vals[i2], vals[i3] ] ];
        for k in 0..3 { let b = vec![ vals[ rng.below( nv ) ], vals[ rng.below( nv ) ] ]; if k == 0 || b[0] != (0.0,0.0) || b[1] != (0.0,0.0) { run( a.clone(), b, "2x2" ); } }
    } } } }
    for n in 3..=5usize { for _ in 0..400000usize {
        let a: Vec<Vec<(f64,f64)>> = ( 0..n ).map( |_| ( 0..n ).map( |_| vals[ rng.below( nv ) ] ).collect() ).collect();
        let b: Vec<(f64,f64)> = ( 0..n ).map( |_| vals[ rng.below( nv ) ] ).collect();
        run( a, b, "nxn" );
    } }
    println!( "lattice: cases {} in-domain {} bad {} disagreements {} worst eta/eps {:e}\n at {}", cases, indomain, bad, dis, worst.0 / EPS, worst.1 );
    assert!( bad == 0 && dis == 0 );
}
