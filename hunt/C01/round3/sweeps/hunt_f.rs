// F: disagreements between the two solvers in the entrywise-scaled sweep: are there any with finite results?
include!( "../_hunt/common.rs.inc" );
fn p10( e: i32 ) -> f64 { format!( "1e{}", e ).parse::<f64>().unwrap() }
#[test]
fn disagreements() {
    let mut rng = Rng( 0x1234567887654321 );
    let exps: [i32; 9] = [ 0, 7, -7, 40, -40, 100, -100, 108, -108 ];
    let mut both_finite = 0usize; let mut total = 0usize; let mut small_eta = 0usize; let mut cases = 0usize; let mut nonfinite_nounderflow = 0usize;
    for n in 2..=6usize { for rep in 0..20000usize { for kind in 0..2usize {
        let dens = match rep % 3 { 0 => 1.0, 1 => 0.6, _ => 0.3 };
        let mut perm: Vec<usize> = ( 0..n ).collect();
        for i in ( 1..n ).rev() { let j = rng.below( i + 1 ); perm.swap( i, j ); }
        let mut a = vec![ vec![ (0.0,0.0); n ]; n ];
        for i in 0..n { for j in 0..n { if rng.unif() < dens || perm[i] == j { let g = gen_entry( &mut rng, kind ); let s = p10( exps[ rng.below( 9 ) ] ); a[i][j] = ( g.0 * s, g.1 * s ); } } }
        let b: Vec<(f64,f64)> = ( 0..n ).map( |_| { let g = gen_entry( &mut rng, kind ); let s = p10( exps[ rng.below( 9 ) ] ); ( g.0 * s, g.1 * s ) } ).collect();
        let nn = a.len();
        let mut m1 = Matrix::<C>::new( nn, nn, C::new( 0.0, 0.0 ) );
        for i in 0..nn { for j in 0..nn { m1[(i,j)] = C::new( a[i][j].0, a[i][j].1 ); } }
        let mut m2 = m1.clone();
        let bv = Vector::<C>::create( b.iter().map( |v| C::new( v.0, v.1 ) ).collect() );
        let x1 = m1.solve_basic( &bv ); let x2 = m2.solve_lu( &bv );
        cases += 1;
        let fin = |x: &Vector<C>| x.vec.iter().all( |v| v.real.is_finite() && v.imag.is_finite() );
        let same = x1.vec.iter().zip( x2.vec.iter() ).all( |(p,q)| ( p.real == q.real || ( p.real.is_nan() && q.real.is_nan() ) ) && ( p.imag == q.imag || ( p.imag.is_nan() && q.imag.is_nan() ) ) );
        let x1c: Vec<(f64,f64)> = x1.vec.iter().map( |v| ( v.real, v.imag ) ).collect();
        let x2c: Vec<(f64,f64)> = x2.vec.iter().map( |v| ( v.real, v.imag ) ).collect();
        if !same {
            total += 1;
            if fin( &x1 ) && fin( &x2 ) { both_finite += 1; println!( "both finite but different: eta {:e} {:e}\n a={:?}\n b={:?}", eta( &a, &x1c, &b ), eta( &a, &x2c, &b ), a, b ); }
            else if fin( &x1 ) || fin( &x2 ) {
                let e1 = eta( &a, &x1c, &b ); let e2 = eta( &a, &x2c, &b );
                if e1 < 100.0 * EPS || e2 < 100.0 * EPS { small_eta += 1; if small_eta <= 3 { println!( "one solver fine, the other not: eta {:e} {:e}\n a={:?}\n b={:?}\n x1={:?}\n x2={:?}", e1, e2, a, b, x1c, x2c ); } }
            }
        }
        if !fin( &x1 ) || !fin( &x2 ) {
            if let Some( t ) = ref_solve_p( &a, &b ) {
                let mut hi = f64::NEG_INFINITY; for v in &t.0 { if !v.is_zero() { hi = hi.max( v.log10abs() ); } }
                if t.2 > -300.0 && hi < 150.0 && t.1 > -150.0 { nonfinite_nounderflow += 1; if nonfinite_nounderflow <= 3 { println!( "nonfinite without underflow in the reference: hi {} minpiv {} minmid {}\n a={:?}\n b={:?}\n x1={:?}", hi, t.1, t.2, a, b, x1c ); } }
            }
        }
    } } }
    println!( "cases {} disagreements {} both finite {} one-fine {} nonfinite-without-underflow {}", cases, total, both_finite, small_eta, nonfinite_nounderflow );
}
