// C01 finding 2: Complex<f64> systems with small (normal, representable) magnitudes.
// c^2 + d^2 and a*c + b*d underflow in complex division and |z| underflows to 0 in the pivot
// search, so the solvers return NaN, a silently wrong 0, or an answer with ~4 correct digits.
use ohsl::complex::Complex;
use ohsl::matrix::Matrix;
use ohsl::vector::Vector;

type C = Complex<f64>;

fn close(z: C, re: f64, im: f64, scale: f64) -> bool {
    z.real.is_finite() && z.imag.is_finite()
        && (z.real - re).abs() <= 1e-12 * scale
        && (z.imag - im).abs() <= 1e-12 * scale
}

fn solve_both(a: &[Vec<C>], b: &[C]) -> (Vector<C>, Vector<C>) {
    let n = b.len();
    let mut m = Matrix::<C>::new(n, n, C::new(0.0, 0.0));
    for i in 0..n {
        for j in 0..n {
            m[(i, j)] = a[i][j];
        }
    }
    let bv = Vector::<C>::create(b.to_vec());
    let mut m2 = m.clone();
    (m.solve_basic(&bv), m2.solve_lu(&bv))
}

#[test]
fn one_by_one_1e_minus_200_gives_nan() {
    // (1e-200) x = (1e-200)  =>  x = 1
    let (x1, x2) = solve_both(&[vec![C::new(1e-200, 0.0)]], &[C::new(1e-200, 0.0)]);
    assert!(close(x1[0], 1.0, 0.0, 1.0), "solve_basic returned {:?}, expected (1, 0)", x1[0]);
    assert!(close(x2[0], 1.0, 0.0, 1.0), "solve_lu returned {:?}, expected (1, 0)", x2[0]);
}

#[test]
fn one_by_one_silent_zero() {
    // (1e-100) x = (1e-250)  =>  x = 1e-150 ; the crate returns exactly 0 (100% backward error)
    let (x1, x2) = solve_both(&[vec![C::new(1e-100, 0.0)]], &[C::new(1e-250, 0.0)]);
    assert!(close(x1[0], 1e-150, 0.0, 1e-150), "solve_basic returned {:?}, expected (1e-150, 0)", x1[0]);
    assert!(close(x2[0], 1e-150, 0.0, 1e-150), "solve_lu returned {:?}, expected (1e-150, 0)", x2[0]);
}

#[test]
fn one_by_one_1e_minus_160_loses_digits() {
    // (3.3e-160 + 4.1e-160 i) x = (1.7e-160 + 2.9e-160 i)  =>  x = (17.5 + 2.6 i) / 27.7
    let (x1, x2) = solve_both(&[vec![C::new(3.3e-160, 4.1e-160)]], &[C::new(1.7e-160, 2.9e-160)]);
    let (re, im) = (17.5 / 27.7, 2.6 / 27.7);
    assert!(close(x1[0], re, im, 1.0), "solve_basic returned {:?}, expected ({re}, {im})", x1[0]);
    assert!(close(x2[0], re, im, 1.0), "solve_lu returned {:?}, expected ({re}, {im})", x2[0]);
}
