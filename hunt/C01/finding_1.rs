// C01 finding 1: Complex<f64> systems with large (but perfectly representable) magnitudes.
// Both dense solvers return NaN because complex division forms c^2 + d^2 and a*c + b*d
// without scaling (and the pivot search uses |z| = sqrt(re^2 + im^2), which is +inf here).
use ohsl::complex::Complex;
use ohsl::matrix::Matrix;
use ohsl::vector::Vector;

type C = Complex<f64>;

fn close(z: C, re: f64, im: f64, scale: f64) -> bool {
    z.real.is_finite() && z.imag.is_finite()
        && (z.real - re).abs() <= 1e-12 * scale
        && (z.imag - im).abs() <= 1e-12 * scale
}

fn solve_both(a: &[Vec<C>], b: &[C]) -> (Vector<C>, Vector<C>) {
    let n = b.len();
    let mut m = Matrix::<C>::new(n, n, C::new(0.0, 0.0));
    for i in 0..n {
        for j in 0..n {
            m[(i, j)] = a[i][j];
        }
    }
    let bv = Vector::<C>::create(b.to_vec());
    let mut m2 = m.clone();
    (m.solve_basic(&bv), m2.solve_lu(&bv))
}

#[test]
fn one_by_one_1e200() {
    // (1e200) x = (1e200)  =>  x = 1
    let (x1, x2) = solve_both(&[vec![C::new(1e200, 0.0)]], &[C::new(1e200, 0.0)]);
    assert_eq!(x1.size(), 1);
    assert_eq!(x2.size(), 1);
    assert!(close(x1[0], 1.0, 0.0, 1.0), "solve_basic returned {:?}, expected (1, 0)", x1[0]);
    assert!(close(x2[0], 1.0, 0.0, 1.0), "solve_lu returned {:?}, expected (1, 0)", x2[0]);
}

#[test]
fn one_by_one_moderate_operands() {
    // (1e120) x = (1e200)  =>  x = 1e80 ; neither operand is beyond 1e300, nor is the answer
    let (x1, x2) = solve_both(&[vec![C::new(1e120, 0.0)]], &[C::new(1e200, 0.0)]);
    assert!(close(x1[0], 1e80, 0.0, 1e80), "solve_basic returned {:?}, expected (1e80, 0)", x1[0]);
    assert!(close(x2[0], 1e80, 0.0, 1e80), "solve_lu returned {:?}, expected (1e80, 0)", x2[0]);
}

#[test]
fn two_by_two_1e200_with_row_exchange() {
    // A = 1e200 * [[1+i, 2], [3, 4-i]],  x = (1, i)  =>  b = 1e200 * [1+3i, 4+4i]
    let s = 1e200;
    let a = vec![
        vec![C::new(s, s), C::new(2.0 * s, 0.0)],
        vec![C::new(3.0 * s, 0.0), C::new(4.0 * s, -s)],
    ];
    let b = vec![C::new(s, 3.0 * s), C::new(4.0 * s, 4.0 * s)];
    let (x1, x2) = solve_both(&a, &b);
    for (name, x) in [("solve_basic", &x1), ("solve_lu", &x2)] {
        assert!(close(x[0], 1.0, 0.0, 1.0) && close(x[1], 0.0, 1.0, 1.0),
            "{name} returned [{:?}, {:?}], expected [(1,0), (0,1)]", x[0], x[1]);
    }
}
