// C01 finding 3: exponential element growth under partial pivoting (Wilkinson's matrix).
// A has 1 on the diagonal, -1 below it, 1 in the last column, 0 elsewhere: entries are only
// -1, 0, 1, the matrix is well conditioned (cond_inf = n), yet the computed solution of both
// solvers has a normwise backward error of ~1e-2 at n = 60 instead of ~1e-16.
use ohsl::matrix::Matrix;
use ohsl::vector::Vector;

fn wilkinson(n: usize) -> Vec<Vec<f64>> {
    let mut a = vec![vec![0.0; n]; n];
    for i in 0..n {
        for j in 0..n {
            a[i][j] = if i == j { 1.0 } else if j < i { -1.0 } else if j == n - 1 { 1.0 } else { 0.0 };
        }
    }
    a
}

/// ||b - A x||_inf / ( ||A||_inf ||x||_inf + ||b||_inf ); entries of A are -1,0,1 so every product is exact
fn backward_error(a: &[Vec<f64>], b: &[f64], x: &Vector<f64>) -> f64 {
    let n = b.len();
    let (mut r, mut an, mut xn, mut bn) = (0.0f64, 0.0f64, 0.0f64, 0.0f64);
    for i in 0..n {
        let mut s = b[i];
        let mut row = 0.0;
        for j in 0..n {
            s -= a[i][j] * x[j];
            row += a[i][j].abs();
        }
        r = r.max(s.abs());
        an = an.max(row);
        xn = xn.max(x[i].abs());
        bn = bn.max(b[i].abs());
    }
    if !r.is_finite() { return f64::INFINITY; }
    r / (an * xn + bn)
}

#[test]
fn wilkinson_60() {
    let n = 60;
    let a = wilkinson(n);
    // a fixed, unremarkable right-hand side
    let b: Vec<f64> = (0..n).map(|i| ((i * 37 + 11) % 101) as f64 / 101.0 - 0.5).collect();
    let mut m = Matrix::<f64>::new(n, n, 0.0);
    for i in 0..n {
        for j in 0..n {
            m[(i, j)] = a[i][j];
        }
    }
    let bv = Vector::<f64>::create(b.clone());
    let mut m2 = m.clone();
    let x1 = m.solve_basic(&bv);
    let x2 = m2.solve_lu(&bv);
    let e1 = backward_error(&a, &b, &x1);
    let e2 = backward_error(&a, &b, &x2);
    // "of the order of machine epsilon": allow a generous 1e4 * n * eps
    let tol = 1e4 * (n as f64) * f64::EPSILON;
    assert!(e1 <= tol, "solve_basic: normwise backward error {e1:e} (tolerance {tol:e})");
    assert!(e2 <= tol, "solve_lu: normwise backward error {e2:e} (tolerance {tol:e})");
}
