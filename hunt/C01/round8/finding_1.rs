// C01 finding 1: partial pivoting alone does not give a backward error of the order of
// machine epsilon on every nonsingular system: on the (perfectly conditioned, entries 0 / +-1)
// matrix  a_ii = 1, a_ij = -1 (j < i), a_i,n-1 = 1  the element growth is 2^(n-1) and both
// dense solvers return an x whose normwise backward error is 1e-6 at n = 40 and 3e-2 at n = 60.
use ohsl::matrix::Matrix;
use ohsl::vector::Vector;

fn growth_matrix(n: usize) -> Vec<Vec<f64>> {
    let mut a = vec![vec![0.0; n]; n];
    for i in 0..n { for j in 0..n {
        a[i][j] = if i == j || j == n - 1 { 1.0 } else if j < i { -1.0 } else { 0.0 };
    } }
    a
}

fn rhs(n: usize) -> Vec<f64> { (0..n).map(|i| 1.0 / (1.0 + i as f64) * if i % 3 == 0 { -1.0 } else { 1.0 }).collect() }

// normwise backward error  ||b - A x||_inf / ( ||A||_inf ||x||_inf + ||b||_inf )
fn backward_error(a: &Vec<Vec<f64>>, x: &[f64], b: &[f64]) -> f64 {
    let n = b.len();
    let (mut r, mut an, mut xn, mut bn) = (0.0f64, 0.0f64, 0.0f64, 0.0f64);
    for i in 0..n {
        let mut s = b[i]; let mut row = 0.0;
        for j in 0..n { s -= a[i][j] * x[j]; row += a[i][j].abs(); }
        r = r.max(s.abs()); an = an.max(row); xn = xn.max(x[i].abs()); bn = bn.max(b[i].abs());
    }
    r / (an * xn + bn)
}

// independent reference: textbook Gaussian elimination with complete pivoting
fn reference_solve(a: &Vec<Vec<f64>>, b: &[f64]) -> Vec<f64> {
    let n = b.len(); let mut m = a.clone(); let mut y = b.to_vec(); let mut perm: Vec<usize> = (0..n).collect();
    for k in 0..n {
        let (mut pi, mut pj, mut best) = (k, k, 0.0);
        for i in k..n { for j in k..n { if m[i][j].abs() > best { best = m[i][j].abs(); pi = i; pj = j; } } }
        m.swap(k, pi); y.swap(k, pi);
        for row in m.iter_mut() { row.swap(k, pj); }
        perm.swap(k, pj);
        for i in k + 1..n {
            let l = m[i][k] / m[k][k];
            for j in k..n { let t = m[k][j]; m[i][j] -= l * t; }
            let t = y[k]; y[i] -= l * t;
        }
    }
    for k in (0..n).rev() { for j in k + 1..n { let t = y[j]; y[k] -= m[k][j] * t; } y[k] /= m[k][k]; }
    let mut x = vec![0.0; n]; for k in 0..n { x[perm[k]] = y[k]; }
    x
}

fn to_matrix(a: &Vec<Vec<f64>>) -> Matrix<f64> {
    let n = a.len(); let mut m = Matrix::<f64>::new(n, n, 0.0);
    for i in 0..n { for j in 0..n { m[(i, j)] = a[i][j]; } }
    m
}

#[test]
fn backward_error_of_order_epsilon_on_growth_matrix() {
    for n in [40usize, 60] {
        let a = growth_matrix(n); let b = rhs(n);
        // the demand is attainable: the reference reaches machine precision
        let xr = reference_solve(&a, &b);
        assert!(backward_error(&a, &xr, &b) < 1e-14, "reference solver is not accurate at n = {}", n);
        let bv = Vector::<f64>::create(b.clone());
        let x1 = to_matrix(&a).solve_basic(&bv);
        let x2 = to_matrix(&a).solve_lu(&bv);
        assert_eq!(x1.size(), n); assert_eq!(x2.size(), n);
        let v1: Vec<f64> = (0..n).map(|i| x1[i]).collect();
        let v2: Vec<f64> = (0..n).map(|i| x2[i]).collect();
        let (e1, e2) = (backward_error(&a, &v1, &b), backward_error(&a, &v2, &b));
        println!("n = {}: backward error solve_basic {:e}, solve_lu {:e}", n, e1, e2);
        // very generous: 1e-10 is almost 10^6 machine epsilons
        assert!(e1 < 1e-10, "solve_basic: backward error {:e} at n = {}", e1, n);
        assert!(e2 < 1e-10, "solve_lu: backward error {:e} at n = {}", e2, n);
    }
}
