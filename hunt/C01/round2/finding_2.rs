// C01 finding 2 (by the letter of "every nonsingular system"; the matrix is numerically singular):
//
//      A = [ 3   1       ]     b = [ 1 ]       det A = 3*fl(1/3) - 1 = -2^-54  (non-zero: A is nonsingular)
//          [ 1   fl(1/3) ]         [ 2 ]       exact solution  x = ( (2 - fl(1/3)) * 2^54, -5 * 2^54 ) ~ ( 3.0e16, -9.0e16 ) -- representable
//
// The multiplier 1/3 rounds to fl(1/3), the eliminated pivot fl(1/3) - fl(1/3)*1 is exactly 0 and
// both solvers divide by it.
use ohsl::{Matrix, Vector};

fn check(x: &Vector<f64>, who: &str) {
    let third = 1.0f64 / 3.0;
    assert_eq!(x.size(), 2);
    assert!(x[0].is_finite() && x[1].is_finite(), "{}: x = [{:e}, {:e}] is not finite", who, x[0], x[1]);
    // residual with fused multiply-adds (products of this size are not exact in f64)
    let r0 = 3.0f64.mul_add(x[0], x[1] - 1.0);
    let r1 = third.mul_add(x[1], x[0] - 2.0);
    let eta = r0.abs().max(r1.abs()) / (4.0 * x[0].abs().max(x[1].abs()) + 2.0);
    assert!(eta <= 1.0e-14, "{}: backward error {:e}", who, eta);
}

#[test]
fn nonsingular_system_whose_eliminated_pivot_rounds_to_zero() {
    let mut a = Matrix::<f64>::new(2, 2, 0.0);
    a[(0, 0)] = 3.0; a[(0, 1)] = 1.0;
    a[(1, 0)] = 1.0; a[(1, 1)] = 1.0 / 3.0;
    assert!(3.0f64.mul_add(1.0 / 3.0, -1.0) != 0.0); // the determinant, computed exactly, is not zero
    let b = Vector::<f64>::create(vec![1.0, 2.0]);
    let x_ge = a.clone().solve_basic(&b);
    let x_lu = a.clone().solve_lu(&b);
    check(&x_ge, "solve_basic");
    check(&x_lu, "solve_lu");
}
