// C01 finding 3 (borderline, "whatever the magnitudes"): real f64 system, entries in [1, 1e300],
// solution of size 1e10, but the product a_01 * x_1 = 1e310 formed in back substitution overflows.
//
//      A = [ 1e300  1e300 ]     b = [  0    ]      exact solution  x = [  1e10 ]
//          [ 1      2     ]         [ -1e10 ]                          [ -1e10 ]
use ohsl::{Matrix, Vector};

fn check(x: &Vector<f64>, who: &str) {
    assert_eq!(x.size(), 2);
    assert!(x[0].is_finite() && x[1].is_finite(), "{}: x = [{:e}, {:e}] is not finite (exact [1e10, -1e10])", who, x[0], x[1]);
    // rows scaled by their own magnitude so that the check cannot overflow
    let r0 = (x[0] + x[1]).abs();                     // row 0 / 1e300
    let r1 = (x[0] + 2.0 * x[1] + 1.0e10).abs();      // row 1
    let xn = x[0].abs().max(x[1].abs());
    assert!(r0 <= 1.0e-13 * 2.0 * xn && r1 <= 1.0e-13 * (3.0 * xn + 1.0e10), "{}: residuals {:e} {:e}", who, r0, r1);
}

#[test]
fn real_solve_row_scaled_large_entries() {
    let mut a = Matrix::<f64>::new(2, 2, 0.0);
    a[(0, 0)] = 1.0e300; a[(0, 1)] = 1.0e300;
    a[(1, 0)] = 1.0;     a[(1, 1)] = 2.0;
    let b = Vector::<f64>::create(vec![0.0, -1.0e10]);
    let x_ge = a.clone().solve_basic(&b);
    let x_lu = a.clone().solve_lu(&b);
    check(&x_ge, "solve_basic");
    check(&x_lu, "solve_lu");
}
