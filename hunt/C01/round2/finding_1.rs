// C01 finding 1: Complex<f64> system with every entry in [1, 1e120] (plus one zero), far inside
// the range where the complex division is known to be safe for its *operands*, yet both dense
// solvers return -inf/+inf: the overflow is in an intermediate of back substitution.
//
//      A = [ 1e120  1e120 ]      b = [ 0    ]      exact solution  x = [  1e70 ]
//          [ 1      -1    ]          [ 2e70 ]                          [ -1e70 ]
//
// (a badly row-scaled copy of [[1,1],[1,-1]]; ||A|| * ||x|| = 2e190 is comfortably representable)
use ohsl::{Complex, Matrix, Vector};
type C = Complex<f64>;

fn c(re: f64) -> C { C::new(re, 0.0) }

fn check(x: &Vector<C>, who: &str) {
    assert_eq!(x.size(), 2, "{}: wrong length", who);
    let exact = [1.0e70, -1.0e70];
    for i in 0..2 {
        assert!(x[i].real.is_finite() && x[i].imag.is_finite(),
            "{}: x[{}] = ({:e}, {:e}) is not finite (exact value {:e})", who, i, x[i].real, x[i].imag, exact[i]);
    }
    // normwise backward error, rows scaled so that nothing in the check itself can overflow
    // row 0 divided by 1e120:  x0 + x1 = 0 ;  row 1:  x0 - x1 = 2e70
    let xn = x[0].real.hypot(x[0].imag).max(x[1].real.hypot(x[1].imag));
    let r0 = ((x[0].real + x[1].real).hypot(x[0].imag + x[1].imag)) * 1.0e120;
    let r1 = (x[0].real - x[1].real - 2.0e70).hypot(x[0].imag - x[1].imag);
    let eta = r0.max(r1) / (2.0e120 * xn + 2.0e70);
    assert!(eta <= 1.0e-13, "{}: backward error {:e}", who, eta);
}

#[test]
fn complex_solve_row_scaled_moderate_magnitudes() {
    let mut a = Matrix::<C>::new(2, 2, c(0.0));
    a[(0, 0)] = c(1.0e120); a[(0, 1)] = c(1.0e120);
    a[(1, 0)] = c(1.0);     a[(1, 1)] = c(-1.0);
    let b = Vector::<C>::create(vec![c(0.0), c(2.0e70)]);
    let x_ge = a.clone().solve_basic(&b);
    let x_lu = a.clone().solve_lu(&b);
    check(&x_ge, "solve_basic");
    check(&x_lu, "solve_lu");
}
