// f64: back substitution overflows in a_kj * x_j although matrix, right-hand side and solution are all
// well inside the f64 range:  [[1e200, 1e200], [0, 1e-200]] x = [1, 1]  has x = [1e-200 - 1e200, 1e200]
use ohsl::{Matrix, Vector};

#[test]
fn upper_triangular_2x2_mixed_magnitudes() {
    for lu in [false, true] {
        let mut m = Matrix::<f64>::new(2, 2, 0.0);
        m[(0, 0)] = 1e200; m[(0, 1)] = 1e200; m[(1, 1)] = 1e-200;
        let b = Vector::<f64>::create(vec![1.0, 1.0]);
        let x = if lu { m.solve_lu(&b) } else { m.solve_basic(&b) };
        assert_eq!(x.size(), 2);
        assert!(x.vec.iter().all(|v| v.is_finite()), "lu={} x = {:?}, expected [-1e200, 1e200]", lu, x.vec);
        assert!((x.vec[0] + 1e200).abs() <= 1e186 && (x.vec[1] - 1e200).abs() <= 1e186, "lu={} x = {:?}", lu, x.vec);
    }
}
