// Complex<f64> systems whose entries are subnormal: a * x = a is solved as x = 0 (f64 gets 1 exactly)
use ohsl::{Complex, Matrix, Vector};
type C = Complex<f64>;

fn solve_1x1(a: C, b: C, lu: bool) -> C {
    let mut m = Matrix::<C>::new(1, 1, a);
    let rhs = Vector::<C>::create(vec![b]);
    let x = if lu { m.solve_lu(&rhs) } else { m.solve_basic(&rhs) };
    assert_eq!(x.size(), 1);
    x.vec[0]
}

#[test]
fn complex_1x1_subnormal_entries() {
    // the same system over f64 is solved exactly
    let mut m = Matrix::<f64>::new(1, 1, 1e-320);
    assert_eq!(m.solve_basic(&Vector::<f64>::create(vec![1e-320])).vec[0], 1.0);
    for lu in [false, true] {
        // a = b exactly, so x = 1 exactly; 1e-315 carries about 8 significant digits, 1e-320 about 3
        for (s, tol) in [(1e-315, 1e-6), (1e-320, 1e-2)] {
            for a in [C::new(s, 0.0), C::new(0.0, s), C::new(s, s)] {
                let x = solve_1x1(a, a, lu);
                assert!((x.real - 1.0).abs() <= tol && x.imag.abs() <= tol,
                    "lu={} a=b={:?}: x = {:?}, expected ( 1, 0 )", lu, a, x);
            }
        }
    }
}

#[test]
fn complex_2x2_subnormal_entries() {
    // [[0, s], [s, 0]] x = [s, 2s]  ->  x = [2, 1]; forces a row exchange, no arithmetic but the divisions
    let s = 1e-320; let z = C::new(0.0, 0.0);
    for lu in [false, true] {
        let mut m = Matrix::<C>::new(2, 2, z);
        m[(0, 1)] = C::new(s, 0.0); m[(1, 0)] = C::new(s, 0.0);
        let rhs = Vector::<C>::create(vec![C::new(s, 0.0), C::new(2.0 * s, 0.0)]);
        let x = if lu { m.solve_lu(&rhs) } else { m.solve_basic(&rhs) };
        assert!((x.vec[0].real - 2.0).abs() < 0.02 && (x.vec[1].real - 1.0).abs() < 0.02, "lu={} x = {:?}", lu, x.vec);
    }
}
