// Complex<f64> 1x1 system with entries close to (but inside) the top of the f64 range:
// ( 8e307 + 8e307 i ) x = ( 8e307 - 8e307 i ) has the solution x = -i; the crate returns an infinite part
use ohsl::{Complex, Matrix, Vector};
type C = Complex<f64>;

#[test]
fn complex_1x1_large_entries() {
    for lu in [false, true] {
        for s in [1e307, 6e307, 8e307] {
            let mut m = Matrix::<C>::new(1, 1, C::new(s, s));
            let rhs = Vector::<C>::create(vec![C::new(s, -s)]);
            let x = if lu { m.solve_lu(&rhs) } else { m.solve_basic(&rhs) };
            let x = x.vec[0];
            assert!(x.real.abs() <= 1e-14 && (x.imag + 1.0).abs() <= 1e-14,
                "lu={} s={:e}: x = {:?}, expected ( 0, -1 )", lu, s, x);
        }
    }
}
