// C04 finding 1: Banded<Complex<f64>> treats a nonzero entry of modulus < ~1.5e-162 as an exact
// zero when it selects the pivot (|z| is computed as sqrt(re*re + im*im), which underflows to 0).
// A nonsingular matrix is then declared singular: det() returns 0 and solve() returns NaN.
// The same real data in a Banded<f64> is handled correctly (control assertions below).
use ohsl::{Banded, Complex, Vector};

type C = Complex<f64>;
fn c(re: f64, im: f64) -> C { C::new(re, im) }

/// A = [[0, 1], [t, 1]]  (zero diagonal, tiny positive sub-diagonal), tridiagonal storage.
fn cmat(t: f64) -> Banded<C> {
    let mut a = Banded::<C>::new(2, 1, 1, c(0.0, 0.0));
    a[(0, 0)] = c(0.0, 0.0); a[(0, 1)] = c(1.0, 0.0);
    a[(1, 0)] = c(t, 0.0);   a[(1, 1)] = c(1.0, 0.0);
    a
}
fn rmat(t: f64) -> Banded<f64> {
    let mut a = Banded::<f64>::new(2, 1, 1, 0.0);
    a[(0, 0)] = 0.0; a[(0, 1)] = 1.0;
    a[(1, 0)] = t;   a[(1, 1)] = 1.0;
    a
}

#[test]
fn det_zero_diagonal_tiny_subdiagonal() {
    let t = 1e-200;
    // control: f64 element type
    assert_eq!(rmat(t).det(), -t);
    // dense reference: det = 0*1 - 1*t = -t (exactly representable)
    let d = cmat(t).det();
    assert!(d.real == -t && d.imag == 0.0, "det = {:?}, expected (-1e-200, 0)", d);
}

#[test]
fn solve_zero_diagonal_tiny_subdiagonal() {
    let t = 1e-200;
    // A x = (1, 1)  has the exact solution x = (0, 1)
    let xr = rmat(t).solve(&Vector::create(vec![1.0, 1.0]));
    assert_eq!((xr[0], xr[1]), (0.0, 1.0)); // control: f64 element type
    let x = cmat(t).solve(&Vector::create(vec![c(1.0, 0.0), c(1.0, 0.0)]));
    assert!(x[0].real == 0.0 && x[0].imag == 0.0 && x[1].real == 1.0 && x[1].imag == 0.0,
        "x = ({:?}, {:?}), expected ((0,0), (1,0))", x[0], x[1]);
}

#[test]
fn det_of_1x1_tiny_entry() {
    // smallest instance: the 1 x 1 matrix [1e-170]; its determinant is the entry itself
    let a = Banded::<C>::new(1, 0, 0, c(1e-170, 0.0));
    let d = a.det();
    assert!(d.real == 1e-170 && d.imag == 0.0, "det = {:?}, expected (1e-170, 0)", d);
}
