// C04 finding 2 (borderline: resize is not one of the operations the statement enumerates):
// Banded::resize with a different lower bandwidth scrambles the stored matrix.
use ohsl::{Banded, Vector};

#[test]
fn banded_resize_wider_lower_band_keeps_the_matrix() {
    // tridiagonal 3 x 3:  [ 11 12 0 ; 21 22 23 ; 0 32 33 ]
    let n = 3;
    let mut b = Banded::new( n, 1, 1, 0.0f64 );
    let dense = [ [ 11.0, 12.0, 0.0 ], [ 21.0, 22.0, 23.0 ], [ 0.0, 32.0, 33.0 ] ];
    for i in 0..n { for j in 0..n { if j <= i + 1 && i <= j + 1 { b[(i, j)] = dense[i][j]; } } }
    // widen the lower band by one (the new band (2,0) is zero), as Matrix::resize keeps the
    // existing entries and appends zeros
    b.resize( n, 2, 1 );
    for i in 0..n { for j in 0..n { if j <= i + 1 && i <= j + 2 {
        assert_eq!( b[(i, j)], dense[i][j], "element ({},{}) after resize( 3, 2, 1 )", i, j );
    } } }
    let x = Vector::create( vec![ 1.0, 1.0, 1.0 ] );
    let y = &b * &x;
    assert_eq!( ( y[0], y[1], y[2] ), ( 23.0, 66.0, 65.0 ) );
}
