// C04 finding 1: Banded element access accepts a column index >= n (inside the band of the
// last m2 rows) and silently reads / writes a storage slot that lies outside the matrix.
use ohsl::Banded;
use std::panic::{catch_unwind, AssertUnwindSafe};

#[test]
fn banded_index_rejects_column_out_of_range() {
    // 2 x 2 upper bidiagonal matrix: n = 2, m1 = 0, m2 = 1; the only valid indices are
    // (0,0) (0,1) (1,1).  (1,2) is one past the last column.
    let mut b = Banded::new( 2, 0, 1, 7.0f64 );
    b[(0, 0)] = 1.0; b[(0, 1)] = 2.0; b[(1, 1)] = 3.0;
    // the dense 2 x 2 matrix has no element (1,2): ohsl::Matrix panics there, so must Banded
    let read = catch_unwind( AssertUnwindSafe( || b[(1, 2)] ) );
    assert!( read.is_err(), "b[(1,2)] of a 2 x 2 banded matrix returned {:?} instead of panicking", read );
    let copy = b.clone();
    let write = catch_unwind( AssertUnwindSafe( || { b[(1, 2)] = -1.0; } ) );
    assert!( write.is_err(), "b[(1,2)] = -1 on a 2 x 2 banded matrix was accepted" );
    // (consequence of the accepted write: the object differs from its copy although every
    //  element of the 2 x 2 matrix is unchanged)
    assert!( b == copy );
}
