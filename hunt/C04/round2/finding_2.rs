// Banded::det forms the determinant as a running product of the pivots in pivot order; the partial
// products overflow / underflow although the determinant itself is an ordinary number.
// (The crate's dense Matrix::determinant shows the same values; the reference here is the
//  mathematical determinant of the dense matrix with the same band.)
use ohsl::Banded;

#[test]
fn det_of_badly_scaled_diagonal_is_one() {
    // diag( 1e200, 1e200, 1e-200, 1e-200 ): determinant = 1
    let d = [1e200, 1e200, 1e-200, 1e-200];
    let mut a = Banded::<f64>::new(4, 0, 0, 0.0);
    for i in 0..4 { a[(i, i)] = d[i]; }
    let det = a.det();
    assert!((det - 1.0).abs() <= 1e-12, "det = {:e}, exact determinant is 1", det);
}

#[test]
fn det_of_badly_scaled_diagonal_reversed_is_one() {
    let d = [1e-200, 1e-200, 1e200, 1e200];
    let mut a = Banded::<f64>::new(4, 0, 0, 0.0);
    for i in 0..4 { a[(i, i)] = d[i]; }
    let det = a.det();
    assert!((det - 1.0).abs() <= 1e-12, "det = {:e}, exact determinant is 1", det);
}

#[test]
fn det_of_singular_matrix_is_zero_not_nan() {
    // tridiagonal storage, diag( 1e200, 1e200, 0 ) with zero off-diagonals: determinant = 0
    let mut a = Banded::<f64>::new(3, 1, 1, 0.0);
    a[(0, 0)] = 1e200; a[(1, 1)] = 1e200; a[(2, 2)] = 0.0;
    let det = a.det();
    assert!(det == 0.0, "det = {:e}, exact determinant is 0", det);
}
