// Banded<Complex<f64>>::solve loses (or destroys) a solution whose every input entry lies well inside
// 1e-154 .. 1e154: the back substitution divides an INTERMEDIATE value by a pivot with the naive complex
// quotient, whose numerator re*re' + im*im' overflows / underflows although the quotient is representable.
// The same systems over Banded<f64> (same real entries) are solved exactly.
use ohsl::{Banded, Vector, Complex};

type C = Complex<f64>;
fn c(x: f64) -> C { C::new(x, 0.0) }

#[test]
fn complex_solve_overflow_with_moderate_entries() {
    // A = [ 1e120  1e100 ]   b = [ 0 ]     exact solution x = [ -1e80 ]
    //     [   0    1e-100 ]      [ 1 ]                        [  1e100 ]
    let (n, m1, m2) = (2, 0, 1);
    let mut a = Banded::<C>::new(n, m1, m2, c(0.0));
    a[(0, 0)] = c(1e120); a[(0, 1)] = c(1e100); a[(1, 1)] = c(1e-100);
    let x = a.solve(&Vector::create(vec![c(0.0), c(1.0)]));

    // the real banded matrix with the same entries gets it right
    let mut r = Banded::<f64>::new(n, m1, m2, 0.0);
    r[(0, 0)] = 1e120; r[(0, 1)] = 1e100; r[(1, 1)] = 1e-100;
    let xr = r.solve(&Vector::create(vec![0.0, 1.0]));
    assert!((xr[0] + 1e80).abs() <= 1e-14 * 1e80 && (xr[1] - 1e100).abs() <= 1e-14 * 1e100);

    assert!((x[1].real - 1e100).abs() <= 1e-14 * 1e100 && x[1].imag == 0.0, "x1 = {:?}", x[1]);
    assert!(x[0].real.is_finite() && x[0].imag.is_finite(), "x0 = {:?}, exact value is -1e80", x[0]);
    assert!((x[0].real + 1e80).abs() <= 1e-12 * 1e80 && x[0].imag.abs() <= 1e-12 * 1e80, "x0 = {:?}, exact value is -1e80", x[0]);
}

#[test]
fn complex_solve_underflow_with_moderate_entries() {
    // A = [ 1e-120  1e-100 ]   b = [   0    ]   exact solution x = [ -1e-80 ]
    //     [   0       1    ]       [ 1e-100 ]                      [  1e-100 ]
    let mut a = Banded::<C>::new(2, 0, 1, c(0.0));
    a[(0, 0)] = c(1e-120); a[(0, 1)] = c(1e-100); a[(1, 1)] = c(1.0);
    let x = a.solve(&Vector::create(vec![c(0.0), c(1e-100)]));
    // backward error of row 0: | A00 x0 + A01 x1 | / ( |A00||x0| + |A01||x1| ), all products are ~1e-200 (no underflow)
    let r0 = (1e-120 * x[0].real + 1e-100 * x[1].real).abs() / (1e-120 * x[0].real.abs() + 1e-100 * x[1].real.abs());
    assert!(r0 <= 1e-13, "x = {:?}, {:?}; relative residual of row 0 = {:e} (exact x0 = -1e-80)", x[0], x[1], r0);
}
