use ohsl::{Banded, Complex};
type C = Complex<f64>;
struct Rng(u64);
impl Rng {
    fn next(&mut self) -> u64 { self.0 = self.0.wrapping_add(0x9E3779B97F4A7C15); let mut z = self.0; z = (z ^ (z >> 30)).wrapping_mul(0xBF58476D1CE4E5B9); z = (z ^ (z >> 27)).wrapping_mul(0x94D049BB133111EB); z ^ (z >> 31) }
    fn uni(&mut self) -> f64 { (self.next() >> 11) as f64 / (1u64 << 53) as f64 }
    fn below(&mut self, n: u64) -> u64 { self.next() % n }
}
fn rv(r: &mut Rng) -> f64 {
    let s = if r.below(2) == 0 { 1.0 } else { -1.0 };
    match r.below(5) { 0 => 0.0, 1 => s * 0.7, 2 => s * (0.1 + r.uni()), 3 => { let e = r.below(241) as i32 - 120; s * (1.0 + r.uni()) * 10f64.powi(e) } _ => s * [1e-7, 1e-40, 1e120, 45.24, 0.001][r.below(5) as usize] }
}
fn in_band(i: usize, j: usize, m1: usize, m2: usize) -> bool { j <= i + m2 && i <= j + m1 }
fn same(a: f64, b: f64) -> bool { a.to_bits() == b.to_bits() || (a.is_nan() && b.is_nan()) }
fn cs(a: C, b: C) -> bool { same(a.real, b.real) && same(a.imag, b.imag) }
// own complex ops (textbook) for comparison up to rounding
fn cmul(a: C, b: C) -> C { C::new(a.real * b.real - a.imag * b.imag, a.real * b.imag + a.imag * b.real) }

#[test]
fn arith() {
    let mut r = Rng(5);
    let mut checked = 0usize;
    for _rep in 0..20 { for n in 1..=10usize { for m1 in 0..n { for m2 in 0..n {
        let z = C::new(0.0, 0.0);
        let (mut a, mut b) = (vec![vec![z; n]; n], vec![vec![z; n]; n]);
        let pa = C::new(rv(&mut r), rv(&mut r)); let pb = C::new(f64::NAN, 3.0);
        let mut ba = Banded::<C>::new(n, m1, m2, pa); let mut bb = Banded::<C>::new(n, m1, m2, pb);
        for i in 0..n { for j in 0..n { if in_band(i, j, m1, m2) {
            a[i][j] = C::new(rv(&mut r), rv(&mut r)); b[i][j] = C::new(rv(&mut r), rv(&mut r));
            ba[(i, j)] = a[i][j]; bb[(i, j)] = b[i][j];
        } } }
        let s = C::new(rv(&mut r), rv(&mut r));
        let sum = &ba + &bb; let dif = &ba - &bb; let pr = &ba * s; let ng = -&ba;
        let sum2 = ba.clone() + bb.clone(); let dif2 = ba.clone() - bb.clone(); let pr2 = ba.clone() * s; let ng2 = -ba.clone();
        let mut as1 = ba.clone(); as1 += &bb; let mut as2 = ba.clone(); as2 -= &bb; let mut as3 = ba.clone(); as3 *= s;
        let mut as4 = ba.clone(); as4 += bb.clone(); let mut as5 = ba.clone(); as5 -= bb.clone();
        let nz = s.real != 0.0 || s.imag != 0.0;
        let (qu, qu2, as6) = if nz { let mut t = ba.clone(); t /= s; (Some(&ba / s), Some(ba.clone() / s), Some(t)) } else { (None, None, None) };
        for i in 0..n { for j in 0..n { if in_band(i, j, m1, m2) {
            let (x, y) = (a[i][j], b[i][j]);
            let e_sum = C::new(x.real + y.real, x.imag + y.imag); let e_dif = C::new(x.real - y.real, x.imag - y.imag);
            let e_pr = cmul(x, s); let e_ng = C::new(-x.real, -x.imag);
            assert!(cs(sum[(i,j)], e_sum) && cs(sum2[(i,j)], e_sum) && cs(as1[(i,j)], e_sum) && cs(as4[(i,j)], e_sum));
            assert!(cs(dif[(i,j)], e_dif) && cs(dif2[(i,j)], e_dif) && cs(as2[(i,j)], e_dif) && cs(as5[(i,j)], e_dif));
            assert!(cs(pr[(i,j)], e_pr) && cs(pr2[(i,j)], e_pr), "{:?} {:?} {:?} {:?}", x, s, pr[(i,j)], e_pr);
            assert!(same(as3[(i,j)].real, e_pr.real) && (as3[(i,j)].imag == e_pr.imag || as3[(i,j)].imag.is_nan()), "mulassign {:?} {:?} {:?} {:?}", x, s, as3[(i,j)], e_pr);
            assert!(cs(ng[(i,j)], e_ng) && cs(ng2[(i,j)], e_ng));
            if let (Some(q), Some(q2), Some(q3)) = (&qu, &qu2, &as6) { let e = x / s; assert!(cs(q[(i,j)], e) && cs(q2[(i,j)], e) && cs(q3[(i,j)], e)); }
            // operands unchanged
            assert!(cs(ba[(i,j)], x) && cs(bb[(i,j)], y));
            checked += 1;
        } } }
        // shape preserved
        for m in [&sum, &dif, &pr, &ng, &as1, &as3] { assert_eq!((m.size(), m.size_below(), m.size_above()), (n, m1, m2)); }
    }}}}
    println!("checked {}", checked);
}
