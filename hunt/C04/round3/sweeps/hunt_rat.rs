use ohsl::{Banded, Vector, Number, Signed, Zero, One};
use std::ops::*;
use std::cmp::Ordering;

fn gcd(a: i128, b: i128) -> i128 { let (mut a, mut b) = (a.abs(), b.abs()); while b != 0 { let t = a % b; a = b; b = t; } a }
#[derive(Clone, Copy, Debug, PartialEq)]
struct Q { n: i128, d: i128 }
impl Q {
    fn new(n: i128, d: i128) -> Q { assert!(d != 0, "division by zero"); let g = gcd(n, d); let s = if d < 0 { -1 } else { 1 }; if g == 0 { Q { n: 0, d: 1 } } else { Q { n: s * n / g, d: s * d / g } } }
}
impl Add for Q { type Output = Q; fn add(self, o: Q) -> Q { let g = gcd(self.d, o.d); let l = self.d / g; Q::new(self.n.checked_mul(o.d / g).unwrap().checked_add(o.n.checked_mul(l).unwrap()).unwrap(), l.checked_mul(o.d).unwrap()) } }
impl Neg for Q { type Output = Q; fn neg(self) -> Q { Q { n: -self.n, d: self.d } } }
impl Sub for Q { type Output = Q; fn sub(self, o: Q) -> Q { self + (-o) } }
impl Mul for Q { type Output = Q; fn mul(self, o: Q) -> Q { let g1 = gcd(self.n, o.d).max(1); let g2 = gcd(o.n, self.d).max(1); Q::new((self.n / g1).checked_mul(o.n / g2).unwrap(), (self.d / g2).checked_mul(o.d / g1).unwrap()) } }
impl Div for Q { type Output = Q; fn div(self, o: Q) -> Q { assert!(o.n != 0, "division by zero"); self * Q::new(o.d, o.n) } }
impl AddAssign for Q { fn add_assign(&mut self, o: Q) { *self = *self + o; } }
impl SubAssign for Q { fn sub_assign(&mut self, o: Q) { *self = *self - o; } }
impl MulAssign for Q { fn mul_assign(&mut self, o: Q) { *self = *self * o; } }
impl DivAssign for Q { fn div_assign(&mut self, o: Q) { *self = *self / o; } }
impl Zero for Q { fn zero() -> Q { Q { n: 0, d: 1 } } }
impl One for Q { fn one() -> Q { Q { n: 1, d: 1 } } }
impl Number for Q {}
impl Signed for Q { fn abs(&self) -> Q { Q { n: self.n.abs(), d: self.d } } }
impl PartialOrd for Q { fn partial_cmp(&self, o: &Q) -> Option<Ordering> { (self.n.checked_mul(o.d).unwrap()).partial_cmp(&(o.n.checked_mul(self.d).unwrap())) } }

struct Rng(u64);
impl Rng {
    fn next(&mut self) -> u64 { self.0 = self.0.wrapping_add(0x9E3779B97F4A7C15); let mut z = self.0; z = (z ^ (z >> 30)).wrapping_mul(0xBF58476D1CE4E5B9); z = (z ^ (z >> 27)).wrapping_mul(0x94D049BB133111EB); z ^ (z >> 31) }
    fn below(&mut self, n: u64) -> u64 { self.next() % n }
}
fn in_band(i: usize, j: usize, m1: usize, m2: usize) -> bool { j <= i + m2 && i <= j + m1 }

// reference: Gauss-Jordan on the dense matrix choosing the FIRST nonzero pivot (different pivot rule), exact
fn reference(a0: &Vec<Vec<Q>>, b0: &Vec<Q>) -> Option<(Vec<Q>, Q)> {
    let n = b0.len(); let mut a = a0.clone(); let mut b = b0.clone(); let mut det = Q::one();
    for k in 0..n {
        let p = (k..n).find(|&i| a[i][k].n != 0);
        let p = match p { Some(p) => p, None => return None };
        if p != k { a.swap(p, k); b.swap(p, k); det = -det; }
        det = det * a[k][k];
        let piv = a[k][k];
        for j in 0..n { a[k][j] = a[k][j] / piv; } b[k] = b[k] / piv;
        for i in 0..n { if i != k && a[i][k].n != 0 { let m = a[i][k]; for j in 0..n { a[i][j] = a[i][j] - m * a[k][j]; } b[i] = b[i] - m * b[k]; } }
    }
    Some((b, det))
}

#[test]
fn sweep_rat() {
    let mut r = Rng(4242);
    let (mut cases, mut sing, mut skipped, mut bad) = (0, 0, 0, 0);
    for _rep in 0..40 {
        for n in 1..=10usize { for m1 in 0..n { for m2 in 0..n {
            let style = r.below(5);
            let mut a = vec![vec![Q::zero(); n]; n];
            let gen = |r: &mut Rng| -> Q { match style {
                0 => Q::new(r.below(7) as i128 - 3, 1),
                1 => Q::new(r.below(7) as i128 - 3, 1 + r.below(3) as i128),
                2 => Q::new([1, -1, 2, -2, 0][r.below(5) as usize], 1),
                3 => if r.below(3) == 0 { Q::new(r.below(9) as i128 - 4, 1) } else { Q::zero() },
                _ => Q::new(r.below(2001) as i128 - 1000, 1 + r.below(1000) as i128),
            } };
            if style == 4 && n > 6 { continue; }
            for i in 0..n { for j in 0..n { if in_band(i, j, m1, m2) { a[i][j] = gen(&mut r); } } }
            match r.below(5) {
                0 => for i in 0..n { a[i][i] = -a[i][i].abs(); },
                1 => if m1 > 0 { for i in 0..n { a[i][i] = Q::zero(); } for i in 1..n { if a[i][i-1].n == 0 { a[i][i-1] = Q::new(1, 3); } } },
                2 => if m1 > 0 { for i in 1..n { a[i][i-1] = Q::new(1, 1000003); } },
                _ => {}
            }
            let b: Vec<Q> = (0..n).map(|_| gen(&mut r)).collect();
            let pad = [Q::zero(), Q::new(7, 3), Q::new(-1000, 1)][r.below(3) as usize];
            let res = std::panic::catch_unwind(|| {
                let mut bm = Banded::<Q>::new(n, m1, m2, pad);
                for i in 0..n { for j in 0..n { if in_band(i, j, m1, m2) { bm[(i, j)] = a[i][j]; } } }
                let v = Vector::create(b.clone());
                let y = &bm * &v;
                for i in 0..n { let mut s = Q::zero(); for j in 0..n { s = s + a[i][j] * b[j]; } assert_eq!(s, y[i], "product"); }
                let rf = reference(&a, &b);
                let d = bm.det();
                match rf {
                    None => { assert_eq!(d, Q::zero(), "det of singular n={} m1={} m2={} a={:?}", n, m1, m2, a); 1 }
                    Some((x, det)) => {
                        assert_eq!(d, det, "det n={} m1={} m2={} a={:?}", n, m1, m2, a);
                        let xs = bm.solve(&v);
                        assert_eq!(xs.vec, x, "solve n={} m1={} m2={} a={:?} b={:?}", n, m1, m2, a, b);
                        // arithmetic
                        let two = Q::new(2, 1);
                        let s = &(&bm + &bm) - &(&bm * two);
                        let h = &bm / two; let ng = -&bm;
                        for i in 0..n { for j in 0..n { if in_band(i, j, m1, m2) { assert_eq!(s[(i,j)], Q::zero()); assert_eq!(h[(i,j)], a[i][j] / two); assert_eq!(ng[(i,j)], -a[i][j]); } } }
                        0
                    }
                }
            });
            cases += 1;
            match res { Ok(s) => sing += s, Err(e) => {
                let msg = e.downcast_ref::<String>().cloned().unwrap_or_else(|| e.downcast_ref::<&str>().map(|s| s.to_string()).unwrap_or_default());
                if msg.contains("unwrap") || msg.contains("overflow") { skipped += 1; } else { bad += 1; if bad < 4 { println!("BAD: {}", &msg[..msg.len().min(1500)]); } }
            } }
        }}}
    }
    println!("cases {} singular {} skipped(overflow) {} bad {}", cases, sing, skipped, bad);
    assert_eq!(bad, 0);
}
