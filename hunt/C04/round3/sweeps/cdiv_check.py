import struct, sys
from fractions import Fraction as F
import math
def b2f(s): return struct.unpack('<d', struct.pack('<Q', int(s)))[0]
worst_div=[];worst_mul=[];worst_abs=[]
def mag(re,im):  # exact |.|^2
    return re*re+im*im
cnt=0
for line in open('/tmp/wt11/C04/_cdiv.txt'):
    v=[b2f(t) for t in line.split()]
    zr,zi,wr,wi,qr,qi,pr,pi,ab=v
    Z=(F(zr),F(zi)); W=(F(wr),F(wi))
    # abs
    m2=mag(*W)
    if m2!=0:
        # compare ab^2 with m2
        # exact compare via fractions: rel err of ab
        if math.isfinite(ab) and ab>0:
            ratio=F(ab)*F(ab)/m2
            err=abs(float(ratio)-1)/2
        else:
            # true abs range?
            la=0.5*(math.log10(m2.numerator)-math.log10(m2.denominator))
            err = 0 if (la>308.2 or la<-307.6) else float('inf')
        worst_abs.append((err,wr,wi,ab))
    # mul
    P=(Z[0]*W[0]-Z[1]*W[1], Z[0]*W[1]+Z[1]*W[0])
    pm=mag(*P)
    if pm!=0:
        lp=0.5*(math.log10(pm.numerator)-math.log10(pm.denominator))
        if -290<lp<290:
            if math.isfinite(pr) and math.isfinite(pi):
                d=mag(F(pr)-P[0],F(pi)-P[1])
                err=math.sqrt(float(d/pm)) if d/pm<10**300 else float('inf')
            else: err=float('inf')
            worst_mul.append((err,zr,zi,wr,wi,pr,pi))
    # div
    if m2!=0:
        Q=((Z[0]*W[0]+Z[1]*W[1])/m2,(Z[1]*W[0]-Z[0]*W[1])/m2)
        qm=mag(*Q)
        if qm!=0:
            lq=0.5*(math.log10(qm.numerator)-math.log10(qm.denominator))
            if -290<lq<290:
                if math.isfinite(qr) and math.isfinite(qi):
                    d=mag(F(qr)-Q[0],F(qi)-Q[1])
                    err=math.sqrt(float(d/qm)) if d/qm<10**300 else float('inf')
                else: err=float('inf')
                worst_div.append((err,zr,zi,wr,wi,qr,qi,float(Q[0]),float(Q[1])))
        else:
            if qr!=0 or qi!=0: worst_div.append((float('inf'),zr,zi,wr,wi,qr,qi,0,0))
for name,w in (('abs',worst_abs),('mul',worst_mul),('div',worst_div)):
    w.sort(key=lambda t:-t[0])
    print(name,len(w))
    for t in w[:8]: print('  ',t)
