use ohsl::Complex;
use std::io::Write;
type C = Complex<f64>;
struct Rng(u64);
impl Rng {
    fn next(&mut self) -> u64 { self.0 = self.0.wrapping_add(0x9E3779B97F4A7C15); let mut z = self.0; z = (z ^ (z >> 30)).wrapping_mul(0xBF58476D1CE4E5B9); z = (z ^ (z >> 27)).wrapping_mul(0x94D049BB133111EB); z ^ (z >> 31) }
    fn uni(&mut self) -> f64 { (self.next() >> 11) as f64 / (1u64 << 53) as f64 }
    fn below(&mut self, n: u64) -> u64 { self.next() % n }
}
fn rv(r: &mut Rng) -> f64 {
    let s = if r.below(2) == 0 { 1.0 } else { -1.0 };
    match r.below(6) {
        0 => 0.0,
        1 => s,
        2 => s * (0.1 + r.uni()),
        3 => { let e = r.below(601) as i32 - 300; s * (1.0 + r.uni()) * 10f64.powi(e) }
        4 => { let t = [1e-7, 1e7, 1e-40, 1e40, 1e-120, 1e120, 1e-154, 1e154, 1e-162, 1e-300, 1e300, 1e-200, 1e200]; s * t[r.below(13) as usize] }
        _ => { let e = r.below(81) as i32 - 40; s * (1.0 + r.uni()) * 10f64.powi(e) }
    }
}
#[test]
fn dump() {
    let mut r = Rng(99);
    let mut f = std::fs::File::create("_cdiv.txt").unwrap();
    for _ in 0..200000 {
        let z = C::new(rv(&mut r), rv(&mut r));
        let w = C::new(rv(&mut r), rv(&mut r));
        let q = z / w; let p = z * w; let a = Complex::<f64>::abs(&w);
        writeln!(f, "{} {} {} {} {} {} {} {} {}", z.real.to_bits(), z.imag.to_bits(), w.real.to_bits(), w.imag.to_bits(), q.real.to_bits(), q.imag.to_bits(), p.real.to_bits(), p.imag.to_bits(), a.to_bits()).unwrap();
    }
}
