// Sweep: Banded<f64> vs. an independent dense GEPP (first-max tie-breaking) on the same entries.
use ohsl::{Banded, Vector};

struct Rng(u64);
impl Rng {
    fn next(&mut self) -> u64 {
        // splitmix64
        self.0 = self.0.wrapping_add(0x9E3779B97F4A7C15);
        let mut z = self.0;
        z = (z ^ (z >> 30)).wrapping_mul(0xBF58476D1CE4E5B9);
        z = (z ^ (z >> 27)).wrapping_mul(0x94D049BB133111EB);
        z ^ (z >> 31)
    }
    fn uni(&mut self) -> f64 { (self.next() >> 11) as f64 / (1u64 << 53) as f64 }
    fn below(&mut self, n: u64) -> u64 { self.next() % n }
    fn sym(&mut self) -> f64 { 2.0 * self.uni() - 1.0 }
}

fn in_band(i: usize, j: usize, m1: usize, m2: usize) -> bool { j <= i + m2 && i <= j + m1 }

// value generator by class
fn val(r: &mut Rng, class: u32) -> f64 {
    match class {
        0 => r.sym() * 10.0,                                  // generic
        1 => { let e = r.below(15) as i32 - 7; r.sym() * 10f64.powi(e) }
        2 => { let e = r.below(81) as i32 - 40; r.sym() * 10f64.powi(e) }
        3 => { let e = r.below(241) as i32 - 120; r.sym() * 10f64.powi(e) }
        4 => { let t = [0.7, -0.7, 0.3, -0.3, 0.0]; t[r.below(5) as usize] }     // ties
        5 => { // values 1 ulp apart around 0.7
            let b = 0.7f64.to_bits() + r.below(3) - 1;
            let v = f64::from_bits(b);
            if r.below(2) == 0 { v } else { -v }
        }
        6 => { // mostly zeros
            if r.below(3) == 0 { r.sym() } else { 0.0 }
        }
        7 => { let t = [1e-7, 1e7, 1e-40, 1e40, 1e-120, 1e120, 1.0, -1.0, 0.7, -0.3]; t[r.below(10) as usize] * (1.0 + 0.25 * r.uni()) }
        8 => { let e = r.below(141) as i32 - 70; r.sym() * 10f64.powi(e) }
        _ => r.sym(),
    }
}

struct Case { n: usize, m1: usize, m2: usize, a: Vec<Vec<f64>>, b: Vec<f64>, pad: f64 }

fn build(c: &Case) -> Banded<f64> {
    let mut bm = Banded::<f64>::new(c.n, c.m1, c.m2, c.pad);
    for i in 0..c.n { for j in 0..c.n { if in_band(i, j, c.m1, c.m2) { bm[(i, j)] = c.a[i][j]; } } }
    bm
}

// textbook dense GEPP with same operation order as a column-oriented forward sweep.
// returns (x, det, singular)
fn dense(a0: &Vec<Vec<f64>>, b0: &Vec<f64>) -> (Vec<f64>, f64, bool) {
    let n = b0.len();
    let mut a = a0.clone();
    let mut x = b0.clone();
    let mut sign = 1.0;
    let mut singular = false;
    for k in 0..n {
        let mut p = k; let mut big = a[k][k].abs();
        for i in k + 1..n { if a[i][k].abs() > big { big = a[i][k].abs(); p = i; } }
        if big == 0.0 { singular = true; continue; }
        if p != k { a.swap(p, k); x.swap(p, k); sign = -sign; }
        for i in k + 1..n {
            let m = a[i][k] / a[k][k];
            if a[i][k] == 0.0 { continue; }
            for j in k..n { a[i][j] = a[i][j] - m * a[k][j]; }
            x[i] -= m * x[k];
        }
    }
    let mut det = sign;
    let mut inrange = true;
    for k in 0..n { det *= a[k][k]; if !(det.abs() > 1e-280 && det.abs() < 1e280) { inrange = false; } }
    if singular { return (x, 0.0, true); }
    if !inrange { det = f64::NAN; }
    for i in (0..n).rev() {
        let mut s = x[i];
        for j in i + 1..n { s -= a[i][j] * x[j]; }
        x[i] = s / a[i][i];
    }
    (x, det, false)
}

// error-free product and sum for an accurate residual
fn two_prod(a: f64, b: f64) -> (f64, f64) { let p = a * b; (p, a.mul_add(b, -p)) }
fn two_sum(a: f64, b: f64) -> (f64, f64) { let s = a + b; let bb = s - a; (s, (a - (s - bb)) + (b - bb)) }

fn backward_error(a: &Vec<Vec<f64>>, x: &[f64], b: &[f64]) -> (f64, f64) {
    // normwise and componentwise
    let n = b.len();
    let mut rmax = 0.0f64; let mut anorm = 0.0f64; let mut xn = 0.0f64; let mut bn = 0.0f64;
    let mut comp = 0.0f64;
    for i in 0..n {
        let mut hi = -b[i]; let mut lo = 0.0;
        let mut den = b[i].abs(); let mut rowsum = 0.0;
        for j in 0..n {
            let (p, e) = two_prod(a[i][j], x[j]);
            let (s, e2) = two_sum(hi, p);
            hi = s; lo += e + e2;
            den += (a[i][j] * x[j]).abs();
            rowsum += a[i][j].abs();
        }
        let r = (hi + lo).abs();
        if r > rmax { rmax = r; }
        if rowsum > anorm { anorm = rowsum; }
        if b[i].abs() > bn { bn = b[i].abs(); }
        if den > 0.0 { let c = r / den; if c > comp { comp = c; } } else if r > 0.0 { comp = f64::INFINITY; }
    }
    for j in 0..n { if x[j].abs() > xn { xn = x[j].abs(); } }
    (if rmax == 0.0 { 0.0 } else { rmax / (anorm * xn + bn) }, comp)
}

fn same(a: f64, b: f64) -> bool { a == b || (a.is_nan() && b.is_nan()) }

#[test]
fn sweep_f64() {
    let mut r = Rng(12345);
    let mut worst_norm = 0.0f64; let mut worst_case = String::new();
    let mut n_bitdiff = 0usize; let mut n_cases = 0usize; let mut n_sing = 0usize;
    let mut first_bitdiff = String::new();
    let mut n_detdiff = 0usize; let mut first_detdiff = String::new();
    let mut n_muldiff = 0usize;
    let pads = [0.0, 1.0, -3.7, 1e300, -1e-300, f64::NAN, f64::INFINITY, 123.456];
    for rep in 0..30 {
        for n in (11..=70usize).step_by(3) { for m1 in [0, 1, 2, 5, n / 2, n - 2, n - 1] { for m2 in [0, 1, 3, n / 3, n - 1] {
            let class = r.below(10) as u32;
            let bclass = if r.below(2) == 0 { class } else { r.below(10) as u32 };
            let mut a = vec![vec![0.0; n]; n];
            for i in 0..n { for j in 0..n { if in_band(i, j, m1, m2) { a[i][j] = val(&mut r, class); } } }
            // structure tweaks
            match r.below(6) {
                0 => for i in 0..n { a[i][i] = -a[i][i].abs(); },
                1 => if m1 > 0 { for i in 0..n { a[i][i] = 0.0; } for i in 1..n { if a[i][i-1] == 0.0 { a[i][i-1] = 0.7; } } },
                2 => if m1 > 0 { let t = [1e-7, 1e-40, 1e-120, 1e-300][r.below(4) as usize]; for i in 1..n { a[i][i-1] = t; } },
                _ => {}
            }
            let mut b = vec![0.0; n];
            for i in 0..n { b[i] = val(&mut r, bclass); }
            let pad = pads[r.below(pads.len() as u64) as usize];
            let c = Case { n, m1, m2, a, b, pad };
            let bm = build(&c);
            // element access
            for i in 0..n { for j in 0..n { if in_band(i, j, m1, m2) { assert!(same(bm[(i, j)], c.a[i][j])); } } }
            // product
            let v = Vector::create(c.b.clone());
            let y = &bm * &v;
            for i in 0..n {
                let mut s = 0.0;
                for j in 0..n { if in_band(i, j, m1, m2) { s += c.a[i][j] * c.b[j]; } }
                if !same(s, y[i]) { n_muldiff += 1; if n_muldiff < 5 { println!("MULDIFF n={} m1={} m2={} i={} ref={:e} got={:e} pad={:e}", n, m1, m2, i, s, y[i], pad); } }
            }
            let (xr, dr, sing) = dense(&c.a, &c.b);
            let d = bm.det();
            n_cases += 1;
            if sing { n_sing += 1;
                if !(d == 0.0) && class != 2 && class != 3 && class != 8 && class != 7 { n_detdiff += 1; if first_detdiff.is_empty() { first_detdiff = format!("SINGULAR n={} m1={} m2={} det={:e} a={:?}", n, m1, m2, d, c.a); } }
                continue; }
            if !dr.is_nan() && !same(d, dr) {
                // permit overflow/underflow differences? report all
                n_detdiff += 1;
                if first_detdiff.is_empty() { first_detdiff = format!("n={} m1={} m2={} det banded={:e} dense={:e} a={:?} pad={:e}", n, m1, m2, d, dr, c.a, pad); }
            }
            let x = bm.solve(&v);
            let mut diff = false;
            for i in 0..n { if !same(x[i], xr[i]) { diff = true; } }
            if diff && x.vec.iter().all(|t| t.is_finite()) && xr.iter().all(|t| t.is_finite()) { n_bitdiff += 1; if first_bitdiff.is_empty() { first_bitdiff = format!("rep={} n={} m1={} m2={} class={} a={:?} b={:?} pad={:e}\n x={:?}\n xr={:?}", rep, n, m1, m2, class, c.a, c.b, pad, x.vec, xr); } }
            let finite = x.vec.iter().all(|t| t.is_finite());
            let finite_r = xr.iter().all(|t| t.is_finite());
            if finite {
                let (nb, _cb) = backward_error(&c.a, &x.vec, &c.b);
                if nb > worst_norm || nb.is_nan() { worst_norm = nb; worst_case = format!("eta={:e} rep={} n={} m1={} m2={} class={} a={:?} b={:?} x={:?}", nb, rep, n, m1, m2, class, c.a, c.b, x.vec); }
            } else if finite_r {
                println!("NONFINITE banded but finite dense: n={} m1={} m2={} a={:?} b={:?}", n, m1, m2, c.a, c.b);
            }
        }}}
    }
    println!("cases {} singular {} bitdiff {} detdiff {} muldiff {}", n_cases, n_sing, n_bitdiff, n_detdiff, n_muldiff);
    println!("first bitdiff: {}", first_bitdiff);
    println!("first detdiff: {}", first_detdiff);
    println!("worst normwise eta: {}", worst_case);
    assert!(n_bitdiff == 0 && n_detdiff == 0 && n_muldiff == 0);
}
