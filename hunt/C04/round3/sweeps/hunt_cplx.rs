// Sweep: Banded<Complex<f64>> vs. independent dense GEPP and own-arithmetic residuals
use ohsl::{Banded, Vector, Complex};
type C = Complex<f64>;

struct Rng(u64);
impl Rng {
    fn next(&mut self) -> u64 {
        self.0 = self.0.wrapping_add(0x9E3779B97F4A7C15);
        let mut z = self.0;
        z = (z ^ (z >> 30)).wrapping_mul(0xBF58476D1CE4E5B9);
        z = (z ^ (z >> 27)).wrapping_mul(0x94D049BB133111EB);
        z ^ (z >> 31)
    }
    fn uni(&mut self) -> f64 { (self.next() >> 11) as f64 / (1u64 << 53) as f64 }
    fn below(&mut self, n: u64) -> u64 { self.next() % n }
    fn sym(&mut self) -> f64 { 2.0 * self.uni() - 1.0 }
}
fn in_band(i: usize, j: usize, m1: usize, m2: usize) -> bool { j <= i + m2 && i <= j + m1 }

fn rv(r: &mut Rng, class: u32) -> f64 {
    match class {
        0 => r.sym() * 10.0,
        1 => { let e = r.below(15) as i32 - 7; r.sym() * 10f64.powi(e) }
        2 => { let e = r.below(81) as i32 - 40; r.sym() * 10f64.powi(e) }
        3 => { let e = r.below(241) as i32 - 120; r.sym() * 10f64.powi(e) }
        4 => { let t = [0.7, -0.7, 0.3, -0.3, 0.0, 0.55, -0.55]; t[r.below(7) as usize] }
        5 => { let b = 0.7f64.to_bits() + r.below(3) - 1; let v = f64::from_bits(b); if r.below(2) == 0 { v } else { -v } }
        6 => { if r.below(3) == 0 { r.sym() } else { 0.0 } }
        7 => { let t = [1e-7, 1e7, 1e-40, 1e40, 1e-120, 1e120, 1.0, -1.0, 0.7, -0.3, 0.0, 45.24, -0.001]; t[r.below(13) as usize] }
        8 => { let e = r.below(141) as i32 - 70; r.sym() * 10f64.powi(e) }
        _ => r.sym(),
    }
}
fn cv(r: &mut Rng, class: u32) -> C {
    match r.below(8) {
        0 => C::new(rv(r, class), 0.0),          // purely real
        1 => C::new(0.0, rv(r, class)),          // purely imaginary
        2 => C::new(1.0, rv(r, 7) * 1e-30),      // exactly 1 with tiny other part
        3 => C::new(rv(r, 7) * 1e-30, -1.0),
        _ => C::new(rv(r, class), rv(r, class)),
    }
}

fn cabs(z: C) -> f64 { z.real.hypot(z.imag) }

// dense GEPP using the crate's Complex arithmetic and the crate's abs for the pivot choice (bitwise oracle)
fn dense(a0: &Vec<Vec<C>>, b0: &Vec<C>) -> (Vec<C>, C, bool, bool) {
    let n = b0.len();
    let mut a = a0.clone();
    let mut x = b0.clone();
    let mut sign = C::new(1.0, 0.0);
    let mut singular = false;
    let zero = C::new(0.0, 0.0);
    for k in 0..n {
        let mut p = k; let mut big = a[k][k].abs();
        for i in k + 1..n { if a[i][k].abs() > big { big = a[i][k].abs(); p = i; } }
        if big == 0.0 { singular = true; continue; }
        if p != k { a.swap(p, k); x.swap(p, k); sign = -sign; }
        for i in k + 1..n {
            if a[i][k] == zero { continue; }
            let m = a[i][k] / a[k][k];
            for j in k..n { a[i][j] = a[i][j] - m * a[k][j]; }
            let t = m * x[k];
            x[i] -= t;
        }
    }
    let mut det = sign; let mut inrange = true;
    for k in 0..n { det *= a[k][k]; let m = cabs(det); if !(m > 1e-140 && m < 1e140) { inrange = false; } }
    if singular { return (x, zero, true, false); }
    for i in (0..n).rev() {
        let mut s = x[i];
        for j in i + 1..n { s -= a[i][j] * x[j]; }
        x[i] = s / a[i][i];
    }
    (x, det, false, inrange)
}

fn same(a: f64, b: f64) -> bool { a == b || (a.is_nan() && b.is_nan()) }
fn csame(a: C, b: C) -> bool { same(a.real, b.real) && same(a.imag, b.imag) }
fn cfinite(a: C) -> bool { a.real.is_finite() && a.imag.is_finite() }

// own arithmetic: residual with fma-compensated products; returns normwise backward error
fn backward_error(a: &Vec<Vec<C>>, x: &[C], b: &[C]) -> f64 {
    let n = b.len();
    let mut rmax = 0.0f64; let mut anorm = 0.0f64; let mut xn = 0.0f64; let mut bn = 0.0f64;
    for i in 0..n {
        let mut re = -b[i].real; let mut im = -b[i].imag; let mut rowsum = 0.0;
        let mut cre = 0.0; let mut cim = 0.0;
        for j in 0..n {
            let (ar, ai, xr, xi) = (a[i][j].real, a[i][j].imag, x[j].real, x[j].imag);
            for (p, q, s) in [(ar, xr, 1.0), (ai, xi, -1.0)] {
                let t = p * q; let e = p.mul_add(q, -t);
                let s0 = re + s * t; let bb = s0 - re; let err = (re - (s0 - bb)) + (s * t - bb);
                re = s0; cre += err + s * e;
            }
            for (p, q) in [(ar, xi), (ai, xr)] {
                let t = p * q; let e = p.mul_add(q, -t);
                let s0 = im + t; let bb = s0 - im; let err = (im - (s0 - bb)) + (t - bb);
                im = s0; cim += err + e;
            }
            rowsum += cabs(a[i][j]);
        }
        let r = (re + cre).hypot(im + cim);
        if r > rmax { rmax = r; }
        if rowsum > anorm { anorm = rowsum; }
        if cabs(b[i]) > bn { bn = cabs(b[i]); }
    }
    for j in 0..n { if cabs(x[j]) > xn { xn = cabs(x[j]); } }
    if rmax == 0.0 { 0.0 } else { rmax / (anorm * xn + bn) }
}

#[test]
fn sweep_cplx() {
    let mut r = Rng(777);
    let mut worst = 0.0f64; let mut worst_case = String::new();
    let mut n_bitdiff = 0usize; let mut n_cases = 0usize; let mut n_sing = 0usize;
    let mut first_bitdiff = String::new();
    let mut n_detdiff = 0usize; let mut first_detdiff = String::new();
    let mut n_muldiff = 0usize; let mut n_nonfinite = 0usize;
    let pads = [C::new(0.0, 0.0), C::new(1.0, -2.0), C::new(1e300, 1e300), C::new(f64::NAN, 0.0), C::new(0.0, f64::INFINITY), C::new(-0.3, 0.55)];
    let reps: usize = std::env::var("REPS").ok().and_then(|s| s.parse().ok()).unwrap_or(40);
    for rep in 0..reps {
        for n in 1..=10usize { for m1 in 0..n { for m2 in 0..n {
            let class = r.below(10) as u32;
            let bclass = if r.below(2) == 0 { class } else { r.below(10) as u32 };
            let zero = C::new(0.0, 0.0);
            let mut a = vec![vec![zero; n]; n];
            for i in 0..n { for j in 0..n { if in_band(i, j, m1, m2) { a[i][j] = cv(&mut r, class); } } }
            match r.below(6) {
                0 => for i in 0..n { a[i][i] = C::new(-a[i][i].real.abs(), a[i][i].imag); },
                1 => if m1 > 0 { for i in 0..n { a[i][i] = zero; } for i in 1..n { if a[i][i-1] == zero { a[i][i-1] = C::new(-0.3, 0.55); } } },
                2 => if m1 > 0 { let t = [1e-7, 1e-40, 1e-120, 1e-300][r.below(4) as usize]; for i in 1..n { a[i][i-1] = C::new(t, 0.0); } },
                _ => {}
            }
            let mut b = vec![zero; n];
            for i in 0..n { b[i] = cv(&mut r, bclass); }
            let pad = pads[r.below(pads.len() as u64) as usize];
            let mut bm = Banded::<C>::new(n, m1, m2, pad);
            for i in 0..n { for j in 0..n { if in_band(i, j, m1, m2) { bm[(i, j)] = a[i][j]; } } }
            for i in 0..n { for j in 0..n { if in_band(i, j, m1, m2) { assert!(csame(bm[(i, j)], a[i][j])); } } }
            let v = Vector::create(b.clone());
            let y = &bm * &v;
            for i in 0..n {
                let mut s = zero;
                for j in 0..n { if in_band(i, j, m1, m2) { s += a[i][j] * b[j]; } }
                if !csame(s, y[i]) { n_muldiff += 1; if n_muldiff < 5 { println!("MULDIFF n={} m1={} m2={} i={} ref={:?} got={:?}", n, m1, m2, i, s, y[i]); } }
            }
            let (xr, dr, sing, inrange) = dense(&a, &b);
            let d = bm.det();
            n_cases += 1;
            if sing { n_sing += 1;
                if !(d == zero) && ![2u32, 3, 7, 8].contains(&class) { n_detdiff += 1; if first_detdiff.is_empty() { first_detdiff = format!("SINGULAR n={} m1={} m2={} det={:?} a={:?}", n, m1, m2, d, a); } }
                continue; }
            if inrange && !csame(d, dr) {
                n_detdiff += 1;
                if first_detdiff.is_empty() { first_detdiff = format!("n={} m1={} m2={} det banded={:?} dense={:?} a={:?}", n, m1, m2, d, dr, a); }
            }
            let x = bm.solve(&v);
            let fin = x.vec.iter().all(|t| cfinite(*t)); let finr = xr.iter().all(|t| cfinite(*t));
            let mut diff = false;
            for i in 0..n { if !csame(x[i], xr[i]) { diff = true; } }
            if diff && fin && finr { n_bitdiff += 1; if first_bitdiff.is_empty() { first_bitdiff = format!("rep={} n={} m1={} m2={} class={} a={:?} b={:?}\n x={:?}\n xr={:?}", rep, n, m1, m2, class, a, b, x.vec, xr); } }
            if fin {
                let nb = backward_error(&a, &x.vec, &b);
                if nb > worst || nb.is_nan() { worst = nb; worst_case = format!("eta={:e} rep={} n={} m1={} m2={} class={} a={:?} b={:?} x={:?}", nb, rep, n, m1, m2, class, a, b, x.vec); }
            } else { n_nonfinite += 1;
                if finr { println!("NONFINITE banded but finite dense: n={} m1={} m2={} a={:?} b={:?}", n, m1, m2, a, b); }
            }
        }}}
    }
    println!("cases {} singular {} bitdiff {} detdiff {} muldiff {} nonfinite {}", n_cases, n_sing, n_bitdiff, n_detdiff, n_muldiff, n_nonfinite);
    println!("first bitdiff: {}", first_bitdiff);
    println!("first detdiff: {}", first_detdiff);
    println!("worst normwise eta: {}", worst_case);
    assert!(n_bitdiff == 0 && n_detdiff == 0 && n_muldiff == 0);
}
