// Banded::resize with a different number of sub-diagonals (m1) moves every stored entry onto
// another diagonal: the compact storage is copied slot by slot, but the slot of entry (i,j) is
// column m1 + j - i, which depends on m1. A dense matrix resized to the same shape keeps (i,j).
use ohsl::{Banded, Matrix, Vector};

#[test]
fn resize_with_more_subdiagonals_keeps_the_entries() {
    // smallest case: diag(1,2), no off-diagonals, then allow one sub-diagonal
    let mut b = Banded::<f64>::new( 2, 0, 0, 0.0 );
    b[(0,0)] = 1.0;
    b[(1,1)] = 2.0;
    let mut d = Matrix::<f64>::new( 2, 2, 0.0 );
    d[(0,0)] = 1.0;
    d[(1,1)] = 2.0;

    b.resize( 2, 1, 0 );       // same size, one more band below the diagonal
    d.resize( 2, 2 );          // the dense counterpart is unchanged

    // element access
    assert_eq!( b[(0,0)], d[(0,0)], "entry (0,0) after resize" );
    assert_eq!( b[(1,1)], d[(1,1)], "entry (1,1) after resize" );
    assert_eq!( b[(1,0)], d[(1,0)], "new sub-diagonal entry (1,0) must be zero" );

    // product, determinant, solve
    let v = Vector::create( vec![ 1.0, 1.0 ] );
    assert_eq!( ( &b * &v ).vec, ( &d * &v ).vec, "product after resize" );
    assert_eq!( b.det(), 2.0, "determinant after resize" );
    assert_eq!( b.solve( &v ).vec, vec![ 1.0, 0.5 ], "solve after resize" );
}

#[test]
fn resize_with_fewer_subdiagonals_keeps_the_remaining_entries() {
    // tridiagonal 4 x 4 with entries 10 (i+1) + (j+1); drop the sub-diagonal
    let n = 4;
    let mut b = Banded::<f64>::new( n, 1, 1, 0.0 );
    for i in 0..n { for j in 0..n { if j <= i + 1 && i <= j + 1 {
        b[(i,j)] = ( 10 * ( i + 1 ) + j + 1 ) as f64;
    } } }
    b.resize( n, 0, 1 );
    for i in 0..n { for j in i..n.min( i + 2 ) {
        assert_eq!( b[(i,j)], ( 10 * ( i + 1 ) + j + 1 ) as f64, "entry ({},{}) after resize", i, j );
    } }
}
