// C04 finding 2: Banded<Complex<f64>> fails on entries of modulus > ~1.3e154: |z| = sqrt(re^2+im^2)
// overflows to +inf for every pivot candidate (so no candidate ever "beats" the diagonal and the
// exchange by magnitude is lost) and the quotient by the pivot becomes inf/inf = NaN.
// All inputs, determinants and solutions below are comfortably representable; Banded<f64> with the
// same real data is correct (control assertions).
use ohsl::{Banded, Complex, Vector};

type C = Complex<f64>;
fn c(re: f64, im: f64) -> C { C::new(re, im) }

#[test]
fn det_2x2_large_entries() {
    // A = [[1e160, 1], [1e170, 1]],  det = 1e160 - 1e170
    let want = 1e160 - 1e170;
    let mut r = Banded::<f64>::new(2, 1, 1, 0.0);
    r[(0, 0)] = 1e160; r[(0, 1)] = 1.0; r[(1, 0)] = 1e170; r[(1, 1)] = 1.0;
    assert!((r.det() - want).abs() <= 1e-12 * want.abs()); // control: f64
    let mut a = Banded::<C>::new(2, 1, 1, c(0.0, 0.0));
    a[(0, 0)] = c(1e160, 0.0); a[(0, 1)] = c(1.0, 0.0); a[(1, 0)] = c(1e170, 0.0); a[(1, 1)] = c(1.0, 0.0);
    let d = a.det();
    assert!((d.real - want).abs() <= 1e-12 * want.abs() && d.imag.abs() <= 1e-12 * want.abs(),
        "det = {:?}, expected ({:e}, 0)", d, want);
}

#[test]
fn solve_1x1_large_entry() {
    // [1e160] x = [1e160]  ->  x = 1
    let a = Banded::<C>::new(1, 0, 0, c(1e160, 0.0));
    let x = a.solve(&Vector::create(vec![c(1e160, 0.0)]));
    assert!((x[0].real - 1.0).abs() <= 1e-14 && x[0].imag.abs() <= 1e-14, "x = {:?}, expected (1, 0)", x[0]);
}

#[test]
fn solve_scaled_well_conditioned_system() {
    // A = s * [[2+i, 1], [1-i, 3i]], x = (1, i), b = A x;  s = 1e155
    let s = 1e155;
    let a = [[c(2.0 * s, s), c(s, 0.0)], [c(s, -s), c(0.0, 3.0 * s)]];
    let x = [c(1.0, 0.0), c(0.0, 1.0)];
    let mut m = Banded::<C>::new(2, 1, 1, c(0.0, 0.0));
    for i in 0..2 { for j in 0..2 { m[(i, j)] = a[i][j]; } }
    let b: Vec<C> = (0..2).map(|i| a[i][0] * x[0] + a[i][1] * x[1]).collect();
    assert!(b.iter().all(|v| v.real.is_finite() && v.imag.is_finite()));
    let y = m.solve(&Vector::create(b));
    for i in 0..2 {
        assert!((y[i].real - x[i].real).abs() <= 1e-13 && (y[i].imag - x[i].imag).abs() <= 1e-13,
            "x[{}] = {:?}, expected {:?}", i, y[i], x[i]);
    }
}
