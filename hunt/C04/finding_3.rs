// C04 finding 3 (borderline - resize is not among the operations the property enumerates):
// growing a banded matrix with resize() turns the old bottom-right padding slots into real in-band
// entries of the larger matrix WITHOUT clearing them, so a padding value shows up in element
// access, in the matrix-vector product and in det/solve.  The dense matrix appends zeros.
use ohsl::{Banded, Matrix, Vector};

#[test]
fn resize_must_not_leak_padding_into_the_band() {
    // dense control: 2x2 matrix of fives, grown to 3x3 -> the new row and column are zero
    let mut d = Matrix::<f64>::new(2, 2, 5.0);
    d.resize(3, 3);
    assert_eq!(d[(1, 2)], 0.0);
    assert_eq!(d[(2, 2)], 0.0);

    // banded: 2x2 tridiagonal-storage matrix of fives (padding slots hold the fill value 5 too)
    let mut b = Banded::<f64>::new(2, 1, 1, 5.0);
    b.resize(3, 1, 1);
    assert_eq!(b[(0, 0)], 5.0);
    assert_eq!(b[(2, 2)], 0.0);
    // entry (1,2) did not exist before the resize; the dense matrix has 0 there
    assert_eq!(b[(1, 2)], 0.0, "old padding slot leaked into entry (1,2)");
    let y = &b * &Vector::create(vec![0.0, 0.0, 1.0]);
    assert_eq!((y[0], y[1], y[2]), (0.0, 0.0, 0.0), "product with e_3 must be the (zero) third column");
}
