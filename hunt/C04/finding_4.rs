// C04 finding 4 (borderline - equality is not among the operations the property enumerates):
// `==` on Banded compares the padding slots, so two banded matrices that represent the same matrix
// (identical size, bandwidths and in-band entries; identical products, determinants, solutions)
// compare unequal.  Dense matrices with the same entries compare equal.
use ohsl::{Banded, Matrix};

#[test]
fn equality_must_not_depend_on_padding() {
    let (n, m1, m2) = (3usize, 1usize, 1usize);
    let mut a = Banded::<f64>::new(n, m1, m2, 0.0);  // padding slots hold 0
    let mut b = Banded::<f64>::new(n, m1, m2, 9.0);  // padding slots hold 9
    let mut da = Matrix::<f64>::new(n, n, 0.0);
    let mut db = Matrix::<f64>::new(n, n, 0.0);
    for i in 0..n { for j in 0..n {
        if j <= i + m2 && i <= j + m1 {
            let v = (1 + i * n + j) as f64;
            a[(i, j)] = v; b[(i, j)] = v; da[(i, j)] = v; db[(i, j)] = v;
        }
    } }
    assert!(da == db);                 // dense control
    assert_eq!(a.det(), b.det());      // same matrix in every observable respect
    for i in 0..n { for j in 0..n { if j <= i + m2 && i <= j + m1 { assert_eq!(a[(i, j)], b[(i, j)]); } } }
    assert!(a == b, "banded matrices with identical entries compare unequal (padding 0 vs 9)");
}
