// C02: the determinant of a nonsingular matrix whose entries and whose determinant are
// all far inside the f64 range comes back as inf, 0 or with only 4 correct digits,
// because the pivots are multiplied up in their stored order without any scaling.
use ohsl::{Matrix, Complex};

fn diag(v: &[f64]) -> Matrix<f64> {
    let n = v.len();
    let mut m = Matrix::<f64>::new(n, n, 0.0);
    for i in 0..n { m[(i, i)] = v[i]; }
    m
}

fn close(got: f64, want: f64) -> bool { (got - want).abs() <= 1e-12 * want.abs() }

#[test]
fn order3_det_overflows_in_between() {
    // det = 1e180 * 1e180 * 1e-180 = 1e180
    let m = diag(&[1e180, 1e180, 1e-180]);
    let want = (1e180 * 1e-180) * 1e180;
    let got = m.determinant();
    assert!(close(got, want), "det = {:e}, exact {:e}", got, want);
}

#[test]
fn order3_det_of_a_nonsingular_matrix_is_zero() {
    // det = 1e-180 ( the inverse diag( 1e180, 1e180, 1e-180 ) is returned correctly )
    let m = diag(&[1e-180, 1e-180, 1e180]);
    let want = (1e-180 * 1e180) * 1e-180;
    let got = m.determinant();
    assert!(close(got, want), "det = {:e}, exact {:e}", got, want);
}

#[test]
fn order8_entries_1e80_det_one() {
    // entries 1e+-80 only, det = 1; the same rows in another order give 1 exactly
    let big_first = diag(&[1e80, 1e80, 1e80, 1e80, 1e-80, 1e-80, 1e-80, 1e-80]);
    let small_first = diag(&[1e-80, 1e-80, 1e-80, 1e-80, 1e80, 1e80, 1e80, 1e80]);
    let mixed = diag(&[1e-80, 1e80, 1e-80, 1e80, 1e-80, 1e80, 1e-80, 1e80]);
    let want = (1e80 * 1e-80) * (1e80 * 1e-80) * (1e80 * 1e-80) * (1e80 * 1e-80);
    assert!(close(mixed.determinant(), want));
    let got = small_first.determinant();      // 0.99998886... ( 1e-320 is subnormal )
    assert!(close(got, want), "small first: det = {:e}, exact {:e}", got, want);
    let got = big_first.determinant();        // inf
    assert!(close(got, want), "big first: det = {:e}, exact {:e}", got, want);
}

#[test]
fn complex_order3() {
    // diag( 1e-180 i, 1e-180, 1e180 i ): det = i * i * 1e-180 = -1e-180
    let mut c = Matrix::<Complex<f64>>::new(3, 3, Complex::new(0.0, 0.0));
    c[(0, 0)] = Complex::new(0.0, 1e-180);
    c[(1, 1)] = Complex::new(1e-180, 0.0);
    c[(2, 2)] = Complex::new(0.0, 1e180);
    let got = c.determinant();
    let want = -(1e-180 * 1e180) * 1e-180;
    assert!(close(got.real, want) && got.imag.abs() <= 1e-12 * want.abs(), "det = {:?}, exact ( {:e}, 0 )", got, want);
}
