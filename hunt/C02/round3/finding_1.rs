// C02 hunt 3, finding 1 (edge of range): the inverse of a 2 x 2 Complex<f64> matrix whose entries are
// purely real and equal to 1e308 is all NaN, although the same matrix over f64 is inverted correctly.
// All entries have the SAME magnitude (no wide span inside the matrix), the matrix is well conditioned
// (cond_inf = 4) and its true inverse, entries +-1e-308, is representable to about 2e-16.
use ohsl::matrix::Matrix;
use ohsl::complex::Complex;

fn cmul(a: (f64, f64), b: (f64, f64)) -> (f64, f64) { (a.0 * b.0 - a.1 * b.1, a.0 * b.1 + a.1 * b.0) }

#[test]
fn complex_inverse_of_entries_1e308_matches_identity() {
    let v = 1.0e308_f64;                       // finite: f64::MAX is 1.797e308
    let a = [[(v, 0.0), (0.0, 0.0)], [(v, 0.0), (v, 0.0)]];

    // the same matrix over f64 is fine today
    let mut r = Matrix::<f64>::new(2, 2, 0.0);
    for i in 0..2 { for j in 0..2 { r[(i, j)] = a[i][j].0; } }
    let y = r.inverse();
    for i in 0..2 { for j in 0..2 {
        let mut s = 0.0; for k in 0..2 { s += a[i][k].0 * y[(k, j)]; }
        let e = if i == j { 1.0 } else { 0.0 };
        assert!((s - e).abs() < 1e-12, "f64: (A X)[{},{}] = {}", i, j, s);
    } }

    // over Complex<f64>
    let mut m = Matrix::<Complex<f64>>::new(2, 2, Complex::new(0.0, 0.0));
    for i in 0..2 { for j in 0..2 { m[(i, j)] = Complex::new(a[i][j].0, a[i][j].1); } }
    let before = m.clone();
    let x = m.inverse();
    assert!(m == before, "inverse modified the matrix");
    for i in 0..2 { for j in 0..2 {
        assert!(x[(i, j)].real.is_finite() && x[(i, j)].imag.is_finite(),
            "inverse[{},{}] = ({:e}, {:e}) is not finite (true value has modulus 0 or 1e-308)", i, j, x[(i, j)].real, x[(i, j)].imag);
    } }
    for i in 0..2 { for j in 0..2 {
        let (mut r, mut l) = ((0.0, 0.0), (0.0, 0.0));
        for k in 0..2 {
            let p = cmul(a[i][k], (x[(k, j)].real, x[(k, j)].imag)); r = (r.0 + p.0, r.1 + p.1);
            let q = cmul((x[(i, k)].real, x[(i, k)].imag), a[k][j]); l = (l.0 + q.0, l.1 + q.1);
        }
        let e = if i == j { 1.0 } else { 0.0 };
        assert!((r.0 - e).abs() < 1e-12 && r.1.abs() < 1e-12, "(A X)[{},{}] = {:?}", i, j, r);
        assert!((l.0 - e).abs() < 1e-12 && l.1.abs() < 1e-12, "(X A)[{},{}] = {:?}", i, j, l);
    } }
}
