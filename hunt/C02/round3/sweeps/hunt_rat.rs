// exact rational sweep
use ohsl::matrix::Matrix;
use ohsl::traits::{Number, Signed, Zero, One};
use std::ops::*;
use std::cmp::Ordering;

fn gcd(a: i128, b: i128) -> i128 { let (mut a, mut b) = (a.abs(), b.abs()); while b != 0 { let t = a % b; a = b; b = t; } a }

#[derive(Clone, Copy, Debug)]
struct Q { n: i128, d: i128 }
impl Q {
    fn new(n: i128, d: i128) -> Q {
        assert!(d != 0, "division by zero rational");
        let g = gcd(n, d);
        let (mut n, mut d) = if g == 0 { (0, 1) } else { (n / g, d / g) };
        if d < 0 { n = -n; d = -d; }
        Q { n, d }
    }
    fn int(n: i128) -> Q { Q { n, d: 1 } }
}
impl PartialEq for Q { fn eq(&self, o: &Q) -> bool { self.n == o.n && self.d == o.d } }
impl PartialOrd for Q { fn partial_cmp(&self, o: &Q) -> Option<Ordering> { (self.n.checked_mul(o.d).unwrap()).partial_cmp(&(o.n.checked_mul(self.d).unwrap())) } }
impl Add for Q { type Output = Q; fn add(self, o: Q) -> Q { Q::new(self.n.checked_mul(o.d).unwrap().checked_add(o.n.checked_mul(self.d).unwrap()).unwrap(), self.d.checked_mul(o.d).unwrap()) } }
impl Sub for Q { type Output = Q; fn sub(self, o: Q) -> Q { self + Q { n: -o.n, d: o.d } } }
impl Mul for Q { type Output = Q; fn mul(self, o: Q) -> Q { let g1 = gcd(self.n, o.d).max(1); let g2 = gcd(o.n, self.d).max(1); Q::new((self.n / g1).checked_mul(o.n / g2).unwrap(), (self.d / g2).checked_mul(o.d / g1).unwrap()) } }
impl Div for Q { type Output = Q; fn div(self, o: Q) -> Q { assert!(o.n != 0, "rational division by zero"); self * Q::new(o.d, o.n) } }
impl Neg for Q { type Output = Q; fn neg(self) -> Q { Q { n: -self.n, d: self.d } } }
impl AddAssign for Q { fn add_assign(&mut self, o: Q) { *self = *self + o; } }
impl SubAssign for Q { fn sub_assign(&mut self, o: Q) { *self = *self - o; } }
impl MulAssign for Q { fn mul_assign(&mut self, o: Q) { *self = *self * o; } }
impl DivAssign for Q { fn div_assign(&mut self, o: Q) { *self = *self / o; } }
impl Zero for Q { fn zero() -> Q { Q::int(0) } }
impl One for Q { fn one() -> Q { Q::int(1) } }
impl Number for Q {}
impl Signed for Q { fn abs(&self) -> Q { Q { n: self.n.abs(), d: self.d } } }

struct Rng(u64);
impl Rng {
    fn next(&mut self) -> u64 { self.0 ^= self.0 << 13; self.0 ^= self.0 >> 7; self.0 ^= self.0 << 17; self.0 }
    fn below(&mut self, n: u64) -> u64 { (self.next() >> 11) % n }
    fn range(&mut self, lo: i64, hi: i64) -> i64 { lo + self.below((hi - lo + 1) as u64) as i64 }
}

// fraction-free reference: cofactor expansion over Q via Leibniz recursion (n <= 8), independent of pivoting
fn det_ref(a: &Vec<Vec<Q>>) -> Q {
    let n = a.len();
    if n == 1 { return a[0][0]; }
    let mut s = Q::int(0);
    for j in 0..n {
        if a[0][j].n == 0 { continue; }
        let minor: Vec<Vec<Q>> = (1..n).map(|i| (0..n).filter(|&k| k != j).map(|k| a[i][k]).collect()).collect();
        let t = a[0][j] * det_ref(&minor);
        if j % 2 == 0 { s = s + t } else { s = s - t }
    }
    s
}

fn to_matrix(a: &Vec<Vec<Q>>) -> Matrix<Q> {
    let n = a.len();
    let mut m = Matrix::<Q>::new(n, n, Q::int(0));
    for i in 0..n { for j in 0..n { m[(i, j)] = a[i][j]; } }
    m
}

fn check(a: &Vec<Vec<Q>>, tag: &str) -> bool {
    let n = a.len();
    let m = to_matrix(a);
    let before = m.clone();
    let d = m.determinant();
    assert!(m == before, "{}: determinant modified matrix", tag);
    let dr = det_ref(a);
    if d != dr { println!("{}: DET MISMATCH crate {:?} ref {:?} for {:?}", tag, d, dr, a); return false; }
    if dr.n != 0 {
        let x = m.inverse();
        assert!(m == before, "{}: inverse modified matrix", tag);
        for i in 0..n { for j in 0..n {
            let mut r = Q::int(0); let mut l = Q::int(0);
            for k in 0..n { r = r + a[i][k] * x[(k, j)]; l = l + x[(i, k)] * a[k][j]; }
            let e = if i == j { Q::int(1) } else { Q::int(0) };
            if r != e || l != e { println!("{}: INVERSE MISMATCH at ({},{}) r {:?} l {:?} for {:?}", tag, i, j, r, l, a); return false; }
        } }
    }
    true
}

#[test]
fn rational_sweep() {
    let mut rng = Rng(0x9E3779B97F4A7C15);
    let mut bad = 0; let mut total = 0; let mut singular = 0;
    for n in 1..=8usize {
        let reps = if n <= 5 { 3000 } else if n <= 7 { 600 } else { 150 };
        for rep in 0..reps {
            let kind = rep % 8;
            let mut a = vec![vec![Q::int(0); n]; n];
            match kind {
                0 => { for i in 0..n { for j in 0..n { a[i][j] = Q::int(rng.range(-3, 3) as i128); } } }
                1 => { for i in 0..n { for j in 0..n { a[i][j] = Q::new(rng.range(-4, 4) as i128, rng.range(1, 4) as i128); } } }
                2 => { // sparse
                    for i in 0..n { for j in 0..n { if rng.below(3) == 0 { a[i][j] = Q::new(rng.range(-5, 5) as i128, rng.range(1, 3) as i128); } } } }
                3 => { // permutation-like with scaling
                    let mut p: Vec<usize> = (0..n).collect();
                    for i in (1..n).rev() { let j = rng.below(i as u64 + 1) as usize; p.swap(i, j); }
                    for i in 0..n { let mut v = rng.range(-5, 5); if v == 0 { v = 7; } a[i][p[i]] = Q::new(v as i128, rng.range(1, 3) as i128); }
                    if rng.below(2) == 0 && n > 1 { let i = rng.below(n as u64) as usize; let j = rng.below(n as u64) as usize; a[i][j] = Q::new(rng.range(-2, 2) as i128, 3); }
                }
                4 => { // triangular (upper or lower), maybe zero on diag
                    let up = rng.below(2) == 0;
                    for i in 0..n { for j in 0..n { if (up && j >= i) || (!up && j <= i) { a[i][j] = Q::int(rng.range(-3, 3) as i128); } } } }
                5 => { // rank deficient: last row combination of others
                    for i in 0..n { for j in 0..n { a[i][j] = Q::new(rng.range(-3, 3) as i128, rng.range(1, 2) as i128); } }
                    if n > 1 { let r = rng.below(n as u64) as usize; for j in 0..n { let mut s = Q::int(0); for i in 0..n { if i != r { s = s + a[i][j] * Q::int((i as i128 % 3) - 1); } } a[r][j] = s; } }
                }
                6 => { // zero row / column
                    for i in 0..n { for j in 0..n { a[i][j] = Q::int(rng.range(-3, 3) as i128); } }
                    let r = rng.below(n as u64) as usize;
                    if rng.below(2) == 0 { for j in 0..n { a[r][j] = Q::int(0); } } else { for i in 0..n { a[i][r] = Q::int(0); } }
                }
                _ => { // anti-diagonal / cyclic shift plus small entries => many exchanges
                    for i in 0..n { for j in 0..n { a[i][j] = Q::new(rng.range(-1, 1) as i128, 5); } }
                    let sh = rng.below(n as u64) as usize;
                    for i in 0..n { a[i][(i + sh) % n] = Q::int(rng.range(2, 4) as i128 * if rng.below(2) == 0 { 1 } else { -1 }); }
                }
            }
            total += 1;
            if det_ref(&a).n == 0 { singular += 1; }
            if !check(&a, &format!("n{} kind{} rep{}", n, kind, rep)) { bad += 1; }
        }
    }
    println!("total {} singular {} bad {}", total, singular, bad);
    assert_eq!(bad, 0);
}
