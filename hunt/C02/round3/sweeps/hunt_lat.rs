mod hsup;
use hsup::*;
use ohsl::matrix::Matrix;
use ohsl::complex::Complex;
type A = Vec<Vec<(f64, f64)>>;
fn run_cplx(a: &A) -> ((f64, f64), A) {
    let n = a.len();
    let mut m = Matrix::<Complex<f64>>::new(n, n, Complex::new(0.0, 0.0));
    for i in 0..n { for j in 0..n { m[(i, j)] = Complex::new(a[i][j].0, a[i][j].1); } }
    let d = m.determinant();
    let x = m.inverse();
    ((d.real, d.imag), (0..n).map(|i| (0..n).map(|j| (x[(i, j)].real, x[(i, j)].imag)).collect()).collect())
}
fn fmt(a: &A) -> String { let mut s = String::new(); for r in a { s += "  ["; for e in r { s += &format!("({:e},{:e}) ", e.0, e.1); } s += "]\n"; } s }

#[test]
fn lattice_1x1() {
    let mags = [0.0, 1e-300, 1e-200, 1e-160, 1e-154, 1e-150, 1e-135, 1e-120, 1e-40, 1e-7, 0.7, 1.0, 45.24, 1e7, 1e40, 1e120, 1e135, 1e150, 1e154, 1e160, 1e200, 1e300];
    let mut bad = 0;
    for &p in &mags { for &q in &mags { for sp in [1.0, -1.0] { for sq in [1.0, -1.0] { for f in [1.0, 0.7, 1.3] {
        let z = (sp * p * f, sq * q);
        if z.0 == 0.0 && z.1 == 0.0 { continue; }
        let a: A = vec![vec![z]];
        let (d, x) = run_cplx(&a);
        assert!(d == z, "1x1 det {:?} for {:?}", d, z);
        let r = ZD::one() / ZD::new(z.0, z.1);
        let (rr, ri) = (r.re.v(), r.im.v());
        if !(rr.is_finite() && ri.is_finite()) { continue; }
        let err = (x[0][0].0 - rr).hypot(x[0][0].1 - ri) / rr.hypot(ri);
        if !(err < 4.0 * EPS) { bad += 1; if bad < 10 { println!("1x1 inverse of {:?}: crate {:?} ref ({:e},{:e}) err {:e}", z, x[0][0], rr, ri, err); } }
    } } } } }
    println!("1x1 bad {}", bad);
    assert_eq!(bad, 0);
}

#[test]
fn lattice_2x2() {
    // each complex entry from a small lattice; judged only when the spread of nonzero magnitudes is <= 1e250 and the matrix is well conditioned after optimal scaling? No: normwise condition <= 1e10
    let vals: Vec<(f64, f64)> = {
        let mut v = vec![(0.0, 0.0)];
        for &m in &[1e-150f64, 1e-120, 1e-40, 1e-7, 1.0, 1e7, 1e40, 1e120, 1e150] {
            v.push((0.7 * m, 0.0)); v.push((0.0, -0.3 * m)); v.push((-0.3 * m, 0.55 * m)); v.push((m, 1e-7 * m)); v.push((1e-40 * m, -m));
        }
        v
    };
    println!("lattice size {}", vals.len());
    let mut worst: Vec<(f64, String)> = Vec::new();
    let mut assessed = 0u64;
    let nv = vals.len();
    for i0 in 0..nv { for i1 in 0..nv { for i2 in 0..nv { for i3 in 0..nv {
        let a: A = vec![vec![vals[i0], vals[i1]], vec![vals[i2], vals[i3]]];
        let (d, x) = run_cplx(&a);
        let rep = assess_scaled(&a, &x);
        if rep.singular_ref { continue; }
        // determinant reference: ad - bc in dd with scaling by powers of two is awkward; judge when the products are in range
        let p1 = ZD::new(a[0][0].0, a[0][0].1) * ZD::new(a[1][1].0, a[1][1].1);
        let p2 = ZD::new(a[0][1].0, a[0][1].1) * ZD::new(a[1][0].0, a[1][0].1);
        let inr = |z: ZD| { let m = z.abs(); m == 0.0 || (m > 1e-280 && m < 1e280) };
        let mut dscore = 0.0;
        if inr(p1) && inr(p2) {
            let dr = p1 - p2;
            let derr = (ZD::new(d.0, d.1) - dr).abs();
            dscore = derr / (EPS * (p1.abs() + p2.abs()));
            if !(d.0.is_finite() && d.1.is_finite()) { dscore = 1e300; }
        }
        let mut score = dscore;
        if rep.cond <= 1e10 && rep.cond >= 0.99 {
            assessed += 1;
            let s = if rep.nonfinite { 1e300 } else { rep.fwd_norm.max(rep.right_norm).max(rep.left_norm / rep.cond.max(1.0)) };
            score = score.max(s);
        }
        if score > 8.0 {
            worst.push((score, format!("cond {:e} dscore {:e} fwd {:e} right {:e} left {:e} nonfinite {} det {:?}\n{}inv\n{}", rep.cond, dscore, rep.fwd_norm, rep.right_norm, rep.left_norm, rep.nonfinite, d, fmt(&a), fmt(&x))));
            if worst.len() > 2000 { worst.sort_by(|x, y| y.0.partial_cmp(&x.0).unwrap()); worst.truncate(10); }
        }
    } } } }
    worst.sort_by(|x, y| y.0.partial_cmp(&x.0).unwrap());
    println!("assessed(inverse) {} flagged {}", assessed, worst.len());
    worst.truncate(8);
    for (s, m) in &worst { println!("score {:e}: {}", s, m); }
}
