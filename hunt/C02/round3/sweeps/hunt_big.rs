mod hsup;
use hsup::*;
use ohsl::matrix::Matrix;
use ohsl::complex::Complex;
type A = Vec<Vec<(f64, f64)>>;
fn run_real(a: &A) -> A {
    let n = a.len();
    let mut m = Matrix::<f64>::new(n, n, 0.0);
    for i in 0..n { for j in 0..n { m[(i, j)] = a[i][j].0; } }
    let x = m.inverse();
    (0..n).map(|i| (0..n).map(|j| (x[(i, j)], 0.0)).collect()).collect()
}
fn run_cplx(a: &A) -> A {
    let n = a.len();
    let mut m = Matrix::<Complex<f64>>::new(n, n, Complex::new(0.0, 0.0));
    for i in 0..n { for j in 0..n { m[(i, j)] = Complex::new(a[i][j].0, a[i][j].1); } }
    let x = m.inverse();
    (0..n).map(|i| (0..n).map(|j| (x[(i, j)].real, x[(i, j)].imag)).collect()).collect()
}
fn fmt(a: &A) -> String { let mut s = String::new(); for r in a { s += "  ["; for e in r { s += &format!("({:e},{:e}) ", e.0, e.1); } s += "]\n"; } s }
const DEC: [f64; 14] = [0.7, -0.3, 0.55, 45.24, -0.001, 1.3, -2.9, 0.1, 3.3, -7.77, 0.013, 12.5, -0.61, 1.0];
#[test]
fn big_sweep() {
    let mut rng = Rng(0x1234567887654321);
    let iters: usize = std::env::var("HUNT_N").ok().and_then(|s| s.parse().ok()).unwrap_or(100000);
    let exps = [-300, -290, -200, -160, -150, -140, -136, -134, -120, 120, 134, 136, 140, 150, 153, 154, 155, 160, 200, 290, 300, 305];
    let mut worst: Vec<(f64, String)> = Vec::new();
    let mut assessed = 0;
    for it in 0..iters {
        let n = 1 + rng.below(8) as usize;
        let cplx = rng.below(4) != 0;
        let style = rng.below(2);
        let e = rng.pick(&exps);
        let s = 10f64.powi(e);
        let mut a: A = vec![vec![(0.0, 0.0); n]; n];
        let sparse = rng.below(3) == 0;
        for i in 0..n { for j in 0..n {
            if sparse && i != j && rng.below(2) == 0 { continue; }
            let mut v = |rng: &mut Rng| if style == 0 { rng.sym() } else { rng.pick(&DEC) };
            let (x, y) = if !cplx { (v(&mut rng), 0.0) } else { match rng.below(5) { 0 => (v(&mut rng), 0.0), 1 => (0.0, v(&mut rng)), _ => (v(&mut rng), v(&mut rng)) } };
            a[i][j] = (x * s, y * s);
        } }
        if a.iter().any(|r| r.iter().any(|e| !e.0.is_finite() || !e.1.is_finite())) { continue; }
        let x = if cplx { run_cplx(&a) } else { run_real(&a) };
        let rep = assess_scaled(&a, &x);
        if rep.singular_ref || rep.cond > 1e10 { continue; }
        assessed += 1;
        let score = if rep.nonfinite { 1e300 } else { rep.fwd_norm.max(rep.right_norm).max(rep.left_norm / rep.cond.max(1.0)) };
        if score > 3.0 {
            worst.push((score, format!("it{} n{} cplx{} e{} cond {:e} fwd {:e} right {:e} left {:e} nonfinite {}\n{}inv\n{}", it, n, cplx, e, rep.cond, rep.fwd_norm, rep.right_norm, rep.left_norm, rep.nonfinite, fmt(&a), fmt(&x))));
            worst.sort_by(|x, y| y.0.partial_cmp(&x.0).unwrap());
            worst.truncate(6);
        }
    }
    println!("assessed {}", assessed);
    for (s, m) in &worst { println!("score {:e}: {}", s, m); }
}
