#![allow(dead_code)]
// double-double complex reference linear algebra
use std::ops::*;

#[derive(Clone, Copy, Debug)]
pub struct DD { pub hi: f64, pub lo: f64 }
fn two_sum(a: f64, b: f64) -> (f64, f64) { let s = a + b; let bb = s - a; (s, (a - (s - bb)) + (b - bb)) }
fn quick(a: f64, b: f64) -> (f64, f64) { let s = a + b; (s, b - (s - a)) }
fn two_prod(a: f64, b: f64) -> (f64, f64) { let p = a * b; (p, a.mul_add(b, -p)) }
impl DD {
    pub fn f(x: f64) -> DD { DD { hi: x, lo: 0.0 } }
    pub fn abs(self) -> DD { if self.hi < 0.0 { -self } else { self } }
    pub fn v(self) -> f64 { self.hi + self.lo }
    pub fn sqrt(self) -> DD {
        if self.hi <= 0.0 { return DD::f(0.0); }
        let x = self.hi.sqrt();
        let r = self - DD::f(x) * DD::f(x);
        DD::f(x) + DD::f(r.hi / (2.0 * x))
    }
}
impl Neg for DD { type Output = DD; fn neg(self) -> DD { DD { hi: -self.hi, lo: -self.lo } } }
impl Add for DD { type Output = DD; fn add(self, o: DD) -> DD { let (s, e) = two_sum(self.hi, o.hi); let (t, f) = two_sum(self.lo, o.lo); let (s, e) = quick(s, e + t); let (s, e) = quick(s, e + f); DD { hi: s, lo: e } } }
impl Sub for DD { type Output = DD; fn sub(self, o: DD) -> DD { self + (-o) } }
impl Mul for DD { type Output = DD; fn mul(self, o: DD) -> DD { let (p, e) = two_prod(self.hi, o.hi); let e = e + (self.hi * o.lo + self.lo * o.hi); let (s, e) = quick(p, e); DD { hi: s, lo: e } } }
impl Div for DD { type Output = DD; fn div(self, o: DD) -> DD {
    let q1 = self.hi / o.hi; let r = self - o * DD::f(q1);
    let q2 = r.hi / o.hi; let r = r - o * DD::f(q2);
    let q3 = r.hi / o.hi;
    let (s, e) = quick(q1, q2); DD { hi: s, lo: e } + DD::f(q3) } }

#[derive(Clone, Copy, Debug)]
pub struct ZD { pub re: DD, pub im: DD }
impl ZD {
    pub fn new(re: f64, im: f64) -> ZD { ZD { re: DD::f(re), im: DD::f(im) } }
    pub fn zero() -> ZD { ZD::new(0.0, 0.0) }
    pub fn one() -> ZD { ZD::new(1.0, 0.0) }
    pub fn abs2(self) -> DD { self.re * self.re + self.im * self.im }
    pub fn abs(self) -> f64 { self.re.v().hypot(self.im.v()) }
    pub fn is_zero(self) -> bool { self.re.hi == 0.0 && self.im.hi == 0.0 }
}
impl Neg for ZD { type Output = ZD; fn neg(self) -> ZD { ZD { re: -self.re, im: -self.im } } }
impl Add for ZD { type Output = ZD; fn add(self, o: ZD) -> ZD { ZD { re: self.re + o.re, im: self.im + o.im } } }
impl Sub for ZD { type Output = ZD; fn sub(self, o: ZD) -> ZD { ZD { re: self.re - o.re, im: self.im - o.im } } }
impl Mul for ZD { type Output = ZD; fn mul(self, o: ZD) -> ZD { ZD { re: self.re * o.re - self.im * o.im, im: self.re * o.im + self.im * o.re } } }
impl Div for ZD { type Output = ZD; fn div(self, o: ZD) -> ZD {
    // scale the divisor by a power of two
    let m = o.re.hi.abs().max(o.im.hi.abs());
    let (_, e) = frexp(m);
    let s = pow2(-e);
    let c = DD { hi: o.re.hi * s, lo: o.re.lo * s }; let d = DD { hi: o.im.hi * s, lo: o.im.lo * s };
    let den = c * c + d * d;
    let re = (self.re * c + self.im * d) / den; let im = (self.im * c - self.re * d) / den;
    ZD { re: DD { hi: re.hi * s, lo: re.lo * s }, im: DD { hi: im.hi * s, lo: im.lo * s } } } }

pub fn frexp(x: f64) -> (f64, i32) {
    if x == 0.0 || !x.is_finite() { return (x, 0); }
    let bits = x.to_bits(); let e = ((bits >> 52) & 0x7ff) as i32;
    if e == 0 { let (m, e2) = frexp(x * 2f64.powi(64)); return (m, e2 - 64); }
    let m = f64::from_bits((bits & !(0x7ffu64 << 52)) | (1022u64 << 52));
    (m, e - 1022)
}
pub fn pow2(e: i32) -> f64 { if e > 1023 { f64::INFINITY } else if e < -1074 { 0.0 } else if e >= -1022 { f64::from_bits(((e + 1023) as u64) << 52) } else { f64::from_bits(1u64 << (e + 1074)) } }

pub type M = Vec<Vec<ZD>>;

/// determinant (complete pivoting in dd) and inverse (Gauss-Jordan on [A|I], complete pivoting); returns (det, Some(inv)) or (det, None) if a pivot is exactly zero
pub fn ref_det_inv(a: &M) -> (ZD, Option<M>) {
    let n = a.len();
    let mut w: M = a.clone();
    let mut r: M = (0..n).map(|i| (0..n).map(|j| if i == j { ZD::one() } else { ZD::zero() }).collect()).collect();
    let mut colperm: Vec<usize> = (0..n).collect();
    let mut det = ZD::one();
    let mut singular = false;
    for k in 0..n {
        // complete pivot
        let (mut pi, mut pj, mut pm) = (k, k, -1.0);
        for i in k..n { for j in k..n { let m = w[i][j].abs(); if m > pm { pm = m; pi = i; pj = j; } } }
        if pm == 0.0 { det = ZD::zero(); singular = true; break; }
        if pi != k { w.swap(pi, k); r.swap(pi, k); det = -det; }
        if pj != k { for i in 0..n { let t = w[i][k]; w[i][k] = w[i][pj]; w[i][pj] = t; } colperm.swap(k, pj); det = -det; }
        let p = w[k][k];
        det = det * p;
        for i in 0..n { if i != k {
            let m = w[i][k] / p;
            if m.is_zero() { continue; }
            for j in 0..n { let t = w[k][j]; w[i][j] = w[i][j] - m * t; }
            for j in 0..n { let t = r[k][j]; r[i][j] = r[i][j] - m * t; }
            w[i][k] = ZD::zero();
        } }
    }
    if singular { return (det, None); }
    // now w is diagonal (in permuted columns): w[k][k] * y_k = r[k], x[colperm[k]] = y_k
    let mut inv: M = vec![vec![ZD::zero(); n]; n];
    for k in 0..n { for j in 0..n { inv[colperm[k]][j] = r[k][j] / w[k][k]; } }
    (det, Some(inv))
}

pub struct Rng(pub u64);
impl Rng {
    pub fn next(&mut self) -> u64 { self.0 ^= self.0 << 13; self.0 ^= self.0 >> 7; self.0 ^= self.0 << 17; self.0.wrapping_mul(0x2545F4914F6CDD1D) }
    pub fn below(&mut self, n: u64) -> u64 { (self.next() >> 11) % n }
    pub fn unit(&mut self) -> f64 { (self.next() >> 11) as f64 / (1u64 << 53) as f64 }
    pub fn sym(&mut self) -> f64 { 2.0 * self.unit() - 1.0 }
    pub fn pick<T: Copy>(&mut self, v: &[T]) -> T { v[self.below(v.len() as u64) as usize] }
}

pub const EPS: f64 = 2.220446049250313e-16;

pub struct Report { pub det_ratio: f64, pub det_hadamard_ratio: f64, pub fwd_norm: f64, pub right_norm: f64, pub left_norm: f64, pub cond: f64, pub nonfinite: bool, pub singular_ref: bool }

/// a: the matrix as (re,im) f64 pairs; det, inv: crate results
pub fn assess(a: &Vec<Vec<(f64, f64)>>, det: (f64, f64), inv: Option<&Vec<Vec<(f64, f64)>>>) -> Report {
    let n = a.len();
    let az: M = a.iter().map(|r| r.iter().map(|&(x, y)| ZD::new(x, y)).collect()).collect();
    let (dref, iref) = ref_det_inv(&az);
    let mut had = 1.0f64;
    for i in 0..n { let mut s = 0.0f64; for j in 0..n { s = s.hypot(az[i][j].abs()); } had *= s; }
    let derr = (ZD::new(det.0, det.1) - dref).abs();
    let mut rep = Report { det_ratio: 0.0, det_hadamard_ratio: derr / (EPS * had), fwd_norm: 0.0, right_norm: 0.0, left_norm: 0.0, cond: f64::INFINITY, nonfinite: !(det.0.is_finite() && det.1.is_finite()), singular_ref: iref.is_none() };
    if had == 0.0 { rep.det_hadamard_ratio = if derr == 0.0 { 0.0 } else { f64::INFINITY }; }
    if let Some(ir) = &iref {
        // sensitivity sum |a_ij| |det| |inv_ji|
        let mut s = 0.0; for i in 0..n { for j in 0..n { s += az[i][j].abs() * ir[j][i].abs(); } }
        let sens = s * dref.abs();
        rep.det_ratio = derr / (EPS * sens); let _ = sens;
        let na = (0..n).map(|i| (0..n).map(|j| az[i][j].abs()).sum::<f64>()).fold(0.0, f64::max);
        let nx = (0..n).map(|i| (0..n).map(|j| ir[i][j].abs()).sum::<f64>()).fold(0.0, f64::max);
        rep.cond = na * nx; rep.det_ratio = derr / (EPS * dref.abs() * rep.cond);
        if let Some(x) = inv {
            let xz: M = x.iter().map(|r| r.iter().map(|&(p, q)| ZD::new(p, q)).collect()).collect();
            for i in 0..n { for j in 0..n { if !(x[i][j].0.is_finite() && x[i][j].1.is_finite()) { rep.nonfinite = true; } } }
            let mut fe = 0.0f64; let mut rr = 0.0f64; let mut ll = 0.0f64;
            for i in 0..n {
                let (mut fs, mut rs, mut ls) = (0.0, 0.0, 0.0);
                for j in 0..n {
                    fs += (xz[i][j] - ir[i][j]).abs();
                    let mut r = ZD::zero(); let mut l = ZD::zero();
                    for k in 0..n { r = r + az[i][k] * xz[k][j]; l = l + xz[i][k] * az[k][j]; }
                    if i == j { r = r - ZD::one(); l = l - ZD::one(); }
                    rs += r.abs(); ls += l.abs();
                }
                fe = fe.max(fs); rr = rr.max(rs); ll = ll.max(ls);
            }
            rep.fwd_norm = fe / (EPS * rep.cond * nx);
            rep.right_norm = rr / (EPS * rep.cond);
            rep.left_norm = ll / (EPS * rep.cond);
        }
    }
    rep
}

/// as assess, but the matrix is first scaled by a power of two so that its largest entry is of order one; the determinant is not judged
pub fn assess_scaled(a: &Vec<Vec<(f64, f64)>>, inv: &Vec<Vec<(f64, f64)>>) -> Report {
    let mut m = 0.0f64; for r in a { for e in r { m = m.max(e.0.abs()).max(e.1.abs()); } }
    let (_, e) = frexp(m);
    // two-step scaling to stay exact for |e| up to 1074
    let s1 = pow2(-e / 2); let s2 = pow2(-e - (-e / 2));
    let b: Vec<Vec<(f64, f64)>> = a.iter().map(|r| r.iter().map(|&(x, y)| (x * s1 * s2, y * s1 * s2)).collect()).collect();
    let t1 = pow2(e / 2); let t2 = pow2(e - e / 2);
    let x: Vec<Vec<(f64, f64)>> = inv.iter().map(|r| r.iter().map(|&(x, y)| (x * t1 * t2, y * t1 * t2)).collect()).collect();
    let mut rep = assess(&b, (0.0, 0.0), Some(&x));
    for r in inv { for e in r { if !(e.0.is_finite() && e.1.is_finite()) { rep.nonfinite = true; } } }
    rep
}
