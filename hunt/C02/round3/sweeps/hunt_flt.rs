mod hsup;
use hsup::*;
use ohsl::matrix::Matrix;
use ohsl::complex::Complex;

type A = Vec<Vec<(f64, f64)>>;

fn run_real(a: &A) -> ((f64, f64), Vec<Vec<(f64, f64)>>) {
    let n = a.len();
    let mut m = Matrix::<f64>::new(n, n, 0.0);
    for i in 0..n { for j in 0..n { m[(i, j)] = a[i][j].0; } }
    let d = m.determinant();
    let x = m.inverse();
    for i in 0..n { for j in 0..n { assert!(m[(i, j)].to_bits() == a[i][j].0.to_bits(), "matrix modified"); } }
    (( d, 0.0 ), (0..n).map(|i| (0..n).map(|j| (x[(i, j)], 0.0)).collect()).collect())
}
fn run_cplx(a: &A) -> ((f64, f64), Vec<Vec<(f64, f64)>>) {
    let n = a.len();
    let mut m = Matrix::<Complex<f64>>::new(n, n, Complex::new(0.0, 0.0));
    for i in 0..n { for j in 0..n { m[(i, j)] = Complex::new(a[i][j].0, a[i][j].1); } }
    let d = m.determinant();
    let x = m.inverse();
    for i in 0..n { for j in 0..n { assert!(m[(i, j)].real.to_bits() == a[i][j].0.to_bits() && m[(i, j)].imag.to_bits() == a[i][j].1.to_bits(), "matrix modified"); } }
    (( d.real, d.imag ), (0..n).map(|i| (0..n).map(|j| (x[(i, j)].real, x[(i, j)].imag)).collect()).collect())
}

const DEC: [f64; 16] = [0.7, -0.3, 0.55, 45.24, -0.001, 1.3, -2.9, 0.1, 3.3, -7.77, 0.013, 12.5, -0.61, 1.0, -1.0, 0.0];

fn gen(rng: &mut Rng, n: usize, cplx: bool, kind: usize) -> A {
    let mut a: A = vec![vec![(0.0, 0.0); n]; n];
    let val = |rng: &mut Rng, style: usize| -> f64 { match style { 0 => rng.sym(), 1 => rng.pick(&DEC), _ => (rng.sym() * 10.0).round() / 10.0 } };
    let style = rng.below(3) as usize;
    let ent = |rng: &mut Rng| -> (f64, f64) {
        if !cplx { return (val(rng, style), 0.0); }
        match rng.below(6) { 0 => (val(rng, style), 0.0), 1 => (0.0, val(rng, style)), _ => (val(rng, style), val(rng, style)) }
    };
    match kind {
        0 => { for i in 0..n { for j in 0..n { a[i][j] = ent(rng); } } }
        1 => { let p = 2 + rng.below(3); for i in 0..n { for j in 0..n { if rng.below(p) == 0 || i == j { a[i][j] = ent(rng); } } } }
        2 => { // permutation-like plus small noise
            let mut p: Vec<usize> = (0..n).collect();
            for i in (1..n).rev() { let j = rng.below(i as u64 + 1) as usize; p.swap(i, j); }
            let noise = rng.pick(&[0.0, 1e-3, 0.1, 0.5]);
            for i in 0..n { for j in 0..n { let e = ent(rng); a[i][j] = (e.0 * noise, e.1 * noise); } }
            for i in 0..n { let e = ent(rng); a[i][p[i]] = (e.0 + 2.0, e.1); } }
        3 => { let up = rng.below(2) == 0; for i in 0..n { for j in 0..n { if (up && j >= i) || (!up && j <= i) { a[i][j] = ent(rng); } } } }
        4 => { // rank deficient
            for i in 0..n { for j in 0..n { a[i][j] = ent(rng); } }
            if n > 1 { let r = rng.below(n as u64) as usize; let r2 = (r + 1) % n; for j in 0..n { a[r][j] = a[r2][j]; } } }
        5 => { // zero row/col
            for i in 0..n { for j in 0..n { a[i][j] = ent(rng); } }
            let r = rng.below(n as u64) as usize;
            if rng.below(2) == 0 { for j in 0..n { a[r][j] = (0.0, 0.0); } } else { for i in 0..n { a[i][r] = (0.0, 0.0); } } }
        6 => { // cyclic shift dominant
            let sh = rng.below(n as u64) as usize;
            for i in 0..n { for j in 0..n { let e = ent(rng); a[i][j] = (0.3 * e.0, 0.3 * e.1); } }
            for i in 0..n { let e = ent(rng); a[i][(i + sh) % n] = (e.0 + 3.0, e.1); } }
        _ => { // ties: entries of equal modulus
            for i in 0..n { for j in 0..n { a[i][j] = if cplx { rng.pick(&[(1.0, 0.0), (-1.0, 0.0), (0.0, 1.0), (0.0, -1.0), (0.6, 0.8), (0.8, -0.6)]) } else { rng.pick(&[(1.0, 0.0), (-1.0, 0.0)]) }; } } }
    }
    a
}

fn scale(rng: &mut Rng, a: &mut A, mode: usize) {
    let n = a.len();
    let exps: [i32; 9] = [-120, -40, -7, -3, 0, 3, 7, 40, 120];
    match mode {
        0 => {}
        1 => { let mut e = rng.pick(&exps); while (e.abs() as usize) * n > 250 { e = rng.pick(&exps); } let s = 10f64.powi(e); for i in 0..n { for j in 0..n { a[i][j].0 *= s; a[i][j].1 *= s; } } }
        2 => { for i in 0..n { let s = 10f64.powi(rng.pick(&[-7, -3, 0, 3, 7])); for j in 0..n { a[i][j].0 *= s; a[i][j].1 *= s; } } }
        3 => { for j in 0..n { let s = 10f64.powi(rng.pick(&[-7, -3, 0, 3, 7])); for i in 0..n { a[i][j].0 *= s; a[i][j].1 *= s; } } }
        4 => { for i in 0..n { for j in 0..n { let s = 10f64.powi(rng.pick(&[-7, -3, 0, 0, 0, 3, 7])); a[i][j].0 *= s; a[i][j].1 *= s; } } }
        _ => { // only the imaginary (or real) parts scaled: a coordinate on/near an axis with a tiny other part
            let mut e: i32 = rng.pick(&[-120, -40, -17, -7]); while (e.abs() as usize) * n > 250 { e = rng.pick(&[-120, -40, -17, -7]); } let s = 10f64.powi(e); let which = rng.below(2);
            for i in 0..n { for j in 0..n { if which == 0 { a[i][j].1 *= s } else { a[i][j].0 *= s } } } }
    }
}

fn fmt(a: &A) -> String { let mut s = String::new(); for r in a { s += "  ["; for e in r { s += &format!("({:e},{:e}) ", e.0, e.1); } s += "]\n"; } s }

#[test]
fn float_sweep() {
    let mut rng = Rng(0x0123456789ABCDEF);
    let iters: usize = std::env::var("HUNT_N").ok().and_then(|s| s.parse().ok()).unwrap_or(40000);
    let mut worst: Vec<(f64, String)> = Vec::new();
    let mut push = |score: f64, msg: String| { worst.push((score, msg)); worst.sort_by(|x, y| y.0.partial_cmp(&x.0).unwrap_or(std::cmp::Ordering::Equal)); worst.truncate(12); };
    let mut stats = [0usize; 4];
    for it in 0..iters {
        let n = 1 + rng.below(8) as usize;
        let cplx = rng.below(2) == 0;
        let kind = rng.below(8) as usize;
        let mode = rng.below(6) as usize;
        let mut a = gen(&mut rng, n, cplx, kind);
        scale(&mut rng, &mut a, if !cplx && mode == 5 { 1 } else { mode });
        let (d, x) = if cplx { run_cplx(&a) } else { run_real(&a) };
        let rep = assess(&a, d, Some(&x));
        stats[0] += 1;
        if rep.singular_ref || rep.cond > 1e13 {
            stats[1] += 1;
            // singular or ill-conditioned: only the determinant against the Hadamard bound
            if rep.singular_ref && (d.0 != 0.0 || d.1 != 0.0) && rep.det_hadamard_ratio > 50.0 { push(rep.det_hadamard_ratio, format!("it{} SINGULAR det {:?} hadamard ratio {:e} n{} cplx{} kind{} mode{}\n{}", it, d, rep.det_hadamard_ratio, n, cplx, kind, mode, fmt(&a))); }
            if rep.singular_ref && !(d.0.is_finite() && d.1.is_finite()) { push(1e300, format!("it{} SINGULAR nonfinite det {:?}\n{}", it, d, fmt(&a))); }
            continue;
        }
        stats[2] += 1;
        let detn = rep.det_ratio.min(rep.det_hadamard_ratio); let score = detn.max(rep.fwd_norm).max(rep.right_norm).max(rep.left_norm / rep.cond.max(1.0));
        let score = if rep.nonfinite { 1e300 } else { score };
        if score > 3.0 || rep.nonfinite {
            push(score, format!("it{} n{} cplx{} kind{} mode{} cond {:e}: det_ratio {:e} (had {:e}) fwd {:e} right {:e} left {:e} nonfinite {} det {:?}\n{}", it, n, cplx, kind, mode, rep.cond, rep.det_ratio, rep.det_hadamard_ratio, rep.fwd_norm, rep.right_norm, rep.left_norm, rep.nonfinite, d, fmt(&a)));
        }
    }
    println!("cases {} skipped(singular/illcond) {} assessed {}", stats[0], stats[1], stats[2]);
    for (s, m) in &worst { println!("score {:e}: {}", s, m); }
}
