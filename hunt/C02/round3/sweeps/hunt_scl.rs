mod hsup;
use hsup::*;
use ohsl::matrix::Matrix;
use ohsl::complex::Complex;
type A = Vec<Vec<(f64, f64)>>;
fn run_cplx(a: &A) -> ((f64, f64), A) {
    let n = a.len();
    let mut m = Matrix::<Complex<f64>>::new(n, n, Complex::new(0.0, 0.0));
    for i in 0..n { for j in 0..n { m[(i, j)] = Complex::new(a[i][j].0, a[i][j].1); } }
    let d = m.determinant();
    let x = m.inverse();
    ((d.real, d.imag), (0..n).map(|i| (0..n).map(|j| (x[(i, j)].real, x[(i, j)].imag)).collect()).collect())
}
fn run_real(a: &A) -> ((f64, f64), A) {
    let n = a.len();
    let mut m = Matrix::<f64>::new(n, n, 0.0);
    for i in 0..n { for j in 0..n { m[(i, j)] = a[i][j].0; } }
    let d = m.determinant();
    let x = m.inverse();
    ((d, 0.0), (0..n).map(|i| (0..n).map(|j| (x[(i, j)], 0.0)).collect()).collect())
}
fn fmt(a: &A) -> String { let mut s = String::new(); for r in a { s += "  ["; for e in r { s += &format!("({:e},{:e}) ", e.0, e.1); } s += "]\n"; } s }
#[test]
fn scaled_sweep() {
    let mut rng = Rng(0xABCDEF0123456789);
    let iters: usize = std::env::var("HUNT_N").ok().and_then(|s| s.parse().ok()).unwrap_or(200000);
    let kmax: i64 = std::env::var("HUNT_K").ok().and_then(|s| s.parse().ok()).unwrap_or(70);
    let mut worst: Vec<(f64, String)> = Vec::new();
    let mut assessed = 0;
    for it in 0..iters {
        let n = 1 + rng.below(6) as usize;
        let cplx = rng.below(2) == 0;
        // B: generic, diagonally weighted so that it is well conditioned
        let mut b: A = vec![vec![(0.0, 0.0); n]; n];
        for i in 0..n { for j in 0..n { b[i][j] = (rng.sym(), if cplx { rng.sym() } else { 0.0 }); } }
        let mut p: Vec<usize> = (0..n).collect();
        for i in (1..n).rev() { let j = rng.below(i as u64 + 1) as usize; p.swap(i, j); }
        for i in 0..n { b[i][p[i]].0 += 2.5; }
        let bz: M = b.iter().map(|r| r.iter().map(|&(x, y)| ZD::new(x, y)).collect()).collect();
        let (bdet, binv) = ref_det_inv(&bz);
        let binv = match binv { Some(x) => x, None => continue };
        let nb = (0..n).map(|i| (0..n).map(|j| binv[i][j].abs()).sum::<f64>()).fold(0.0, f64::max);
        if nb > 50.0 { continue; }
        let k1: Vec<i64> = (0..n).map(|_| (rng.below((2 * kmax + 1) as u64) as i64) - kmax).collect();
        let k2: Vec<i64> = (0..n).map(|_| (rng.below((2 * kmax + 1) as u64) as i64) - kmax).collect();
        // powers of two so that the scaling is exact: A = D1 B D2 exactly
        let mut a = b.clone();
        for i in 0..n { for j in 0..n { let s = pow2((3 * (k1[i] + k2[j])) as i32); a[i][j].0 *= s; a[i][j].1 *= s; } }
        let (d, x) = if cplx { run_cplx(&a) } else { run_real(&a) };
        assessed += 1;
        // unscale: Binv = D2 X D1
        let mut err = 0.0f64; let mut nonfinite = false;
        for i in 0..n { for j in 0..n {
            let e = 3 * (k2[i] + k1[j]);
            let s1 = pow2((e / 2) as i32); let s2 = pow2((e - e / 2) as i32);
            let y = ZD::new(x[i][j].0 * s1 * s2, x[i][j].1 * s1 * s2);
            if !(x[i][j].0.is_finite() && x[i][j].1.is_finite()) { nonfinite = true; }
            err = err.max((y - binv[i][j]).abs());
        } }
        let ksum: i64 = k1.iter().sum::<i64>() + k2.iter().sum::<i64>();
        let mut derr = 0.0; let judge_det = kmax <= 20;
        if judge_det && (3 * ksum).abs() < 900 {
            let s = pow2((-3 * ksum) as i32);
            derr = (ZD::new(d.0 * s, d.1 * s) - bdet).abs() / bdet.abs();
            if !(d.0.is_finite() && d.1.is_finite()) { derr = 1e300; }
        }
        let score = if nonfinite { 1e300 } else { (err / nb / EPS).max(derr / EPS) };
        if score > 200.0 {
            worst.push((score, format!("it{} n{} cplx{} inv_err/eps {:e} det_err/eps {:e} nonfinite {} k1 {:?} k2 {:?}\n{}inv\n{}", it, n, cplx, err / nb / EPS, derr / EPS, nonfinite, k1, k2, fmt(&a), fmt(&x))));
            worst.sort_by(|x, y| y.0.partial_cmp(&x.0).unwrap());
            worst.truncate(5);
        }
    }
    println!("assessed {}", assessed);
    for (s, m) in &worst { println!("score {:e}: {}", s, m); }
}
