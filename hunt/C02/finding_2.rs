// C02 finding 2: Matrix<Complex<f64>>::determinant is wrong (finite but off by a factor, or NaN)
// when a column holds entries of modulus below ~1e-162 or above ~1e154.
use ohsl::{Matrix, Complex};
type C = Complex<f64>;

#[test]
fn complex_det_tiny_column() {
    // A = [[1e-170, 1],[1e-170, 2]], det = 1e-170 * (2 - 1) = 1e-170 (representable). Crate: 2e-170.
    let mut a = Matrix::<C>::new(2, 2, C::new(0.0, 0.0));
    a[(0, 0)] = C::new(1.0e-170, 0.0); a[(0, 1)] = C::new(1.0, 0.0);
    a[(1, 0)] = C::new(1.0e-170, 0.0); a[(1, 1)] = C::new(2.0, 0.0);
    let d = a.determinant();
    let want = 1.0e-170;
    assert!((d.real - want).abs() <= 1e-12 * want && d.imag.abs() <= 1e-12 * want, "det = {:?}, exact value is 1e-170", d);
}

#[test]
fn complex_det_large_column() {
    // A = [[1e160, 1],[2e160, 3]], det = 3e160 - 2e160 = 1e160 (representable). Crate: NaN.
    let mut a = Matrix::<C>::new(2, 2, C::new(0.0, 0.0));
    a[(0, 0)] = C::new(1.0e160, 0.0); a[(0, 1)] = C::new(1.0, 0.0);
    a[(1, 0)] = C::new(2.0e160, 0.0); a[(1, 1)] = C::new(3.0, 0.0);
    let d = a.determinant();
    let want = 1.0e160;
    assert!((d.real - want).abs() <= 1e-12 * want && d.imag.abs() <= 1e-12 * want, "det = {:?}, exact value is 1e160", d);
}
