// C02 finding 3: Matrix<f64>::determinant overflows to inf / underflows to exactly 0 although the
// determinant itself is comfortably representable: the diagonal of U is multiplied up in pivot
// order without any scaling.
use ohsl::Matrix;

fn diag(d: &[f64]) -> Matrix<f64> {
    let n = d.len();
    let mut m = Matrix::<f64>::new(n, n, 0.0);
    for i in 0..n { m[(i, i)] = d[i]; }
    m
}

#[test]
fn f64_det_partial_product_overflow() {
    // det diag(1e200, 1e200, 1e-300) = 1e100; crate returns inf
    let d = diag(&[1.0e200, 1.0e200, 1.0e-300]).determinant();
    assert!((d - 1.0e100).abs() <= 1e-12 * 1.0e100, "det = {:e}, exact value is 1e100", d);
}

#[test]
fn f64_det_partial_product_underflow_reports_singular() {
    // det diag(1e-200, 1e-200, 1e300) = 1e-100 (matrix is nonsingular); crate returns exactly 0
    let d = diag(&[1.0e-200, 1.0e-200, 1.0e300]).determinant();
    assert!(d != 0.0, "determinant of a nonsingular diagonal matrix reported as exactly 0");
    assert!((d - 1.0e-100).abs() <= 1e-12 * 1.0e-100, "det = {:e}, exact value is 1e-100", d);
}
