// C02 finding 1: Matrix<Complex<f64>>::inverse returns 0 / inf / NaN for nonsingular matrices
// whose entries have modulus beyond about 1e+-154 (all entries finite, inverse representable).
use ohsl::{Matrix, Complex};
type C = Complex<f64>;

fn check_two_sided(a: &Matrix<C>) {
    let n = a.rows();
    let before = a.clone();
    let inv = a.inverse();
    assert!(*a == before, "inverse modified the matrix");
    for i in 0..n { for j in 0..n {
        let mut r = C::new(0.0, 0.0); let mut l = C::new(0.0, 0.0);
        for k in 0..n { r = r + a[(i, k)] * inv[(k, j)]; l = l + inv[(i, k)] * a[(k, j)]; }
        let w = if i == j { 1.0 } else { 0.0 };
        assert!((r.real - w).abs() < 1e-9 && r.imag.abs() < 1e-9 && (l.real - w).abs() < 1e-9 && l.imag.abs() < 1e-9,
            "A*inv(A) / inv(A)*A is not the identity at ({},{}): {:?} / {:?}; inv = {:?}", i, j, r, l, inv);
    } }
}

#[test]
fn complex_1x1_large() {
    // inverse of [[1e200]] is [[1e-200]]; the crate returns [[0]]
    let mut a = Matrix::<C>::new(1, 1, C::new(0.0, 0.0));
    a[(0, 0)] = C::new(1.0e200, 0.0);
    check_two_sided(&a);
}

#[test]
fn complex_1x1_small() {
    // inverse of [[1e-200]] is [[1e200]]; the crate returns [[inf + NaN i]]
    let mut a = Matrix::<C>::new(1, 1, C::new(0.0, 0.0));
    a[(0, 0)] = C::new(1.0e-200, 0.0);
    check_two_sided(&a);
}

#[test]
fn complex_2x2_one_large_entry() {
    // [[1, 1e160],[1, 1]]: inverse is about [[-1e-160, 1],[1e-160, -1e-160]]; the crate returns [[1,0],[0,-0]]
    let mut a = Matrix::<C>::new(2, 2, C::new(1.0, 0.0));
    a[(0, 1)] = C::new(1.0e160, 0.0);
    check_two_sided(&a);
}
