// C02 hunt 2, finding 1: Matrix<Complex<f64>>::inverse returns -inf for a 2x2 matrix whose entries
// (8.96e102, 1.1e-103) are far inside the range where Complex<f64> arithmetic is otherwise safe, and whose
// exact inverse is representable (entries 1.1e-103, -8.96e102, 8.96e102). The same matrix over f64 is inverted exactly.
use ohsl::{Matrix, Complex};

type C = Complex<f64>;
fn c(x: f64) -> C { Complex::new(x, 0.0) }

#[test]
fn complex_inverse_of_in_range_matrix_is_finite_and_two_sided() {
    let s = 2f64.powi(342);   // 8.96e102
    let t = 2f64.powi(-342);  // 1.12e-103
    // A = [[s, s], [0, t]]  (upper triangular, purely real complex entries, no row exchange needed)
    let mut a = Matrix::<C>::new(2, 2, c(0.0));
    a[(0, 0)] = c(s); a[(0, 1)] = c(s); a[(1, 1)] = c(t);
    // exact inverse: [[1/s, -1/t], [0, 1/t]] = [[t, -s], [0, s]] -- every entry a power of two
    let mut exact = Matrix::<C>::new(2, 2, c(0.0));
    exact[(0, 0)] = c(t); exact[(0, 1)] = c(-s); exact[(1, 1)] = c(s);
    // the property's own check is computable for this matrix: the exact inverse multiplies back to I on both sides
    let id = Matrix::<C>::eye(2);
    assert!(&a * &exact == id && &exact * &a == id, "reference inverse must satisfy the identity");

    // the same matrix over f64 is inverted exactly by the crate
    let mut f = Matrix::<f64>::new(2, 2, 0.0);
    f[(0, 0)] = s; f[(0, 1)] = s; f[(1, 1)] = t;
    let fi = f.inverse();
    assert_eq!((fi[(0, 0)], fi[(0, 1)], fi[(1, 0)], fi[(1, 1)]), (t, -s, 0.0, s));

    let before = a.clone();
    let inv = a.inverse();
    assert!(a == before, "matrix changed");
    for i in 0..2 { for j in 0..2 {
        let d = inv[(i, j)] - exact[(i, j)];
        assert!(d.real.abs() <= 1e-12 * s && d.imag.abs() <= 1e-12 * s,
            "inverse entry ({},{}) = {:?}, exact {:?}", i, j, inv[(i, j)], exact[(i, j)]);
    } }
    let l = &a * &inv; let r = &inv * &a;
    for i in 0..2 { for j in 0..2 {
        let e = if i == j { 1.0 } else { 0.0 };
        assert!((l[(i, j)] - c(e)).abs() <= 1e-9 && (r[(i, j)] - c(e)).abs() <= 1e-9,
            "A*inv(A) = {:?}, inv(A)*A = {:?}", l, r);
    } }
}
