// C02 hunt 2, finding 2: Matrix<f64>::determinant is wrong by 50% (not rounding) on a 2x2 matrix with normal,
// finite entries and an exactly representable determinant, because the LU multiplier a10/a00 underflows to 0.
use ohsl::Matrix;

#[test]
fn determinant_survives_multiplier_underflow() {
    // A = [[2^600, 2^900], [2^-600, 3*2^-300]]   (4.1e180, 8.5e270, 2.4e-181, 1.5e-90)
    // det = 2^600 * 3*2^-300 - 2^900 * 2^-600 = 3*2^300 - 2^300 = 2^301 = 4.07e90 ; both products are exact in f64
    let mut a = Matrix::<f64>::new(2, 2, 0.0);
    a[(0, 0)] = 2f64.powi(600); a[(0, 1)] = 2f64.powi(900);
    a[(1, 0)] = 2f64.powi(-600); a[(1, 1)] = 3.0 * 2f64.powi(-300);
    let exact = 2f64.powi(301);
    assert_eq!(a[(0, 0)] * a[(1, 1)] - a[(0, 1)] * a[(1, 0)], exact); // textbook ad - bc, exact here
    let before = a.clone();
    let det = a.determinant();
    assert!(a == before);
    assert!((det - exact).abs() <= 1e-12 * exact, "determinant = {:e}, exact = {:e}", det, exact);
}
