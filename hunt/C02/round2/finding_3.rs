// C02 hunt 2, finding 3: Matrix<f64>::inverse returns -inf for an upper-triangular 2x2 matrix with entries 1.07e155 and
// 9.3e-156 whose exact inverse is representable (entries 9.3e-156, -1.07e155, 1.07e155): the product inside the back
// substitution overflows before it is divided by the pivot.
use ohsl::Matrix;

#[test]
fn inverse_back_substitution_does_not_overflow() {
    let s = 2f64.powi(515);  // 1.07e155
    let t = 2f64.powi(-515); // 9.3e-156
    let mut a = Matrix::<f64>::new(2, 2, 0.0);
    a[(0, 0)] = s; a[(0, 1)] = s; a[(1, 1)] = t;
    // exact inverse [[1/s, -1/t], [0, 1/t]] = [[t, -s], [0, s]]
    let exact = [[t, -s], [0.0, s]];
    let before = a.clone();
    let inv = a.inverse();
    assert!(a == before);
    for i in 0..2 { for j in 0..2 {
        assert!((inv[(i, j)] - exact[i][j]).abs() <= 1e-12 * s, "inverse entry ({},{}) = {:e}, exact {:e}", i, j, inv[(i, j)], exact[i][j]);
    } }
    // inv(A)*A = I is computable without overflow for this matrix
    let r = &inv * &a;
    for i in 0..2 { for j in 0..2 { let e = if i == j { 1.0 } else { 0.0 }; assert!((r[(i, j)] - e).abs() <= 1e-9, "inv(A)*A = {:?}", r); } }
}
