// C02 hunt 2, finding 4 (judgement call - see finding_4.txt): a nonsingular 5x5 f64 matrix with small-integer entries, three of whose
// rows are multiplied by 2^55, gets determinant -0.0 and an all-NaN/inf inverse. No overflow or underflow is involved: a
// rounding residue (-4096 where the exact value is 0) in a big row out-weighs the genuine O(1) pivot candidates of the small rows.
use ohsl::Matrix;

#[test]
fn determinant_of_row_scaled_integer_matrix() {
    let b = [[3., -1., -1., -3., 0.], [3., -2., 1., 0., 3.], [3., -1., 1., -1., 0.], [-2., 2., 1., 3., 3.], [1., -2., -3., -2., 2.]];
    // exact det(B) = 36 (cofactor expansion over the integers)
    let big = [false, true, false, true, true];
    let s = 2f64.powi(55); // 3.6e16
    let mut a = Matrix::<f64>::new(5, 5, 0.0);
    for i in 0..5 { for j in 0..5 { a[(i, j)] = if big[i] { b[i][j] * s } else { b[i][j] }; } } // exact: entries are integers below 1.1e17 .. all representable
    let exact = 36.0 * s * s * s; // 36 * 2^165 = 1.68e51, exactly representable
    let det = a.determinant();
    assert!((det - exact).abs() <= 1e-6 * exact, "determinant = {:e}, exact = {:e}", det, exact);
    let inv = a.inverse();
    let r = &inv * &a;
    for i in 0..5 { for j in 0..5 { let e = if i == j { 1.0 } else { 0.0 }; assert!((r[(i, j)] - e).abs() <= 1e-3, "inv(A)*A ({},{}) = {}", i, j, r[(i, j)]); } }
}
