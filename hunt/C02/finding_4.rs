// C02 finding 4 (BORDERLINE - see finding_4.txt): Matrix<f64>::determinant returns exactly 0 (and
// the inverse is inf/NaN) for a nonsingular 5x5 matrix with small-integer entries whose rows are
// scaled by exact powers of two 2^120, 2^60, 1, 2^-60, 2^-120 (entries between 1e-36 and 4e36).
// The exact determinant is 714 (the scalings cancel). Partial pivoting compares rows of different
// scale, takes a rounding residue (-1.1e-16, exact value 0) as the pivot of column 2, and the rest
// of the factorisation is garbage.
use ohsl::Matrix;

#[test]
fn f64_det_row_scaled() {
    let a: [[f64; 5]; 5] = [[3., 1., -2., -1., 0.], [1., 3., -2., -3., 1.], [-2., -2., 2., -3., 3.], [-2., -2., -1., -3., -3.], [3., 3., 2., 1., 2.]];
    let e = [120, 60, 0, -60, -120];
    let mut m = Matrix::<f64>::new(5, 5, 0.0);
    for i in 0..5 { for j in 0..5 { m[(i, j)] = a[i][j] * 2f64.powi(e[i]); } }
    // unscaled matrix: fine
    let mut u = Matrix::<f64>::new(5, 5, 0.0);
    for i in 0..5 { for j in 0..5 { u[(i, j)] = a[i][j]; } }
    assert!((u.determinant() - 714.0).abs() < 1e-9);
    // scaled matrix: det(M) = det(A) * 2^(120+60+0-60-120) = 714 exactly
    let d = m.determinant();
    assert!((d - 714.0).abs() <= 1e-6 * 714.0, "det = {:e}, exact value is 714", d);
}
