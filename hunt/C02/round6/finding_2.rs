// Diagonal matrices of order 8 and 3 whose pivots are only 1e180 (resp. 1e165) apart and whose determinant is an
// ordinary number (1, resp. 2^1000 ~ 1.07e301): the running product of the pivots leaves the range on the way.
use ohsl::Matrix;

#[test]
fn running_product_underflows_to_zero() {
    let mut m = Matrix::<f64>::new( 8, 8, 0.0 );
    for i in 0..8 { m[(i,i)] = if i < 4 { 2f64.powi(-300) } else { 2f64.powi(300) }; }
    let d = m.determinant();                   // exact value: 2^(-1200) * 2^(1200) = 1
    assert!( ( d - 1.0 ).abs() <= 1e-12, "determinant {} of a nonsingular matrix with determinant 1", d );
}

#[test]
fn running_product_overflows() {
    let mut m = Matrix::<f64>::new( 3, 3, 0.0 );
    m[(0,0)] = 2f64.powi(520); m[(1,1)] = 2f64.powi(520); m[(2,2)] = 2f64.powi(-40);
    let d = m.determinant();                   // exact value: 2^1000, representable
    assert!( d == 2f64.powi(1000), "determinant {} but the exact value is 2^1000 = {}", d, 2f64.powi(1000) );
}
