// Two rows of a small integer matrix scaled by 2^54: every entry and the determinant 49 * 2^108 are exactly
// representable, the matrix is nonsingular, yet determinant() returns 0 and inverse() is not an inverse.
use ohsl::Matrix;

fn build() -> Matrix<f64> {
    let s = 2f64.powi(54);
    let a: [[f64; 4]; 4] = [ [ 49.0 * s, 49.0 * s, 0.0, 0.0 ],
                             [ s, s, s, s ],
                             [ 1.0, -1.0, 0.0, -1.0 ],
                             [ 0.0, -1.0, -1.0, -1.0 ] ];
    let mut m = Matrix::<f64>::new( 4, 4, 0.0 );
    for i in 0..4 { for j in 0..4 { m[(i,j)] = a[i][j]; } }
    m
}

#[test]
fn determinant_of_row_scaled_matrix() {
    let m = build();
    let exact = 49.0 * 2f64.powi(108);         // cofactor expansion: det(A0) = 49, two rows carry 2^54
    let d = m.determinant();
    assert!( ( d - exact ).abs() <= 1e-9 * exact, "determinant {} but the exact value is {}", d, exact );
}

#[test]
fn inverse_of_row_scaled_matrix() {
    let m = build();
    let inv = m.inverse();
    for i in 0..4 { for j in 0..4 {
        let ( mut left, mut right ) = ( 0.0, 0.0 );
        for k in 0..4 { left += m[(i,k)] * inv[(k,j)]; right += inv[(i,k)] * m[(k,j)]; }
        let id = if i == j { 1.0 } else { 0.0 };
        assert!( ( left - id ).abs() <= 1e-6 && ( right - id ).abs() <= 1e-6,
            "( {}, {} ): A*inv = {}, inv*A = {}", i, j, left, right );
    } }
}
