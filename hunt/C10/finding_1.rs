// C10 finding 1: the closed-form cubic path returns values that are nowhere near the roots
// for a cubic with three simple real roots 2.65, 2.66, 2.67 (spacing 0.01, symmetric about
// the inflection point).  With refine=false all three returned values are garbage
// (|p(z)| ~ 17.6 with max|a_k| = 21.2); with refine=true the root 2.66 is missing and 2.67
// is returned twice.
use ohsl::{Cmplx, Polynomial};

fn cabs(z: Cmplx) -> f64 {
    z.real.hypot(z.imag)
}

// |p(z)| / ( max|a_k| * max(1,|z|)^n ), Horner on the caller's coefficients
fn backward_error(c: &[f64], z: Cmplx) -> f64 {
    let n = c.len() - 1;
    let mut p = Cmplx::new(c[n], 0.0);
    for i in (0..n).rev() {
        p = p * z + Cmplx::new(c[i], 0.0);
    }
    let mx = c.iter().map(|a| a.abs()).fold(0.0, f64::max);
    cabs(p) / (mx * cabs(z).max(1.0).powi(n as i32))
}

// (x - 2.65)(x - 2.66)(x - 2.67) = x^3 - 7.98 x^2 + 21.2267 x - 18.82083   (exact in decimals)
const COEFFS: [f64; 4] = [-18.82083, 21.2267, -7.98, 1.0];
const TRUE_ROOTS: [f64; 3] = [2.65, 2.66, 2.67];

fn check(refine: bool) {
    let r = Polynomial::<f64>::new(COEFFS.to_vec()).roots(refine);
    assert_eq!(r.size(), 3);
    let mut used = [false; 3];
    for i in 0..3 {
        let z = r[i];
        assert!(z.real.is_finite() && z.imag.is_finite(), "refine={refine}: root {i} = {z:?} not finite");
        let be = backward_error(&COEFFS, z);
        // a backward-stable answer has be ~ 1e-16; 1e-8 is a very lenient bound
        assert!(be < 1e-8, "refine={refine}: returned value {z:?} is not a root, backward error {be:e}");
    }
    // one-to-one correspondence: the roots are simple, 0.01 apart and conditioned to ~1e-10
    for t in TRUE_ROOTS {
        let mut best = (f64::INFINITY, 0usize);
        for i in 0..3 {
            if used[i] { continue; }
            let d = cabs(r[i] - Cmplx::new(t, 0.0));
            if d < best.0 { best = (d, i); }
        }
        assert!(best.0 < 1e-6, "refine={refine}: no returned value for the root {t}: {:?} {:?} {:?}", r[0], r[1], r[2]);
        used[best.1] = true;
    }
}

#[test]
fn cubic_2_65_2_66_2_67_unrefined() {
    check(false);
}

#[test]
fn cubic_2_65_2_66_2_67_refined() {
    check(true);
}
