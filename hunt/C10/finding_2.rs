// C10 finding 2: the closed-form cubic path returns NaN for a cubic with a triple root whose
// coefficients are not exactly representable:  5 (x + 0.62)^3 = 5x^3 + 9.3x^2 + 5.766x + 1.19164
use ohsl::{Cmplx, Polynomial};

fn cabs(z: Cmplx) -> f64 {
    z.real.hypot(z.imag)
}

fn backward_error(c: &[f64], z: Cmplx) -> f64 {
    let n = c.len() - 1;
    let mut p = Cmplx::new(c[n], 0.0);
    for i in (0..n).rev() {
        p = p * z + Cmplx::new(c[i], 0.0);
    }
    let mx = c.iter().map(|a| a.abs()).fold(0.0, f64::max);
    cabs(p) / (mx * cabs(z).max(1.0).powi(n as i32))
}

const COEFFS: [f64; 4] = [1.19164, 5.766, 9.3, 5.0];

fn check(r: ohsl::Vector<Cmplx>, what: &str) {
    assert_eq!(r.size(), 3);
    for i in 0..3 {
        let z = r[i];
        assert!(z.real.is_finite() && z.imag.is_finite(), "{what}: root {i} = {z:?} is not finite");
        let be = backward_error(&COEFFS, z);
        assert!(be < 1e-8, "{what}: backward error {be:e} at {z:?}");
        // triple root -0.62: forward error of a backward-stable answer is ~ eps^(1/3) ~ 1e-5
        assert!(cabs(z - Cmplx::new(-0.62, 0.0)) < 1e-3, "{what}: {z:?} is not near -0.62");
    }
}

#[test]
fn triple_root_real_unrefined() {
    check(Polynomial::<f64>::new(COEFFS.to_vec()).roots(false), "f64, refine=false");
}

#[test]
fn triple_root_real_refined() {
    check(Polynomial::<f64>::new(COEFFS.to_vec()).roots(true), "f64, refine=true");
}

#[test]
fn triple_root_cmplx_unrefined() {
    let c: Vec<Cmplx> = COEFFS.iter().map(|a| Cmplx::new(*a, 0.0)).collect();
    check(Polynomial::<Cmplx>::new(c).roots(false), "Cmplx, refine=false");
}
