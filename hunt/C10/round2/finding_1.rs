// C10 finding 1: closed-form cubic (degree 3, refine = false) on a cluster of roots.
// p(x) = x^3 - 3.001 x^2 + 3.002 x - 1.001 = (x - 1)^2 (x - 1.001)   (coefficients rounded to f64)
// The unrefined root finder returns three values about 2.5e-3 away from the cluster; their normwise
// backward error |p(z)| / ( max|a_k| * max(1,|z|)^3 ) is 5.4e-9 (2e7 machine epsilons), where every other
// degree / setting of the same routine reaches 1e-14 or better and refine = true reaches 3e-16 on this input.
use ohsl::{Polynomial, Cmplx};

// independent Horner evaluation in (re, im) pairs
fn horner(c: &[(f64, f64)], z: (f64, f64)) -> (f64, f64) {
    let mut p = c[c.len() - 1];
    for k in (0..c.len() - 1).rev() {
        p = (p.0 * z.0 - p.1 * z.1 + c[k].0, p.0 * z.1 + p.1 * z.0 + c[k].1);
    }
    p
}

fn backward_error(c: &[(f64, f64)], z: (f64, f64)) -> f64 {
    let n = (c.len() - 1) as i32;
    let p = horner(c, z);
    let amax = c.iter().map(|a| a.0.hypot(a.1)).fold(0.0, f64::max);
    p.0.hypot(p.1) / (amax * z.0.hypot(z.1).max(1.0).powi(n))
}

const TOL: f64 = 1.0e-12; // ~4500 eps; a backward stable cubic solver gives ~1e-16 here

#[test]
fn cubic_cluster_real_unrefined() {
    let c = [-1.001, 3.002, -3.001, 1.0];
    let p = Polynomial::<f64>::new(c.to_vec());
    let r = p.roots(false);
    assert_eq!(r.size(), 3);
    let cc: Vec<(f64, f64)> = c.iter().map(|&a| (a, 0.0)).collect();
    for i in 0..3 {
        let z = (r[i].real, r[i].imag);
        assert!(z.0.is_finite() && z.1.is_finite());
        let e = backward_error(&cc, z);
        assert!(e <= TOL, "root {} = {:?}: normwise backward error {:e} > {:e}", i, z, e, TOL);
    }
}

#[test]
fn cubic_cluster_complex_unrefined() {
    // the same polynomial through the Complex<f64> entry point
    let c = [-1.001, 3.002, -3.001, 1.0];
    let p = Polynomial::<Cmplx>::new(c.iter().map(|&a| Cmplx::new(a, 0.0)).collect());
    let r = p.roots(false);
    assert_eq!(r.size(), 3);
    let cc: Vec<(f64, f64)> = c.iter().map(|&a| (a, 0.0)).collect();
    for i in 0..3 {
        let z = (r[i].real, r[i].imag);
        let e = backward_error(&cc, z);
        assert!(e <= TOL, "root {} = {:?}: normwise backward error {:e} > {:e}", i, z, e, TOL);
    }
}

#[test]
fn cubic_cluster_refined_is_fine() {
    // control: with refinement the same input is solved to 3e-16 (this test passes on the unmodified crate)
    let c = [-1.001, 3.002, -3.001, 1.0];
    let r = Polynomial::<f64>::new(c.to_vec()).roots(true);
    let cc: Vec<(f64, f64)> = c.iter().map(|&a| (a, 0.0)).collect();
    for i in 0..3 { assert!(backward_error(&cc, (r[i].real, r[i].imag)) <= TOL); }
}
