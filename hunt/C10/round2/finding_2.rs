// C10 finding 2: closed-form cubic (degree 3, refine = false) with mixed coefficient scales (ratio 1e6).
// p(x) = 0.001 x^3 + 1000 x^2 + 1000 x + 0.001   (palindromic: roots r, -1, 1/r with r = -1.000001000002e-6)
// All three roots are real, simple and separated by six orders of magnitude (condition number ~1), yet the
// unrefined root finder returns  -1.0000462680e-6 - 3.03e-10 i  for r (real part off by 4.6e-5 relative, plus a spurious
// imaginary part of relative size 3e-4: 3.5 correct digits) and  -1.0000000000142 + 2.27e-10 i  for -1.
// Normwise backward error 3.1e-10 (1.4e6 eps); the same routine reaches <= 2e-14 for every other degree.
use ohsl::Polynomial;

fn horner(c: &[f64], z: (f64, f64)) -> (f64, f64) {
    let mut p = (c[c.len() - 1], 0.0);
    for k in (0..c.len() - 1).rev() {
        p = (p.0 * z.0 - p.1 * z.1 + c[k], p.0 * z.1 + p.1 * z.0);
    }
    p
}

fn backward_error(c: &[f64], z: (f64, f64)) -> f64 {
    let n = (c.len() - 1) as i32;
    let p = horner(c, z);
    let amax = c.iter().map(|a| a.abs()).fold(0.0, f64::max);
    p.0.hypot(p.1) / (amax * z.0.hypot(z.1).max(1.0).powi(n))
}

const C: [f64; 4] = [0.001, 1000.0, 1000.0, 0.001];

#[test]
fn cubic_mixed_scale_backward_error() {
    let r = Polynomial::<f64>::new(C.to_vec()).roots(false);
    assert_eq!(r.size(), 3);
    for i in 0..3 {
        let z = (r[i].real, r[i].imag);
        assert!(z.0.is_finite() && z.1.is_finite());
        let e = backward_error(&C, z);
        assert!(e <= 1.0e-12, "root {} = {:?}: normwise backward error {:e} > 1e-12", i, z, e);
    }
}

#[test]
fn cubic_mixed_scale_one_to_one() {
    // true roots: x = -1 exactly (0.001*(-1) + 1000 - 1000 + 0.001 = 0); the other two solve
    // 0.001 x^2 + 999.999 x + 0.001 = 0, i.e. r and 1/r with r = -1.000001000002000005e-6
    let truth = [-1.000001000002e-6, -1.0, -999998.999999];
    let r = Polynomial::<f64>::new(C.to_vec()).roots(false);
    let mut used = [false; 3];
    for t in truth.iter() {
        let mut best = f64::INFINITY; let mut bi = 0;
        for i in 0..3 {
            if used[i] { continue; }
            let d = (r[i].real - t).hypot(r[i].imag);
            if d < best { best = d; bi = i; }
        }
        used[bi] = true;
        // well separated, perfectly conditioned roots: ask for 9 correct digits only
        assert!(best <= 1.0e-9 * t.abs(), "true root {:e}: nearest returned value ( {:e}, {:e} ), relative distance {:e}",
            t, r[bi].real, r[bi].imag, best / t.abs());
    }
}

#[test]
fn cubic_mixed_scale_refined_is_fine() {
    // control: passes on the unmodified crate
    let r = Polynomial::<f64>::new(C.to_vec()).roots(true);
    for i in 0..3 { assert!(backward_error(&C, (r[i].real, r[i].imag)) <= 1.0e-12); }
}
