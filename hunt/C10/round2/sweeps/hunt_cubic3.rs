include!("../_hunt/common.inc");
#[test]
fn grid_cubics() {
    let vals: [f64; 17] = [0.0, 1e-3, -1e-3, 1e-2, -1e-2, 0.1, -0.1, 1.0, -1.0, 2.0, -3.0, 10.0, -10.0, 100.0, -100.0, 1e3, -1e3];
    let mut out = vec![];
    for &a in &vals { if a == 0.0 { continue; } for &b in &vals { for &c in &vals { for &d in &vals {
        let cf = vec![d, c, b, a];
        let ms: Vec<f64> = cf.iter().map(|x: &f64| x.abs()).filter(|&x| x>0.0).collect();
        let mx = ms.iter().cloned().fold(0.0,f64::max); let mn = ms.iter().cloned().fold(f64::INFINITY,f64::min);
        if mx/mn > 1.0e6 { continue; }
        let got = solve_real(&cf, false);
        let cc: Vec<(f64,f64)> = cf.iter().map(|&a| (a,0.0)).collect();
        let e = got.iter().map(|z| if z.0.is_finite() && z.1.is_finite() { bwd(&cc, *z) } else { f64::INFINITY }).fold(0.0, f64::max);
        out.push((e, cf, got));
    }}}}
    out.sort_by(|a,b| b.0.partial_cmp(&a.0).unwrap());
    println!("n {} over1e-12 {} over1e-10 {}", out.len(), out.iter().filter(|o| o.0 > 1e-12).count(), out.iter().filter(|o| o.0 > 1e-10).count());
    for o in out.iter().take(12) { println!("{:e} c {:?} got {:?}", o.0, o.1, o.2); }
    // simplest: fewest nonzero coefficients among those over 1e-10
    let mut simple: Vec<_> = out.iter().filter(|o| o.0 > 1e-10).collect();
    simple.sort_by_key(|o| o.1.iter().filter(|&&x| x != 0.0).count());
    for o in simple.iter().take(8) { println!("simple {:e} c {:?} got {:?}", o.0, o.1, o.2); }
}
