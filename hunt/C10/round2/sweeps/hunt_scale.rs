include!("../_hunt/common.inc");
#[test]
fn scale() {
    let polys: Vec<Vec<f64>> = vec![
        vec![-2.0, 1.0], vec![2.0,-3.0,1.0], vec![-6.0,11.0,-6.0,1.0], vec![24.0,-50.0,35.0,-10.0,1.0], vec![-120.0,274.0,-225.0,85.0,-15.0,1.0],
        vec![1.0,0.0,0.0,0.0,0.0,0.0,0.0,1.0,3.0],
    ];
    for p in &polys {
        for &refine in &[false,true] {
            let mut first_bad_hi = None; let mut first_bad_lo = None;
            for k in 0..300 {
                for &sgn in &[1i32,-1] {
                    let s = 10f64.powi(sgn*k);
                    let c: Vec<f64> = p.iter().map(|a| a*s).collect();
                    if c.iter().any(|x| !x.is_finite()) || c[c.len()-1] == 0.0 || c.iter().zip(p.iter()).any(|(x,y)| *y != 0.0 && *x == 0.0) { continue; }
                    let r = std::panic::catch_unwind(|| solve_real(&c, refine));
                    let bad = match r { Err(_) => true, Ok(got) => {
                        let cc: Vec<(f64,f64)> = p.iter().map(|&a| (a,0.0)).collect(); // evaluate with unscaled
                        got.iter().any(|z| !(z.0.is_finite() && z.1.is_finite()) || bwd(&cc,*z) > 1e-9) } };
                    if bad { if sgn > 0 && first_bad_hi.is_none() { first_bad_hi = Some(k); } if sgn < 0 && first_bad_lo.is_none() { first_bad_lo = Some(-k); } }
                }
            }
            println!("deg {} refine {}: first bad scale hi 1e{:?} lo 1e{:?}", p.len()-1, refine, first_bad_hi, first_bad_lo);
        }
    }
}
