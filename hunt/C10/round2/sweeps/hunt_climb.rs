include!("../_hunt/common.inc");
fn ratio_ok(c: &[(f64,f64)]) -> bool {
    let mut mx = 0.0f64; let mut mn = f64::INFINITY;
    for a in c { let m = cabs(a.0,a.1); if m > 0.0 { mx = mx.max(m); mn = mn.min(m); } }
    mx / mn <= 1.0e6 && mx <= 1.0e3 && mn >= 1.0e-3
}
fn score(c: &[(f64,f64)], refine: bool, cplx: bool) -> f64 {
    let got = if cplx { solve_cplx(c, refine) } else { solve_real(&c.iter().map(|a| a.0).collect::<Vec<_>>(), refine) };
    got.iter().map(|z| if z.0.is_finite() && z.1.is_finite() { bwd(c,*z) } else { f64::INFINITY }).fold(0.0, f64::max)
}
#[test]
fn climb() {
    let mut rng = Rng(0xfeedbeef77);
    for deg in 4..=12usize { for &refine in &[false,true] { for &cplx in &[false,true] {
        let mut gbest = 0.0; let mut gc = vec![];
        for _restart in 0..30 {
            let mut c: Vec<(f64,f64)> = (0..=deg).map(|_| { let m = 10f64.powf(rng.uni()*6.0-3.0); if cplx { let t = rng.uni()*6.28; (m*t.cos(), m*t.sin()) } else { (m*rng.sign(), 0.0) } }).collect();
            let mut best = score(&c, refine, cplx);
            for _ in 0..3000 {
                let mut c2 = c.clone();
                let k = rng.range(deg+1);
                match rng.range(5) {
                    0 => { let f = 10f64.powf((rng.uni()-0.5)*2.0); c2[k].0 *= f; c2[k].1 *= f; }
                    1 => { let f = 1.0 + (rng.uni()-0.5)*0.1; c2[k].0 *= f; c2[k].1 *= f; }
                    2 => { let f = 1.0 + (rng.uni()-0.5)*1e-4; c2[k].0 *= f; c2[k].1 *= f; }
                    3 => { if k < deg { c2[k] = (0.0,0.0); } }
                    _ => { c2[k].0 = -c2[k].0; if cplx { let t = rng.uni()*6.28; let m = cabs(c2[k].0,c2[k].1); c2[k] = (m*t.cos(), m*t.sin()); } }
                }
                if c2[deg] == (0.0,0.0) || !ratio_ok(&c2) { continue; }
                let s = score(&c2, refine, cplx);
                if s >= best { best = s; c = c2; }
            }
            if best > gbest { gbest = best; gc = c.clone(); }
        }
        println!("deg {} refine {} cplx {} best {:e} c {:?}", deg, refine, cplx, gbest, gc);
    }}}
}
