include!("../_hunt/common.inc");
fn cmul(a:(f64,f64), b:(f64,f64)) -> (f64,f64) { (a.0*b.0 - a.1*b.1, a.0*b.1 + a.1*b.0) }
fn from_roots(roots: &[(f64,f64)], lead: (f64,f64)) -> Vec<(f64,f64)> {
    let mut c = vec![lead];
    for r in roots {
        let mut n = vec![(0.0,0.0); c.len()+1];
        for k in 0..c.len() { n[k+1].0 += c[k].0; n[k+1].1 += c[k].1; let m = cmul(c[k], (-r.0, -r.1)); n[k].0 += m.0; n[k].1 += m.1; }
        c = n;
    }
    c
}
#[test]
fn high_mult() {
    let mut worst = (0.0, vec![], false);
    let mut n = 0;
    let bases = [(1.0,0.0),(-1.0,0.0),(0.5,0.0),(2.0,0.0),(0.0,1.0),(1.0,1.0),(-0.5,0.25),(3.0,0.0),(0.1,0.0),(0.0,-2.0),(0.7,0.0),(1.3,-0.4)];
    for deg in 4..=12usize { for m in 2..=deg { for b1 in &bases { for b2 in &bases { for b3 in &bases {
        let mut roots = vec![*b1; m];
        let rest = deg - m;
        for i in 0..rest { roots.push(if i % 2 == 0 { *b2 } else { *b3 }); }
        for lead in [(1.0,0.0),(0.3,0.0),(0.0,-7.0)] {
            let c = from_roots(&roots, lead);
            let ms: Vec<f64> = c.iter().map(|x| cabs(x.0,x.1)).filter(|&x| x>0.0).collect();
            let mx = ms.iter().cloned().fold(0.0,f64::max); let mn = ms.iter().cloned().fold(f64::INFINITY,f64::min);
            if mx/mn > 1.0e6 { continue; }
            for &refine in &[false,true] {
                let got = solve_cplx(&c, refine); n += 1;
                assert_eq!(got.len(), deg);
                let e = got.iter().map(|z| if z.0.is_finite() && z.1.is_finite() { bwd(&c,*z) } else { f64::INFINITY }).fold(0.0,f64::max);
                if e > worst.0 || e.is_nan() { worst = (e, c.clone(), refine); }
            }
        }
    }}}}}
    println!("n {} worst {:e} refine {} c {:?}", n, worst.0, worst.2, worst.1);
}
