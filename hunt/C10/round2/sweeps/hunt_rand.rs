include!("../_hunt/common.inc");

fn gen_mag(rng: &mut Rng) -> f64 {
    // log-uniform in [1e-3,1e3], sometimes exactly the extremes, sometimes 0
    match rng.range(10) {
        0 => 0.0,
        1 => 1.0e-3,
        2 => 1.0e3,
        3 => 1.0,
        _ => 10f64.powf(-3.0 + 6.0 * rng.uni()),
    }
}

#[test]
fn sweep_random_coeffs() {
    let mut rng = Rng(0x1234567);
    for deg in 1..=12usize {
        for &refine in &[false, true] {
            for &cplx in &[false, true] {
                let mut worst = 0.0f64; let mut worst_c = vec![]; let mut worst_z = (0.0,0.0);
                let mut bad = 0;
                for _ in 0..20000 {
                    let mut c: Vec<(f64,f64)> = (0..=deg).map(|_| {
                        let m = gen_mag(&mut rng);
                        if cplx {
                            match rng.range(4) { 0 => (m*rng.sign(), 0.0), 1 => (0.0, m*rng.sign()), _ => { let t = rng.uni()*6.283185307; (m*t.cos(), m*t.sin()) } }
                        } else { (m * rng.sign(), 0.0) }
                    }).collect();
                    if c[deg] == (0.0,0.0) { c[deg] = (1.0e-3, 0.0); }
                    let roots = if cplx { solve_cplx(&c, refine) } else { solve_real(&c.iter().map(|a| a.0).collect::<Vec<_>>(), refine) };
                    assert_eq!(roots.len(), deg);
                    for z in &roots {
                        let e = if z.0.is_finite() && z.1.is_finite() { bwd(&c, *z) } else { f64::INFINITY };
                        if e > 1e-11 { bad += 1; }
                        if e > worst || e.is_nan() { worst = e; worst_c = c.clone(); worst_z = *z; }
                    }
                }
                println!("deg {} refine {} cplx {}: worst {:e} bad {} z {:?} c {:?}", deg, refine, cplx, worst, bad, worst_z, worst_c);
            }
        }
    }
}
