include!("../_hunt/common.inc");
#[test]
fn scan() {
    let mut best = (0.0, vec![], vec![]);
    for &r in &[1.0f64, -1.0, 0.5, 2.0] {
      for i in 0..400 {
        let d = 10f64.powf(-1.0 - 6.0 * i as f64 / 400.0);
        for &(m1,m2) in &[(0.0,1.0),(1.0,1.0),(1.0,2.0),(1.0,-1.0),(0.0, -1.0)] {
            let (r1,r2,r3) = (r, r+m1*d, r+m2*d);
            let c = vec![ -r1*r2*r3, r1*r2 + r1*r3 + r2*r3, -(r1+r2+r3), 1.0 ];
            let got = solve_real(&c, false);
            let cc: Vec<(f64,f64)> = c.iter().map(|&a| (a,0.0)).collect();
            let e = got.iter().map(|z| bwd(&cc, *z)).fold(0.0, f64::max);
            if e > best.0 { best = (e, c.clone(), got.clone()); }
        }
      }
    }
    println!("{:e} {:?} {:?}", best.0, best.1, best.2);
    // short-decimal examples
    for c in [ vec![-1.001, 3.002, -3.001, 1.0], vec![-1.002, 3.004, -3.002, 1.0], vec![-1.01, 3.02, -3.01, 1.0], vec![-0.999, 2.998, -2.999, 1.0], vec![-1.1,3.2,-3.1,1.0],
               vec![-1001.0, 3002.0, -3001.0, 1000.0], vec![-101.0, 302.0, -301.0, 100.0], vec![-2002.0, 5003.0, -4001.0, 1000.0] ] {
        for &refine in &[false, true] {
        let got = solve_real(&c, refine);
        let cc: Vec<(f64,f64)> = c.iter().map(|&a| (a,0.0)).collect();
        let e = got.iter().map(|z| bwd(&cc, *z)).fold(0.0, f64::max);
        println!("{:?} refine {} -> {:e} {:?}", c, refine, e, got);
        }
    }
}
