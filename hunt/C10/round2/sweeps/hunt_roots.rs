include!("../_hunt/common.inc");

fn cmul(a:(f64,f64), b:(f64,f64)) -> (f64,f64) { (a.0*b.0 - a.1*b.1, a.0*b.1 + a.1*b.0) }

// coefficients (ascending) of lead * prod (z - r_i)
fn from_roots(roots: &[(f64,f64)], lead: (f64,f64)) -> Vec<(f64,f64)> {
    let mut c = vec![lead];
    for r in roots {
        let mut n = vec![(0.0,0.0); c.len()+1];
        for k in 0..c.len() {
            n[k+1].0 += c[k].0; n[k+1].1 += c[k].1;
            let m = cmul(c[k], (-r.0, -r.1));
            n[k].0 += m.0; n[k].1 += m.1;
        }
        c = n;
    }
    c
}

fn ratio_ok(c: &[(f64,f64)]) -> bool {
    let mut mx = 0.0f64; let mut mn = f64::INFINITY;
    for a in c { let m = cabs(a.0,a.1); if m > 0.0 { mx = mx.max(m); mn = mn.min(m); } }
    mx / mn <= 1.0e6
}

#[test]
fn sweep_from_roots() {
    let mut rng = Rng(0xabcdef12345);
    let deltas = [0.5, 0.1, 1e-2, 1e-3, 1e-4, 1e-6, 1e-8];
    let scales = [1.0, 0.5, 2.0, 0.1, 10.0, 0.01, 100.0, 0.3, 3.0];
    let mut stats: std::collections::BTreeMap<(usize,bool,bool), (f64, Vec<(f64,f64)>, (f64,f64), usize)> = Default::default();
    let mut tried = 0usize;
    for _ in 0..400000 {
        let deg = 4 + rng.range(9);
        let cplx = rng.range(2) == 0;
        let scale = scales[rng.range(scales.len())];
        let mut roots: Vec<(f64,f64)> = vec![];
        while roots.len() < deg {
            let left = deg - roots.len();
            let kind = rng.range(7);
            let base_re = (rng.range(11) as f64 - 5.0) * if rng.range(3)==0 { 0.25 } else { 1.0 };
            let base_im = (rng.range(7) as f64 - 3.0) * if rng.range(3)==0 { 0.25 } else { 1.0 };
            match kind {
                0 => roots.push((base_re, 0.0)),
                1 => { // multiple real root
                    let m = 1 + rng.range(left.min(5)); for _ in 0..m { roots.push((base_re,0.0)); } }
                2 => { // cluster of real roots
                    let m = 1 + rng.range(left.min(4)); let d = deltas[rng.range(deltas.len())];
                    for k in 0..m { roots.push((base_re + d * k as f64, 0.0)); } }
                3 => { // zero roots
                    let m = 1 + rng.range(left.min(3)); for _ in 0..m { roots.push((0.0,0.0)); } }
                4 => { // conj pair or single complex
                    if cplx { roots.push((base_re, base_im)); }
                    else if left >= 2 { roots.push((base_re, base_im)); roots.push((base_re, -base_im)); } }
                5 => { // purely imaginary
                    if cplx { roots.push((0.0, base_im)); }
                    else if left >= 2 { roots.push((0.0, base_im)); roots.push((0.0, -base_im)); } }
                _ => { // multiple complex / conj pairs
                    let m = 1 + rng.range(3);
                    if cplx { for _ in 0..m.min(left) { roots.push((base_re, base_im)); } }
                    else { for _ in 0..m { if deg - roots.len() >= 2 { roots.push((base_re, base_im)); roots.push((base_re, -base_im)); } } } }
            }
        }
        for r in roots.iter_mut() { r.0 *= scale; r.1 *= scale; }
        let lead = if cplx { let t = rng.uni()*6.2831853; let m = 10f64.powf(rng.uni()*2.0-1.0); (m*t.cos(), m*t.sin()) } else { (rng.sign() * 10f64.powf(rng.uni()*2.0-1.0), 0.0) };
        let c = from_roots(&roots, lead);
        if !ratio_ok(&c) { continue; }
        tried += 1;
        for &refine in &[false,true] {
            let got = if cplx { solve_cplx(&c, refine) } else { solve_real(&c.iter().map(|a| a.0).collect::<Vec<_>>(), refine) };
            assert_eq!(got.len(), deg);
            let e = stats.entry((deg,refine,cplx)).or_insert((0.0, vec![], (0.0,0.0), 0));
            for z in &got {
                let err = if z.0.is_finite() && z.1.is_finite() { bwd(&c, *z) } else { f64::INFINITY };
                if err > 1e-11 { e.3 += 1; }
                if err > e.0 || err.is_nan() { e.0 = err; e.1 = c.clone(); e.2 = *z; }
            }
        }
    }
    println!("tried {}", tried);
    for (k,v) in &stats { println!("{:?}: worst {:e} bad {} z {:?}\n    c {:?}", k, v.0, v.3, v.2, v.1); }
}
