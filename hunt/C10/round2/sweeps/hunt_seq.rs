include!("../_hunt/common.inc");
fn check(c: &[f64], got: &ohsl::Vector<Cmplx>, tag: &str) {
    let cc: Vec<(f64,f64)> = c.iter().map(|&a| (a,0.0)).collect();
    assert_eq!(got.size(), c.len()-1, "{}", tag);
    for i in 0..got.size() { let z = (got[i].real, got[i].imag); let e = bwd(&cc, z); assert!(e < 1e-12, "{} {:?} {:e}", tag, z, e); }
}
#[test]
fn sequences() {
    // constructors
    let q = Polynomial::<f64>::quadratic(2.0, -3.0, 1.0); check(&[1.0,-3.0,2.0], &q.roots(false), "quadratic ctor");
    let c = Polynomial::<f64>::cubic(1.0, -6.0, 11.0, -6.0); check(&[-6.0,11.0,-6.0,1.0], &c.roots(false), "cubic ctor");
    // product, owned and borrowed
    let pq = &q * &c; check(&[-6.0, 29.0, -51.0, 41.0, -15.0, 2.0], &pq.roots(false), "borrowed product");
    let pq2 = q.clone() * c.clone(); check(&[-6.0, 29.0, -51.0, 41.0, -15.0, 2.0], &pq2.roots(true), "owned product");
    // edit then query, repeatedly, both accessors
    let mut p = Polynomial::<f64>::new(vec![1.0, 0.0, 0.0, 0.0, 1.0]);
    let r1 = p.roots(true); check(&[1.0,0.0,0.0,0.0,1.0], &r1, "x^4+1");
    p[0] = 0.0; check(&[0.0,0.0,0.0,0.0,1.0], &p.roots(true), "x^4");
    check(&[0.0,0.0,0.0,0.0,1.0], &p.roots(false), "x^4 unrefined");
    p.coeffs()[1] = -1.0; check(&[0.0,-1.0,0.0,0.0,1.0], &p.roots(true), "x^4-x");
    p.coeffs().push(3.0); check(&[0.0,-1.0,0.0,0.0,1.0,3.0], &p.roots(false), "3x^5+x^4-x");
    p.coeffs().push(0.0); p.trim(); check(&[0.0,-1.0,0.0,0.0,1.0,3.0], &p.roots(false), "after trim");
    // scalar multiple, negation, sum, difference
    let s = &p * 1.0e3; check(&[0.0,-1.0e3,0.0,0.0,1.0e3,3.0e3], &s.roots(false), "scaled");
    let n = -&p; check(&[0.0,1.0,0.0,0.0,-1.0,-3.0], &n.roots(true), "neg");
    let d = &p - &c; check(&[6.0,-12.0,6.0,-1.0,1.0,3.0], &d.roots(false), "diff");
    // quotient of polydiv
    let (quo, _rem) = pq.polydiv(&q).unwrap();
    let mut qq = quo.clone(); let qc: Vec<f64> = qq.coeffs().clone(); check(&qc, &quo.roots(false), "quotient");
    // derivative
    let dp = pq.derivative(); let mut dd = dp.clone(); let dc: Vec<f64> = dd.coeffs().clone(); check(&dc, &dp.roots(true), "derivative");
    // repeated calls give identical results
    let a = pq.roots(true); let b = pq.roots(true); for i in 0..a.size() { assert!(a[i] == b[i]); }
}
#[test] #[should_panic] fn degree0_rejected() { Polynomial::<f64>::new(vec![3.0]).roots(true); }
#[test] #[should_panic] fn degree0_rejected_c() { Polynomial::<Cmplx>::new(vec![Cmplx::new(0.0,3.0)]).roots(false); }
#[test] #[should_panic] fn empty_rejected() { Polynomial::<f64>::empty().roots(false); }
