include!("../_hunt/common.inc");
#[test]
fn tiny_root() {
    for c in [ vec![1e-6, 1.0, 1.0, 1e-6], vec![1e-3, 1e3, 1e3, 1e-3], vec![-1e-3, 1e3, -1e3, 1e-3], vec![1e-3, 1.0, 1e3, 1e-3], vec![1e-3, 1e3, 1.0, 1e-3], vec![1.0, 1e6, 1e6, 1.0], vec![1.0, -1e6, 1e6, 1.0], vec![1.0, 1e6, 1.0, 1.0], vec![1.0, 1e6, 0.0, 1.0]] {
        for &refine in &[false, true] {
        let got = solve_real(&c, refine);
        let cc: Vec<(f64,f64)> = c.iter().map(|&a| (a,0.0)).collect();
        let e = got.iter().map(|z| bwd(&cc, *z)).fold(0.0, f64::max);
        println!("{:?} refine {} -> {:e} {:?}", c, refine, e, got);
        }
    }
}
