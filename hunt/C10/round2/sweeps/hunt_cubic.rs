include!("../_hunt/common.inc");
fn cmul(a:(f64,f64), b:(f64,f64)) -> (f64,f64) { (a.0*b.0 - a.1*b.1, a.0*b.1 + a.1*b.0) }
fn from_roots(roots: &[(f64,f64)], lead: (f64,f64)) -> Vec<(f64,f64)> {
    let mut c = vec![lead];
    for r in roots {
        let mut n = vec![(0.0,0.0); c.len()+1];
        for k in 0..c.len() {
            n[k+1].0 += c[k].0; n[k+1].1 += c[k].1;
            let m = cmul(c[k], (-r.0, -r.1));
            n[k].0 += m.0; n[k].1 += m.1;
        }
        c = n;
    }
    c
}
fn ratio(c: &[(f64,f64)]) -> f64 {
    let mut mx = 0.0f64; let mut mn = f64::INFINITY;
    for a in c { let m = cabs(a.0,a.1); if m > 0.0 { mx = mx.max(m); mn = mn.min(m); } }
    mx / mn
}
#[test]
fn cubic_clusters() {
    let mut rng = Rng(0x5555aaaa1234);
    let mut worst = [(0.0f64, vec![], (0.0,0.0)), (0.0f64, vec![], (0.0,0.0))];
    let mut hist = [[0usize; 8]; 2];
    for _ in 0..2000000 {
        let cplx = rng.range(2)==0;
        let r = ( (rng.range(41) as f64 - 20.0) * 0.25, if cplx { (rng.range(41) as f64 - 20.0) * 0.25 } else { 0.0 } );
        let d1 = 10f64.powf(-(rng.range(10) as f64)) * (1.0 + rng.range(4) as f64) * rng.sign() * if rng.range(5)==0 {0.0} else {1.0};
        let d2 = 10f64.powf(-(rng.range(10) as f64)) * (1.0 + rng.range(4) as f64) * rng.sign() * if rng.range(5)==0 {0.0} else {1.0};
        let dir1 = if cplx { let t = rng.uni()*6.28; (t.cos(), t.sin()) } else { (1.0, 0.0) };
        let dir2 = if cplx { let t = rng.uni()*6.28; (t.cos(), t.sin()) } else { (1.0, 0.0) };
        let s = 10f64.powf(rng.uni()*4.0 - 2.0);
        let roots = if !cplx && rng.range(3)==0 {
            // real root + conjugate pair close to it
            vec![(r.0*s,0.0), ((r.0+d1)*s, d2*s), ((r.0+d1)*s, -d2*s)]
        } else {
            vec![(r.0*s, r.1*s), ((r.0 + d1*dir1.0)*s, (r.1 + d1*dir1.1)*s), ((r.0 + d2*dir2.0)*s, (r.1 + d2*dir2.1)*s)]
        };
        let lead = if cplx { let t = rng.uni()*6.28; (t.cos(), t.sin()) } else { (rng.sign()*10f64.powf(rng.uni()*2.0-1.0), 0.0) };
        let c = from_roots(&roots, lead);
        if ratio(&c) > 1.0e6 { continue; }
        for (ri,&refine) in [false,true].iter().enumerate() {
            let got = if cplx { solve_cplx(&c, refine) } else { solve_real(&c.iter().map(|a| a.0).collect::<Vec<_>>(), refine) };
            for z in &got {
                let e = if z.0.is_finite() && z.1.is_finite() { bwd(&c, *z) } else { f64::INFINITY };
                let b = if e < 1e-15 {0} else if e < 1e-14 {1} else if e < 1e-13 {2} else if e < 1e-12 {3} else if e < 1e-11 {4} else if e < 1e-10 {5} else if e < 1e-9 {6} else {7};
                hist[ri][b] += 1;
                if e > worst[ri].0 || e.is_nan() { worst[ri] = (e, c.clone(), *z); }
            }
        }
    }
    println!("hist refine=false {:?}\nhist refine=true {:?}", hist[0], hist[1]);
    for w in &worst { println!("worst {:e} z {:?} c {:?}", w.0, w.2, w.1); }
}
