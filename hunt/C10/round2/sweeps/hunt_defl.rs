include!("../_hunt/common.inc");
#[test]
fn defl() {
    let mut worst = (0.0f64, vec![], vec![]);
    for n in 4..=12usize {
        for &r in &[1.01f64, 1.001, 1.1, 1.5, 2.0, 1.0000001, -1.01, -1.3] {
            for &big in &[1e6f64, 9e5, 1e5, 1e4, 123456.0, 5e5] {
                for &sg in &[1.0f64, -1.0] {
                // (x - r)(x^(n-1) - sg*big/r) : constant term = big (ratio big)
                let q0 = -sg * big / r.abs();
                let mut c = vec![0.0; n+1];
                c[n] = 1.0; c[n-1] = -r; c[1] += q0; c[0] = -r*q0;
                let mx = c.iter().map(|x: &f64| x.abs()).fold(0.0, f64::max); let mn = c.iter().map(|x: &f64| x.abs()).filter(|&x| x > 0.0).fold(f64::INFINITY, f64::min);
                if mx/mn > 1e6 { continue; }
                let got = solve_real(&c, false);
                // true large roots: modulus R = |q0|^(1/(n-1)), angles
                let rr = q0.abs().powf(1.0/((n-1) as f64));
                let mut maxrel = 0.0f64;
                for k in 0..(n-1) {
                    let th = (if q0 < 0.0 { 2.0*k as f64 } else { 2.0*k as f64 + 1.0 }) * std::f64::consts::PI / ((n-1) as f64);
                    let t = (rr*th.cos(), rr*th.sin());
                    let d = got.iter().map(|z| cabs(z.0-t.0, z.1-t.1)).fold(f64::INFINITY, f64::min);
                    maxrel = maxrel.max(d/rr);
                }
                if maxrel > worst.0 { worst = (maxrel, c.clone(), got.clone()); }
                }
            }
        }
    }
    println!("worst rel err of large roots {:e}\n c {:?}\n got {:?}", worst.0, worst.1, worst.2);
}
