include!("../_hunt/common.inc");
fn cmul(a:(f64,f64), b:(f64,f64)) -> (f64,f64) { (a.0*b.0 - a.1*b.1, a.0*b.1 + a.1*b.0) }
fn from_roots(roots: &[(f64,f64)], lead: (f64,f64)) -> Vec<(f64,f64)> {
    let mut c = vec![lead];
    for r in roots {
        let mut n = vec![(0.0,0.0); c.len()+1];
        for k in 0..c.len() {
            n[k+1].0 += c[k].0; n[k+1].1 += c[k].1;
            let m = cmul(c[k], (-r.0, -r.1));
            n[k].0 += m.0; n[k].1 += m.1;
        }
        c = n;
    }
    c
}
fn ratio(c: &[(f64,f64)]) -> f64 {
    let mut mx = 0.0f64; let mut mn = f64::INFINITY;
    for a in c { let m = cabs(a.0,a.1); if m > 0.0 { mx = mx.max(m); mn = mn.min(m); } }
    mx / mn
}

#[test]
fn sweep_corr() {
    let mut rng = Rng(0x9e3779b97f4a7c15);
    let mut worst: std::collections::BTreeMap<(usize,bool), (f64, Vec<(f64,f64)>, Vec<(f64,f64)>)> = Default::default();
    let mut tried = 0;
    for _ in 0..300000 {
        let deg = 2 + rng.range(11);
        let cplx = rng.range(2) == 0;
        // distinct Gaussian-integer roots (all products exact in f64 as long as coefficients < 2^53)
        let mut roots: Vec<(f64,f64)> = vec![];
        let span = 2 + rng.range(6) as i64;
        let mut guard = 0;
        while roots.len() < deg && guard < 1000 {
            guard += 1;
            let re = (rng.range((2*span+1) as usize) as i64 - span) as f64;
            let im = if rng.range(2)==0 { 0.0 } else { (rng.range((2*span+1) as usize) as i64 - span) as f64 };
            let cand: Vec<(f64,f64)> = if cplx || im == 0.0 { vec![(re,im)] } else { vec![(re,im),(re,-im)] };
            if roots.len() + cand.len() > deg { continue; }
            if cand.iter().any(|c| roots.contains(c)) { continue; }
            roots.extend(cand);
        }
        if roots.len() < deg { continue; }
        let lead = (((1 + rng.range(3)) as f64) * rng.sign(), 0.0);
        let c = from_roots(&roots, lead);
        if ratio(&c) > 1.0e6 { continue; }
        if c.iter().any(|a| a.0.abs() > 4.0e15 || a.1.abs() > 4.0e15) { continue; }
        tried += 1;
        for &refine in &[false,true] {
            let got = if cplx { solve_cplx(&c, refine) } else { solve_real(&c.iter().map(|a| a.0).collect::<Vec<_>>(), refine) };
            // greedy matching: for each true root nearest unused computed root
            let mut used = vec![false; deg];
            let mut maxd = 0.0f64;
            for r in &roots {
                let mut best = f64::INFINITY; let mut bi = 0;
                for (i,z) in got.iter().enumerate() { if used[i] { continue; } let d = cabs(z.0-r.0, z.1-r.1); if d < best { best = d; bi = i; } }
                used[bi] = true; maxd = maxd.max(best);
            }
            let e = worst.entry((deg,refine)).or_insert((0.0, vec![], vec![]));
            if maxd > e.0 || maxd.is_nan() { *e = (maxd, c.clone(), got.clone()); }
        }
    }
    println!("tried {}", tried);
    for (k,v) in &worst { println!("{:?}: worst match dist {:e}\n   c {:?}\n   got {:?}", k, v.0, v.1, v.2); }
}
