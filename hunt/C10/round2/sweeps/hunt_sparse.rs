include!("../_hunt/common.inc");
#[test]
fn sparse_sweep() {
    let vals: Vec<(f64,f64)> = {
        let mags = [1e-3, 0.1, 1.0, 7.0, 1e3];
        let mut v = vec![];
        for &m in &mags { v.push((m,0.0)); v.push((-m,0.0)); v.push((0.0,m)); v.push((0.0,-m)); v.push((m*0.6, m*0.8)); }
        v
    };
    let mut worst = (0.0f64, vec![], (0.0,0.0), false);
    let mut count = 0usize; let mut bad = 0usize;
    for n in 4..=12usize {
        for m1 in 0..n { for m2 in 0..=m1 {
            for lead in &vals { for a in &vals { for b in &vals {
                if m2 == m1 && a != b { continue; }
                let mut c = vec![(0.0,0.0); n+1];
                c[n] = *lead; c[m1] = *a; if m2 != m1 { c[m2] = *b; }
                // ratio check
                let ms: Vec<f64> = c.iter().map(|x| cabs(x.0,x.1)).filter(|&x| x>0.0).collect();
                let mx = ms.iter().cloned().fold(0.0,f64::max); let mn = ms.iter().cloned().fold(f64::INFINITY,f64::min);
                if mx/mn > 1.0e6 { continue; }
                let real = c.iter().all(|x| x.1 == 0.0);
                for &refine in &[false,true] {
                    let got = if real { solve_real(&c.iter().map(|x| x.0).collect::<Vec<_>>(), refine) } else { solve_cplx(&c, refine) };
                    count += 1;
                    for z in &got {
                        let e = if z.0.is_finite() && z.1.is_finite() { bwd(&c,*z) } else { f64::INFINITY };
                        if e > 1e-12 { bad += 1; }
                        if e > worst.0 || e.is_nan() { worst = (e, c.clone(), *z, refine); }
                    }
                }
            }}}
        }}
        println!("n {} count {} bad {} worst {:e} z {:?} refine {} c {:?}", n, count, bad, worst.0, worst.2, worst.3, worst.1);
    }
}
