include!("../_hunt/common.inc");
#[test]
fn simple_cubics() {
    // (x - r)^2 (x - r - d) for simple r, d, and (x-r)(x-r-d)(x-r-2d)
    let mut out = vec![];
    for &r in &[1.0f64, 2.0, 3.0, 0.5, 10.0, -1.0, 7.0] {
        for k in 1..10 {
            let d = 10f64.powi(-k);
            for &(m1, m2) in &[(0.0,1.0),(1.0,2.0),(1.0,-1.0),(1.0,1.0)] {
                let (r1,r2,r3) = (r, r + m1*d, r + m2*d);
                let c = vec![ -r1*r2*r3, r1*r2 + r1*r3 + r2*r3, -(r1+r2+r3), 1.0 ];
                let got = solve_real(&c, false);
                let cc: Vec<(f64,f64)> = c.iter().map(|&a| (a,0.0)).collect();
                let e = got.iter().map(|z| bwd(&cc, *z)).fold(0.0, f64::max);
                out.push((e, c, got));
            }
        }
    }
    out.sort_by(|a,b| b.0.partial_cmp(&a.0).unwrap());
    for o in out.iter().take(15) { println!("{:e} c {:?} got {:?}", o.0, o.1, o.2); }
}
#[test]
fn integer_cubics() {
    // all cubics with small integer coefficients
    let mut out = vec![];
    let n = 12i32;
    for a in 1..=3 { for b in -n..=n { for c in -n..=n { for d in -n..=n {
        let cf = vec![d as f64, c as f64, b as f64, a as f64];
        let got = solve_real(&cf, false);
        let cc: Vec<(f64,f64)> = cf.iter().map(|&a| (a,0.0)).collect();
        let e = got.iter().map(|z| if z.0.is_finite() && z.1.is_finite() { bwd(&cc, *z) } else { f64::INFINITY }).fold(0.0, f64::max);
        out.push((e, cf, got));
    }}}}
    out.sort_by(|a,b| b.0.partial_cmp(&a.0).unwrap());
    for o in out.iter().take(15) { println!("{:e} c {:?} got {:?}", o.0, o.1, o.2); }
}
