include!("../_hunt/common.inc");
fn cmul(a:(f64,f64), b:(f64,f64)) -> (f64,f64) { (a.0*b.0 - a.1*b.1, a.0*b.1 + a.1*b.0) }
fn from_roots(roots: &[(f64,f64)], lead: (f64,f64)) -> Vec<(f64,f64)> {
    let mut c = vec![lead];
    for r in roots {
        let mut n = vec![(0.0,0.0); c.len()+1];
        for k in 0..c.len() {
            n[k+1].0 += c[k].0; n[k+1].1 += c[k].1;
            let m = cmul(c[k], (-r.0, -r.1));
            n[k].0 += m.0; n[k].1 += m.1;
        }
        c = n;
    }
    c
}
fn ratio(c: &[(f64,f64)]) -> f64 {
    let mut mx = 0.0f64; let mut mn = f64::INFINITY;
    for a in c { let m = cabs(a.0,a.1); if m > 0.0 { mx = mx.max(m); mn = mn.min(m); } }
    mx / mn
}
#[test]
fn corr_mixed_scale() {
    let mut rng = Rng(0x77777777abc);
    let mut worst: std::collections::BTreeMap<(usize,bool), (f64, Vec<(f64,f64)>, Vec<(f64,f64)>, Vec<(f64,f64)>)> = Default::default();
    let mut tried = 0;
    for _ in 0..600000 {
        let deg = 3 + rng.range(10);
        let cplx = rng.range(2)==0;
        let mut roots: Vec<(f64,f64)> = vec![];
        let lo = -2.0 - rng.uni(); let hi = rng.uni()*2.5;
        let mut guard = 0;
        while roots.len() < deg && guard < 200 {
            guard += 1;
            let m = 10f64.powf(lo + (hi-lo)*rng.uni());
            let cand: Vec<(f64,f64)> = match rng.range(4) {
                0 => vec![(m*rng.sign(), 0.0)],
                1 => if cplx { vec![(0.0, m*rng.sign())] } else { vec![(0.0,m),(0.0,-m)] },
                _ => { let t = rng.uni()*6.2831853; if cplx { vec![(m*t.cos(), m*t.sin())] } else { vec![(m*t.cos(), m*t.sin()), (m*t.cos(), -m*t.sin())] } }
            };
            if roots.len() + cand.len() > deg { continue; }
            // separation: relative distance to every other root at least 0.3 of the larger modulus... use min modulus to keep well-conditioned
            let ok = cand.iter().all(|c| roots.iter().all(|r| cabs(c.0-r.0,c.1-r.1) >= 0.3 * cabs(c.0,c.1).max(cabs(r.0,r.1))))
                && (cand.len() == 1 || cabs(0.0, 2.0*cand[0].1) >= 0.3*m);
            if !ok { continue; }
            roots.extend(cand);
        }
        if roots.len() < deg { continue; }
        let lead = (rng.sign()*10f64.powf(rng.uni()*2.0-1.0), 0.0);
        let c = from_roots(&roots, lead);
        if ratio(&c) > 1.0e6 { continue; }
        tried += 1;
        // first-order forward error bound per root
        let tol: Vec<f64> = roots.iter().enumerate().map(|(i,r)| {
            let mut s = 0.0; let ar = cabs(r.0,r.1); for (k,a) in c.iter().enumerate() { s += cabs(a.0,a.1) * ar.powi(k as i32); }
            let mut dp = cabs(lead.0, lead.1); for (j,q) in roots.iter().enumerate() { if j != i { dp *= cabs(r.0-q.0, r.1-q.1); } }
            (deg as f64) * 2.2e-16 * s / dp
        }).collect();
        for &refine in &[false,true] {
            let got = if cplx { solve_cplx(&c, refine) } else { solve_real(&c.iter().map(|a| a.0).collect::<Vec<_>>(), refine) };
            let mut used = vec![false; deg];
            let mut maxq = 0.0f64;
            for (i,r) in roots.iter().enumerate() {
                let mut best = f64::INFINITY; let mut bi = 0;
                for (k,z) in got.iter().enumerate() { if used[k] { continue; } let d = cabs(z.0-r.0, z.1-r.1); if d < best { best = d; bi = k; } }
                used[bi] = true; maxq = maxq.max(best / tol[i]);
            }
            let e = worst.entry((deg,refine)).or_insert((0.0, vec![], vec![], vec![]));
            if maxq > e.0 || maxq.is_nan() { *e = (maxq, c.clone(), got.clone(), roots.clone()); }
        }
    }
    println!("tried {}", tried);
    for (k,v) in &worst { println!("{:?}: worst dist/condition-bound {:e}\n   c {:?}\n   got {:?}\n   true {:?}", k, v.0, v.1, v.2, v.3); }
}
