// C10 finding 1: with refinement a well-separated simple root is returned twice (or n times) and other roots are missing.
use ohsl::Polynomial;

fn polymul(a: &[f64], b: &[f64]) -> Vec<f64> {
    let mut r = vec![0.0; a.len() + b.len() - 1];
    for i in 0..a.len() { for j in 0..b.len() { r[i + j] += a[i] * b[j]; } }
    r
}
// (x - a)^k - delta^k: k simple roots a + delta exp(2 pi i j / k)
fn ring(a: f64, k: usize, delta: f64) -> Vec<f64> {
    let mut f = vec![1.0];
    for _ in 0..k { f = polymul(&f, &[-a, 1.0]); }
    f[0] -= delta.powi(k as i32);
    f
}
fn near(roots: &[(f64, f64)], t: (f64, f64), tol: f64) -> usize {
    roots.iter().filter(|z| (z.0 - t.0).hypot(z.1 - t.1) < tol).count()
}
fn solve(co: &[f64], refine: bool) -> Vec<(f64, f64)> {
    let r = Polynomial::<f64>::new(co.to_vec()).roots(refine);
    (0..r.size()).map(|i| (r[i].real, r[i].imag)).collect()
}

// p(x) = ((x + 8)^6 - 0.5^6)(x + 1), degree 7, real coefficients 1 ... 458752 (all exactly representable):
// seven simple roots -1 and -8 + 0.5 exp(i pi j / 3), pairwise at least 0.5 apart, each determined to 1e-7 by the f64 data
#[test]
fn ring_of_six_and_one_more_root_refined() {
    let co = polymul(&ring(-8.0, 6, 0.5), &[1.0, 1.0]);
    assert_eq!(co, vec![262143.984375, 458751.984375, 258048.0, 71680.0, 11200.0, 1008.0, 49.0, 1.0]);
    let r = solve(&co, true);
    assert_eq!(r.len(), 7);
    let mut truth = vec![(-1.0, 0.0)];
    for j in 0..6 { let t = std::f64::consts::PI * j as f64 / 3.0; truth.push((-8.0 + 0.5 * t.cos(), 0.5 * t.sin())); }
    for t in &truth {
        assert_eq!(near(&r, *t, 0.1), 1, "true root {:?} is matched by {} of the returned values {:?}", t, near(&r, *t, 0.1), r);
    }
}

// p(x) = ((x - 0.75)^9 - 0.05^9)(x - 0.25), degree 10: nine roots on the circle of radius 0.05 about 0.75 and the root 0.25
#[test]
fn ring_of_nine_and_one_more_root_refined() {
    let co = polymul(&ring(0.75, 9, 0.05), &[-0.25, 1.0]);
    let r = solve(&co, true);
    assert_eq!(r.len(), 10);
    assert_eq!(near(&r, (0.25, 0.0), 0.1), 1, "the simple root 0.25 is returned {} times: {:?}", near(&r, (0.25, 0.0), 0.1), r);
    assert_eq!(near(&r, (0.75, 0.0), 0.1), 9, "{} instead of 9 values at the ring about 0.75: {:?}", near(&r, (0.75, 0.0), 0.1), r);
}
