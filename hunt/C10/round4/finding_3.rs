// C10 finding 3: without refinement the centre of a ring of well-separated simple roots is returned as a root and the
// other values are 0.17 away from every root ( the roots are 0.43 apart and determined to 1e-7 by the data ).
use ohsl::Polynomial;

fn polymul(a: &[f64], b: &[f64]) -> Vec<f64> {
    let mut r = vec![0.0; a.len() + b.len() - 1];
    for i in 0..a.len() { for j in 0..b.len() { r[i + j] += a[i] * b[j]; } }
    r
}
fn ring(a: f64, k: usize, delta: f64) -> Vec<f64> {
    let mut f = vec![1.0];
    for _ in 0..k { f = polymul(&f, &[-a, 1.0]); }
    f[0] -= delta.powi(k as i32);
    f
}

// p(x) = ((x - 4)^7 - 0.5^7)(x - 1)(x - 2)(x - 2.5), degree 10, real coefficients 1 ... 470016 (exact in f64):
// ten simple roots 1, 2, 2.5 and 4 + 0.5 exp(2 pi i j / 7), pairwise at least 0.43 apart
#[test]
fn ring_of_seven_and_three_more_roots_unrefined() {
    let co = polymul(&polymul(&polymul(&ring(4.0, 7, 0.5), &[-1.0, 1.0]), &[-2.0, 1.0]), &[-2.5, 1.0]);
    assert_eq!(co, vec![81920.0390625, -299008.07421875, 470016.04296875, -423168.0078125, 243264.0, -93744.0, 24612.0, -4359.0, 499.5, -33.5, 1.0]);
    let r = Polynomial::<f64>::new(co.clone()).roots(false);
    assert_eq!(r.size(), 10);
    let got: Vec<(f64, f64)> = (0..10).map(|i| (r[i].real, r[i].imag)).collect();
    let mut truth = vec![(1.0, 0.0), (2.0, 0.0), (2.5, 0.0)];
    for j in 0..7 { let t = 2.0 * std::f64::consts::PI * j as f64 / 7.0; truth.push((4.0 + 0.5 * t.cos(), 0.5 * t.sin())); }
    // every returned value lies next to a root ( tolerance: a quarter of the smallest distance between two roots,
    // a million times the sensitivity of the roots to rounding of the coefficients ) ...
    for z in &got {
        let d = truth.iter().map(|t| (z.0 - t.0).hypot(z.1 - t.1)).fold(f64::INFINITY, f64::min);
        assert!(d < 0.1, "returned value {:?} is {:.3} away from the nearest root; all values: {:?}", z, d, got);
    }
    // ... and every root is returned exactly once
    for t in &truth {
        let c = got.iter().filter(|z| (z.0 - t.0).hypot(z.1 - t.1) < 0.1).count();
        assert_eq!(c, 1, "root {:?} is matched by {} returned values: {:?}", t, c, got);
    }
}
