// C10 finding 4: with refinement a fivefold root loses one of its five values to a simple root two units away.
use ohsl::Polynomial;

fn near(roots: &[(f64, f64)], t: f64, tol: f64) -> usize {
    roots.iter().filter(|z| (z.0 - t).hypot(z.1) < tol).count()
}

// the f64 coefficients of (x - 3.3)^5 (x - 1.3) ( multiplied out in f64, each within 2 ulp of the exact value ): by
// Rouche's theorem the polynomial with exactly these coefficients has five zeros in |z - 3.3| < 0.5 and one in |z - 1.3| < 0.5
#[test]
fn fivefold_root_and_a_simple_root_refined() {
    let co = vec![508.76010899999994, -1162.20258, 1060.1414999999997, -500.93999999999994, 130.34999999999997, -17.8, 1.0];
    for refine in [false, true] {
        let r = Polynomial::<f64>::new(co.clone()).roots(refine);
        assert_eq!(r.size(), 6);
        let got: Vec<(f64, f64)> = (0..6).map(|i| (r[i].real, r[i].imag)).collect();
        assert_eq!(near(&got, 1.3, 0.5), 1, "refine = {}: the simple root 1.3 is returned {} times: {:?}", refine, near(&got, 1.3, 0.5), got);
        assert_eq!(near(&got, 3.3, 0.5), 5, "refine = {}: the fivefold root 3.3 is returned {} times: {:?}", refine, near(&got, 3.3, 0.5), got);
    }
}

// 1000 x (x + 4.5)^6 with a relative perturbation of 1e-14 in one coefficient: the root 0 must be returned once
#[test]
fn sixfold_root_and_the_root_zero_refined() {
    let co = vec![0.0, 8303765.624999908, 11071687.5, 6150937.5, 1822500.0, 303750.0, 27000.0, 1000.0];
    let r = Polynomial::<f64>::new(co.clone()).roots(true);
    assert_eq!(r.size(), 7);
    let got: Vec<(f64, f64)> = (0..7).map(|i| (r[i].real, r[i].imag)).collect();
    assert_eq!(near(&got, 0.0, 0.5), 1, "the simple root 0 is returned {} times: {:?}", near(&got, 0.0, 0.5), got);
    assert_eq!(near(&got, -4.5, 0.5), 6, "the sixfold root -4.5 is returned {} times: {:?}", near(&got, -4.5, 0.5), got);
}
