// C10 finding 2: without refinement values with a normwise backward error of 5e-7 are returned (ring of roots next to a close pair).
use ohsl::Polynomial;

fn polymul(a: &[f64], b: &[f64]) -> Vec<f64> {
    let mut r = vec![0.0; a.len() + b.len() - 1];
    for i in 0..a.len() { for j in 0..b.len() { r[i + j] += a[i] * b[j]; } }
    r
}
fn ring(a: f64, k: usize, delta: f64) -> Vec<f64> {
    let mut f = vec![1.0];
    for _ in 0..k { f = polymul(&f, &[-a, 1.0]); }
    f[0] -= delta.powi(k as i32);
    f
}
// normwise backward error of z: |p(z)| / ( max_k |a_k| * sum_k |z|^k ), the smallest relative (max-norm) change of the
// coefficient vector that makes z an exact zero
fn backward_error(co: &[f64], z: (f64, f64)) -> f64 {
    let n = co.len() - 1;
    let (mut pr, mut pi) = (co[n], 0.0);
    let az = z.0.hypot(z.1);
    let mut s = 1.0;
    for k in (0..n).rev() {
        let (r, i) = (pr * z.0 - pi * z.1 + co[k], pr * z.1 + pi * z.0);
        pr = r; pi = i;
        s = s * az + 1.0;
    }
    let amax = co.iter().fold(0.0f64, |m, c| m.max(c.abs()));
    pr.hypot(pi) / (amax * s)
}
fn check(co: &[f64]) {
    let r = Polynomial::<f64>::new(co.to_vec()).roots(false);
    assert_eq!(r.size(), co.len() - 1);
    for i in 0..r.size() {
        let z = (r[i].real, r[i].imag);
        assert!(z.0.is_finite() && z.1.is_finite());
        let be = backward_error(co, z);
        assert!(be <= 1.0e-10, "returned value {:?} has normwise backward error {:.2e}", z, be);
    }
}

// 7 ((x + 1)^10 - 0.5^10)((x + 0.5)^2 - 1e-6), degree 12, coefficients 1.7 ... 3601: ten roots on the circle of radius 0.5
// about -1 ( one of them, -0.5, between the close pair -0.499, -0.501 )
#[test]
fn ring_of_ten_next_to_a_close_pair_unrefined() {
    let mut co = polymul(&ring(-1.0, 10, 0.5), &[0.25 - 1.0e-6, 1.0, 1.0]);
    for c in co.iter_mut() { *c *= 7.0; }
    check(&co);
}

// ((x + 1)^8 - 0.4^8)(x + 1.4)^2, degree 10: the ring root -1.4 is a triple root
#[test]
fn ring_of_eight_with_a_triple_root_unrefined() {
    let co = polymul(&ring(-1.0, 8, 0.4), &[1.96, 2.8, 1.0]);
    check(&co);
}
