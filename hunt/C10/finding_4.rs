// C10 finding 4: with refine=true every returned value is a zero, but they are NOT in one-to-one
// correspondence with the roots: for x^12 + 6e-4 x^7 + 8e-6 x + 8e-6 (twelve simple roots,
// pairwise distance >= 0.17) one root is returned five times, another twice, and five roots are missing.
use ohsl::{Cmplx, Polynomial};

fn cabs(z: Cmplx) -> f64 {
    z.real.hypot(z.imag)
}

fn coeffs() -> Vec<f64> {
    let mut c = vec![0.0; 13];
    c[12] = 1.0;
    c[7] = 6e-4;
    c[1] = 8e-6;
    c[0] = 8e-6;
    c
}

fn eval(c: &[f64], z: Cmplx) -> Cmplx {
    let n = c.len() - 1;
    let mut p = Cmplx::new(c[n], 0.0);
    for i in (0..n).rev() {
        p = p * z + Cmplx::new(c[i], 0.0);
    }
    p
}

// independent reference: Durand-Kerner (Weierstrass) simultaneous iteration on the monic polynomial
fn durand_kerner(c: &[f64]) -> Vec<Cmplx> {
    let n = c.len() - 1;
    let mut z: Vec<Cmplx> = (0..n).map(|k| Cmplx::polar(0.4, 0.3 + 6.283185307179586 * k as f64 / n as f64)).collect();
    for _ in 0..2000 {
        for i in 0..n {
            let mut den = Cmplx::new(1.0, 0.0);
            for j in 0..n {
                if j != i { den = den * (z[i] - z[j]); }
            }
            z[i] = z[i] - eval(c, z[i]) / den;
        }
    }
    z
}

#[test]
fn degree12_refined_one_to_one() {
    let c = coeffs();
    let n = 12;
    let reference = durand_kerner(&c);
    // the reference is sound: residuals at rounding level, roots pairwise well separated
    let mut sep = f64::INFINITY;
    for i in 0..n {
        assert!(cabs(eval(&c, reference[i])) < 1e-15);
        for j in 0..i { sep = sep.min(cabs(reference[i] - reference[j])); }
    }
    assert!(sep > 0.1, "reference roots not separated: {sep}");

    let r = Polynomial::<f64>::new(c.clone()).roots(true);
    assert_eq!(r.size(), n);
    // Vieta: the sum of the roots is -a_11/a_12 = 0
    let mut sum = Cmplx::new(0.0, 0.0);
    for i in 0..n { sum = sum + r[i]; }
    // every true root must be matched by its own returned value
    let mut used = vec![false; n];
    for t in &reference {
        let mut best = (f64::INFINITY, 0usize);
        for i in 0..n {
            if used[i] { continue; }
            let d = cabs(r[i] - *t);
            if d < best.0 { best = (d, i); }
        }
        assert!(best.0 < 1e-8, "root {t:?} of the polynomial has no returned value of its own (nearest unused is {:e} away); sum of returned values = {sum:?}", best.0);
        used[best.1] = true;
    }
    assert!(cabs(sum) < 1e-10, "sum of returned roots {sum:?} != 0");
}
