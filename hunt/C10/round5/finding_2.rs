// C10 finding 2: with refinement a quartic with four simple real roots gets the root 64 twice and loses 64.00390625.
// p(x) = (x - 1.25)(x - 64)(x - 64.00390625)(x - 65); roots and coefficients are exact in f64, max|a_k| / min|a_k| = 3.3e5.
// Condition: a relative coefficient perturbation of 1e-16 moves the two close roots by about 1e-7, their gap is 3.9e-3.
// The same polynomial with the small root at 0.75 instead of 1.25 is solved correctly (see finding_2.txt).
use ohsl::Polynomial;

fn matched(got: &[(f64, f64)], truth: &[f64], tol: f64) -> Result<(), String> {
    if got.len() != truth.len() { return Err(format!("{} values for degree {}", got.len(), truth.len())); }
    let mut used = vec![false; got.len()];
    for &t in truth {
        match (0..got.len()).find(|&j| !used[j] && ((got[j].0 - t).powi(2) + got[j].1.powi(2)).sqrt() < tol) {
            Some(j) => used[j] = true,
            None => return Err(format!("no (further) returned value within {tol:e} of the true root {t}; returned {got:?}")),
        }
    }
    Ok(())
}

#[test]
fn refined_quartic_keeps_both_roots_of_a_close_pair_far_from_the_origin() {
    let truth = [1.25, 64.0, 64.00390625, 65.0];
    // exact coefficients of the product (verified with integer arithmetic: all are multiples of 2^-16 below 2^53)
    let a = vec![332820.3125, -281776.8798828125, 12657.7587890625, -194.25390625, 1.0];
    // sanity: the coefficients are the elementary symmetric functions of the roots
    let e1: f64 = truth.iter().sum();
    assert_eq!(-e1, a[3]);
    assert_eq!(truth.iter().product::<f64>(), a[0]);
    let p = Polynomial::<f64>::new(a);
    let r = p.roots(true);
    let got: Vec<(f64, f64)> = (0..r.size()).map(|i| (r[i].real, r[i].imag)).collect();
    if let Err(e) = matched(&got, &truth, 1.0e-4) { panic!("refine=true: {e}"); }
}
