// C10 finding 1: a cubic with three simple, well resolvable real roots gets one root twice and loses another.
// p(x) = (x - 2)(x - 2.00048828125)(x - 2.03125); all three roots and all four coefficients are exact in f64
// (dyadic numbers with a few bits). Condition of the roots: a relative coefficient perturbation of 1e-16 moves them
// by about 1e-9, the smallest gap is 4.9e-4 - more than five orders of magnitude more.
use ohsl::{Cmplx, Polynomial};

fn check(got: Vec<(f64, f64)>, label: &str) {
    let truth = [2.0, 2.00048828125, 2.03125];
    assert_eq!(got.len(), 3, "{label}: number of roots");
    let mut used = [false; 3];
    for &t in truth.iter() {
        let hit = (0..3).find(|&j| !used[j] && ((got[j].0 - t).powi(2) + got[j].1.powi(2)).sqrt() < 1.0e-6);
        match hit {
            Some(j) => used[j] = true,
            None => panic!("{label}: no (further) returned value within 1e-6 of the true root {t}; returned {got:?}"),
        }
    }
}

#[test]
fn cubic_close_pair_in_cluster_keeps_all_three_roots() {
    let (r1, r2, r3) = (2.0_f64, 2.0 + 2f64.powi(-11), 2.0 + 2f64.powi(-5));
    // exact: every product and sum below is representable
    let c0 = -(r1 * r2 * r3);
    let c1 = r1 * r2 + r1 * r3 + r2 * r3;
    let c2 = -(r1 + r2 + r3);
    assert_eq!((c0, c1, c2), (-8.126983642578125, 12.126968383789063, -6.03173828125));
    for refine in [false, true] {
        let p = Polynomial::<f64>::new(vec![c0, c1, c2, 1.0]);
        let r = p.roots(refine);
        check((0..r.size()).map(|i| (r[i].real, r[i].imag)).collect(), &format!("f64 entry, refine={refine}"));
        let q = Polynomial::<Cmplx>::new(vec![Cmplx::new(c0, 0.0), Cmplx::new(c1, 0.0), Cmplx::new(c2, 0.0), Cmplx::new(1.0, 0.0)]);
        let r = q.roots(refine);
        check((0..r.size()).map(|i| (r[i].real, r[i].imag)).collect(), &format!("Cmplx entry, refine={refine}"));
    }
}
