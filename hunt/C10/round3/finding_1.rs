// C10 finding 1: p(x) = (x - r)^n + e, r != 0 ( n simple roots on a circle of radius e^(1/n) about r ).
// The root finder returns n values next to the CENTRE r, none of which is a root, with and without refinement.
// Copy to tests/ and run `cargo test --offline --test finding_1`.
use ohsl::{Cmplx, Polynomial};

// own complex arithmetic on tuples: nothing of the crate is used to judge the crate
type C = (f64, f64);
fn mul(a: C, b: C) -> C { (a.0 * b.0 - a.1 * b.1, a.0 * b.1 + a.1 * b.0) }
fn add(a: C, b: C) -> C { (a.0 + b.0, a.1 + b.1) }
fn sub(a: C, b: C) -> C { (a.0 - b.0, a.1 - b.1) }
fn abs(a: C) -> f64 { a.0.hypot(a.1) }

/// ascending coefficients of (x - r)^n + e; for the r used here ( 1, i ) the binomial coefficients are exact
fn ring(n: usize, r: C, e: f64) -> Vec<C> {
    let mut c: Vec<C> = vec![(1.0, 0.0)];
    for _ in 0..n {
        let mut nc = vec![(0.0, 0.0); c.len() + 1];
        for k in 0..c.len() { nc[k + 1] = add(nc[k + 1], c[k]); nc[k] = sub(nc[k], mul(c[k], r)); }
        c = nc;
    }
    c[0].0 += e;
    c
}

/// |p(z)| / ( max|a_k| * max(1,|z|)^n ), Horner's rule
fn backward_error(c: &[C], z: C) -> f64 {
    let n = c.len() - 1;
    let mut p: C = c[n];
    for k in (0..n).rev() { p = add(mul(p, z), c[k]); }
    let amax = c.iter().fold(0.0f64, |m, &a| m.max(abs(a)));
    abs(p) / (amax * abs(z).max(1.0).powi(n as i32))
}

/// the n roots r + e^(1/n) exp( i pi (2k+1) / n ) in closed form
fn true_roots(n: usize, r: C, e: f64) -> Vec<C> {
    let rho = e.powf(1.0 / n as f64);
    (0..n).map(|k| { let t = std::f64::consts::PI * (2 * k + 1) as f64 / n as f64; (r.0 + rho * t.cos(), r.1 + rho * t.sin()) }).collect()
}

fn check(n: usize, r: C, e: f64, complex_api: bool, refine: bool) {
    let c = ring(n, r, e);
    let got: Vec<C> = if complex_api {
        let v = Polynomial::<Cmplx>::new(c.iter().map(|&(a, b)| Cmplx::new(a, b)).collect()).roots(refine);
        (0..v.size()).map(|i| (v[i].real, v[i].imag)).collect()
    } else {
        let v = Polynomial::<f64>::new(c.iter().map(|&(a, _)| a).collect()).roots(refine);
        (0..v.size()).map(|i| (v[i].real, v[i].imag)).collect()
    };
    assert_eq!(got.len(), n);
    let truth = true_roots(n, r, e);
    // sanity of the reference: the closed-form roots are roots, and they are far apart
    for &t in &truth { assert!(backward_error(&c, t) <= 1.0e-13); }
    for &z in &got {
        assert!(z.0.is_finite() && z.1.is_finite());
        let be = backward_error(&c, z);
        let nearest = truth.iter().map(|&t| abs(sub(z, t))).fold(f64::INFINITY, f64::min);
        assert!(be <= 1.0e-10 && nearest <= 1.0e-6,
            "(x - {:?})^{} + {:e}, refine = {}: returned value {:?} has backward error {:e} and is {:.3} away from the nearest root \
             ( the roots lie on the circle of radius {:.3} about {:?} ); all returned values: {:?}",
            r, n, e, refine, z, be, nearest, e.powf(1.0 / n as f64), r, got);
    }
    // one-to-one: the roots are simple and 2 rho sin( pi / n ) apart
    for &t in &truth {
        let hits = got.iter().filter(|&&z| abs(sub(z, t)) <= 1.0e-6).count();
        assert_eq!(hits, 1, "root {:?} is returned {} times", t, hits);
    }
}

// (x-1)^8 + 1e-4 = x^8 - 8x^7 + 28x^6 - 56x^5 + 70x^4 - 56x^3 + 28x^2 - 8x + 1.0001 : roots 0.316 from 1, 0.24 apart
#[test] fn x_minus_1_to_the_8_plus_1em4_refined() { check(8, (1.0, 0.0), 1.0e-4, false, true); }
#[test] fn x_minus_1_to_the_8_plus_1em4_unrefined() { check(8, (1.0, 0.0), 1.0e-4, false, false); }
// (x-1)^6 + 2e-5 : roots 0.165 from 1
#[test] fn x_minus_1_to_the_6_plus_2em5_refined() { check(6, (1.0, 0.0), 2.0e-5, false, true); }
// (x-1)^9 + 1e-3 : roots 0.464 from 1, 0.32 apart
#[test] fn x_minus_1_to_the_9_plus_1em3_refined() { check(9, (1.0, 0.0), 1.0e-3, false, true); }
// complex coefficients: (x-i)^8 + 2e-4
#[test] fn x_minus_i_to_the_8_plus_2em4_refined() { check(8, (0.0, 1.0), 2.0e-4, true, true); }
