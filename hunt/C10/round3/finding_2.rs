// C10 finding 2: Laguerre's iteration runs out of its 79 iterations on the real axis, the unconverged
// iterate is returned as a "root", deflated with, and every later root is spoiled.
// Copy to tests/ and run `cargo test --offline --test finding_2`.
use ohsl::{Cmplx, Polynomial};

// own complex arithmetic on tuples: nothing of the crate is used to judge the crate
type C = (f64, f64);
fn mul(a: C, b: C) -> C { (a.0 * b.0 - a.1 * b.1, a.0 * b.1 + a.1 * b.0) }
fn add(a: C, b: C) -> C { (a.0 + b.0, a.1 + b.1) }
fn abs(a: C) -> f64 { a.0.hypot(a.1) }

/// |p(z)| / ( max|a_k| * max(1,|z|)^n ), p evaluated by Horner's rule, coefficients ascending
fn backward_error(c: &[f64], z: C) -> f64 {
    let n = c.len() - 1;
    let mut p: C = (c[n], 0.0);
    for k in (0..n).rev() { p = add(mul(p, z), (c[k], 0.0)); }
    let amax = c.iter().fold(0.0f64, |m, a| m.max(a.abs()));
    abs(p) / (amax * abs(z).max(1.0).powi(n as i32))
}

fn roots(c: &[f64], refine: bool) -> Vec<C> {
    let r = Polynomial::<f64>::new(c.to_vec()).roots(refine);
    (0..r.size()).map(|i| { let z: Cmplx = r[i]; (z.real, z.imag) }).collect()
}

// 15x^12 - 60x^11 + 160x^10 - 2x^9 + 270x^8 - 4x^7 - 280x^6 - 82x^5 - 70x^4 + 29x^3 - 76x^2 - 1100x + 4
// integer coefficients, |a_k| between 2 and 1100; twelve simple roots, pairwise further apart than 0.31 max(|r_i|,|r_j|)
const P_INT: [f64; 13] = [4.0, -1100.0, -76.0, 29.0, -70.0, -82.0, -280.0, -4.0, 270.0, -2.0, 160.0, -60.0, 15.0];
// a neighbour with two-digit decimal coefficients (the failing region is not a single point)
const P_DEC: [f64; 13] = [2.0, -1000.0, -77.0, 29.0, -68.0, -84.0, -270.0, -1.5, 290.0, -2.1, 170.0, -58.0, 15.0];

// the twelve roots of P_INT from an independent Aberth iteration (each is checked below before it is used)
const R_INT: [C; 12] = [
    (0.7834306378631984, 0.7827766445586427), (0.7834306378631984, -0.7827766445586427),
    (2.291558184905422, 2.584938542549398), (2.291558184905422, -2.584938542549398),
    (-0.1596037002841651, 1.4250190823030564), (-0.1596037002841651, -1.4250190823030564),
    (-0.5032093112268108, 1.1343608078201173), (-0.5032093112268108, -1.1343608078201173),
    (-1.053677796287932, 0.35622624280299103), (-1.053677796287932, -0.35622624280299103),
    (0.003635451751267565, 0.0), (1.2793685183093073, 0.0),
];

#[test]
fn unrefined_values_are_roots_integer_coefficients() {
    let r = roots(&P_INT, false);
    assert_eq!(r.len(), 12);
    for &z in &r {
        assert!(z.0.is_finite() && z.1.is_finite());
        let e = backward_error(&P_INT, z);
        assert!(e <= 1.0e-10, "returned value {:?} is no root: |p(z)| / ( max|a| max(1,|z|)^12 ) = {:e}", z, e);
    }
}

#[test]
fn unrefined_values_are_roots_decimal_coefficients() {
    let r = roots(&P_DEC, false);
    assert_eq!(r.len(), 12);
    for &z in &r {
        let e = backward_error(&P_DEC, z);
        assert!(e <= 1.0e-10, "returned value {:?} is no root: |p(z)| / ( max|a| max(1,|z|)^12 ) = {:e}", z, e);
    }
}

#[test]
fn refined_values_are_in_one_to_one_correspondence_with_the_roots() {
    // the reference roots are roots, and they are well separated
    for &t in &R_INT { assert!(backward_error(&P_INT, t) <= 1.0e-14); }
    for i in 0..12 { for j in 0..i {
        let d = abs((R_INT[i].0 - R_INT[j].0, R_INT[i].1 - R_INT[j].1));
        assert!(d >= 0.3 * abs(R_INT[i]).max(abs(R_INT[j])));
    } }
    let r = roots(&P_INT, true);
    assert_eq!(r.len(), 12);
    for &t in &R_INT {
        let hits = r.iter().filter(|&&z| abs((z.0 - t.0, z.1 - t.1)) <= 1.0e-8 * abs(t)).count();
        assert_eq!(hits, 1, "the simple root {:?} is returned {} times; returned values: {:?}", t, hits, r);
    }
}
