// C10 finding 3: a cubic with a triple root and a tiny imaginary part in one coefficient: all three "roots" are NaN.
// Copy to tests/ and run `cargo test --offline --test finding_3`.
use ohsl::{Cmplx, Polynomial};

type C = (f64, f64);
fn mul(a: C, b: C) -> C { (a.0 * b.0 - a.1 * b.1, a.0 * b.1 + a.1 * b.0) }
fn add(a: C, b: C) -> C { (a.0 + b.0, a.1 + b.1) }
fn abs(a: C) -> f64 { a.0.hypot(a.1) }
fn backward_error(c: &[C], z: C) -> f64 {
    let n = c.len() - 1;
    let mut p: C = c[n];
    for k in (0..n).rev() { p = add(mul(p, z), c[k]); }
    let amax = c.iter().fold(0.0f64, |m, &a| m.max(abs(a)));
    abs(p) / (amax * abs(z).max(1.0).powi(n as i32))
}

fn check(c: &[C], centre: C) {
    for &refine in &[false, true] {
        let r = Polynomial::<Cmplx>::new(c.iter().map(|&(a, b)| Cmplx::new(a, b)).collect()).roots(refine);
        assert_eq!(r.size(), 3);
        for i in 0..3 {
            let z = (r[i].real, r[i].imag);
            assert!(z.0.is_finite() && z.1.is_finite(), "refine = {}: root {} of {:?} is {:?}", refine, i, c, z);
            assert!(backward_error(c, z) <= 1.0e-12);
            // the three roots lie within |t|^(1/3) <= 1e-36 of the triple root of the unperturbed cubic; 1e-4 allows for the
            // eps^(1/3) conditioning of a triple root
            assert!(abs((z.0 - centre.0, z.1 - centre.1)) <= 1.0e-4);
        }
    }
}

// (x - 1)^3 + 1e-200 i : coefficients -1 + 1e-200 i, 3, -3, 1
#[test]
fn triple_root_tiny_imaginary_part_in_the_constant_term() {
    check(&[(-1.0, 1.0e-200), (3.0, 0.0), (-3.0, 0.0), (1.0, 0.0)], (1.0, 0.0));
}

// x^3 - 3x^2 + ( 3 + 1e-170 i ) x - 1
#[test]
fn triple_root_tiny_imaginary_part_in_the_linear_term() {
    check(&[(-1.0, 0.0), (3.0, 1.0e-170), (-3.0, 0.0), (1.0, 0.0)], (1.0, 0.0));
}

// ( 1 + 4.24e-131 i ) x^3 - (3+3i) x^2 + 6i x + (2-2i) : (x - (1+i))^3 with a tiny imaginary part in the LEADING coefficient;
// here Delta_1 is exactly 0 and Delta_0 = 7.6e-130, whose cube underflows
#[test]
fn triple_root_tiny_imaginary_part_in_the_leading_coefficient() {
    check(&[(2.0, -2.0), (0.0, 6.0), (-3.0, -3.0), (1.0, 4.242645593799271e-131)], (1.0, 1.0));
}
