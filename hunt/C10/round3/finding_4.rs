// C10 finding 4: an attracting 2-cycle of Laguerre's iteration ( flat polynomial near 0: a_2 = ... = 0 ).
// Even WITH refinement a returned value is no root at all ( |p(z)| ~ max|a_k| ), because the polish starts on
// the cycle; complex coefficients are affected in the same way.
// Copy to tests/ and run `cargo test --offline --test finding_4`.
use ohsl::{Cmplx, Polynomial};

type C = (f64, f64);
fn mul(a: C, b: C) -> C { (a.0 * b.0 - a.1 * b.1, a.0 * b.1 + a.1 * b.0) }
fn add(a: C, b: C) -> C { (a.0 + b.0, a.1 + b.1) }
fn abs(a: C) -> f64 { a.0.hypot(a.1) }

/// |p(z)| / ( max|a_k| * max(1,|z|)^n ), Horner's rule in own arithmetic, coefficients ascending
fn backward_error(c: &[C], z: C) -> f64 {
    let n = c.len() - 1;
    let mut p: C = c[n];
    for k in (0..n).rev() { p = add(mul(p, z), c[k]); }
    let amax = c.iter().fold(0.0f64, |m, &a| m.max(abs(a)));
    abs(p) / (amax * abs(z).max(1.0).powi(n as i32))
}

// real, degree 10, five vanishing inner coefficients, all others between 1.03 and 5.0
const P_REAL: [f64; 11] = [4.996221309787883, 1.1057363746250348, 0.0, 0.0, 0.0, 0.0, 0.0,
    -2.492198747596697, 1.7540019226640604, -2.4775113058397698, 1.030917771032082];

// complex, degree 10, five vanishing inner coefficients, all others of modulus 0.81 .. 1.03
const P_CPLX: [C; 11] = [(0.4809867521981873, 0.8391377544488422), (0.7805861874146378, 0.6524832627751617),
    (0.0, 0.0), (0.0, 0.0), (0.0, 0.0), (0.0, 0.0), (-0.210830191931375, -0.7821951135183722),
    (-0.41370915575171874, 0.9365357446424026), (0.0, 0.0), (-0.4504660786811291, -0.809994318306869),
    (0.7909215375545932, 0.6112843323268623)];

fn check_real(refine: bool) {
    let r = Polynomial::<f64>::new(P_REAL.to_vec()).roots(refine);
    assert_eq!(r.size(), 10);
    let c: Vec<C> = P_REAL.iter().map(|&a| (a, 0.0)).collect();
    for i in 0..10 {
        let z = (r[i].real, r[i].imag);
        assert!(z.0.is_finite() && z.1.is_finite());
        let e = backward_error(&c, z);
        assert!(e <= 1.0e-10, "refine = {}: returned value {:?} is no root: |p(z)| / ( max|a| max(1,|z|)^10 ) = {:e}", refine, z, e);
    }
}

#[test]
fn real_sparse_degree_10_with_refinement() { check_real(true); }

#[test]
fn real_sparse_degree_10_without_refinement() { check_real(false); }

#[test]
fn complex_sparse_degree_10_without_refinement() {
    let p = Polynomial::<Cmplx>::new(P_CPLX.iter().map(|&(a, b)| Cmplx::new(a, b)).collect());
    let r = p.roots(false);
    assert_eq!(r.size(), 10);
    for i in 0..10 {
        let z = (r[i].real, r[i].imag);
        let e = backward_error(&P_CPLX, z);
        assert!(e <= 1.0e-10, "returned value {:?} is no root: |p(z)| / ( max|a| max(1,|z|)^10 ) = {:e}", z, e);
    }
}

#[test]
fn complex_sparse_degree_10_with_refinement_returns_distinct_roots() {
    // the ten roots are simple and far apart ( closest pair 0.31 apart ); with refine = true every returned value is a
    // root, so ten values that are pairwise further apart than 1e-6 are demanded
    let p = Polynomial::<Cmplx>::new(P_CPLX.iter().map(|&(a, b)| Cmplx::new(a, b)).collect());
    let r = p.roots(true);
    assert_eq!(r.size(), 10);
    for i in 0..10 {
        assert!(backward_error(&P_CPLX, (r[i].real, r[i].imag)) <= 1.0e-10);
        for j in 0..i {
            let d = abs((r[i].real - r[j].real, r[i].imag - r[j].imag));
            assert!(d > 1.0e-6, "values {} and {} coincide: {:?} (a simple root returned twice, another root missing)", j, i, r[i]);
        }
    }
}
