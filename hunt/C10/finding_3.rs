// C10 finding 3: on the iterative path (degree >= 4) Laguerre's iteration runs out of iterations
// while cycling between the origin and |x| ~ 1 when all roots are small and p is flat at 0;
// the last iterate is returned silently as a "root" and then deflated out, so the remaining
// "roots" are garbage as well.
use ohsl::{Cmplx, Polynomial};

fn cabs(z: Cmplx) -> f64 {
    z.real.hypot(z.imag)
}

fn backward_error(c: &[f64], z: Cmplx) -> f64 {
    let n = c.len() - 1;
    let mut p = Cmplx::new(c[n], 0.0);
    for i in (0..n).rev() {
        p = p * z + Cmplx::new(c[i], 0.0);
    }
    let mx = c.iter().map(|a| a.abs()).fold(0.0, f64::max);
    cabs(p) / (mx * cabs(z).max(1.0).powi(n as i32))
}

fn check(c: &[f64], refine: bool) {
    let n = c.len() - 1;
    let r = Polynomial::<f64>::new(c.to_vec()).roots(refine);
    assert_eq!(r.size(), n);
    for i in 0..n {
        let z = r[i];
        assert!(z.real.is_finite() && z.imag.is_finite());
        let be = backward_error(c, z);
        // a converged Laguerre iterate has be ~ 1e-16 .. 1e-21 here; 1e-8 is very lenient
        assert!(be < 1e-8, "refine={refine}: returned value {i} = {z:?} is not a root: backward error {be:e}");
    }
}

// x^12 + 6e-4 x^7 + 8e-6 x + 8e-6 : twelve simple roots of modulus 0.364 .. 0.386
#[test]
fn degree12_unrefined() {
    let mut c = vec![0.0; 13];
    c[12] = 1.0;
    c[7] = 6e-4;
    c[1] = 8e-6;
    c[0] = 8e-6;
    check(&c, false); // five values of modulus ~1.01 with |p(z)| ~ 1.1, the rest with |p(z)| ~ 1e-3
}

// x^9 + 5e-6 (x^2 + x + 1) : nine simple roots of modulus 0.25 .. 0.27
#[test]
fn degree9_unrefined() {
    check(&[5e-6, 5e-6, 5e-6, 0.0, 0.0, 0.0, 0.0, 0.0, 0.0, 1.0], false);
}

#[test]
fn degree9_refined() {
    // the value 0.02435+0.00292i (|p| = |a_0|, a stationary point of the cycle) survives refinement
    check(&[5e-6, 5e-6, 5e-6, 0.0, 0.0, 0.0, 0.0, 0.0, 0.0, 1.0], true);
}
