use ohsl::newton::Newton;
use ohsl::complex::Cmplx;
use ohsl::vector::Vector;

fn csqrt(z: Cmplx) -> Cmplx { // principal sqrt honouring sign of zero imag
    let r = z.real.hypot(z.imag); let t = z.imag.atan2(z.real);
    Cmplx::new(r.sqrt() * (0.5 * t).cos(), r.sqrt() * (0.5 * t).sin())
}
#[test]
fn cut_scalar() {
    // f(z) = sqrt(z) + i*sqrt(2.3): root z = -2.3 - 0i (lower edge of the cut)
    let w = Cmplx::new(0.0, 2.3f64.sqrt());
    let f = |z: Cmplx| csqrt(z) + w;
    let nw = Newton::<Cmplx>::new(Cmplx::new(-2.1, -0.0));
    let r = nw.solve(&f);
    eprintln!("scalar: {:?}", r);
    // system variant 1-dim
    let fv = |v: Vector<Cmplx>| { let mut o = Vector::<Cmplx>::new(1, Cmplx::new(0.0,0.0)); o[0] = csqrt(v[0]) + w; o };
    let nv = Newton::<Vector<Cmplx>>::new(Vector::<Cmplx>::new(1, Cmplx::new(-2.1, -0.0)));
    let r = nv.solve(&fv);
    eprintln!("system: {:?}", r.map(|v| v[0]).map_err(|v| v[0]));
}
