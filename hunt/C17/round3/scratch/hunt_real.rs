use ohsl::newton::Newton;
use std::cell::Cell;

struct Rng(u64);
impl Rng {
    fn next(&mut self) -> u64 { let mut x = self.0; x ^= x << 13; x ^= x >> 7; x ^= x << 17; self.0 = x; x }
    fn uni(&mut self) -> f64 { (self.next() >> 11) as f64 / (1u64 << 53) as f64 }
    fn range(&mut self, a: f64, b: f64) -> f64 { a + (b - a) * self.uni() }
    fn pick<T: Copy>(&mut self, v: &[T]) -> T { v[(self.next() % v.len() as u64) as usize] }
}

#[test]
fn sweep_real_scalar() {
    let mut rng = Rng(0x9E3779B97F4A7C15);
    let fscales = [1.0e280, 1.0e-280, 1.0e270, 1.0e-270, 1.0e-290, 1.0e290, 1.0e7, 1.0e-7, 1.0e40, 1.0e-40, 1.0e120, 1.0e-120, 3.7e55, 2.3e-77, -1.0, -4.1e-13];
    let xscales = [1.0, 1.0, 1.0e-3, 1.0e3, 1.0e5, 1.0e-5, 37.3, 0.0123, 1.0e6, 1.0e-6, 2.0e5];
    let tols = [1.0e-12, 1.0e-11, 3.3e-10, 1.0e-8, 1.0e-6, 2.7e-5, 1.0e-4];
    let mut worst: Vec<(f64, String)> = vec![];
    let mut nerr = 0; let mut n = 0;
    for case in 0..200000 {
        let fam = case % 3;
        let s = rng.pick(&fscales);
        let m = rng.pick(&xscales);
        let tol = rng.pick(&tols);
        let t = rng.range(-1.0, 1.0);
        let desc; let root; let guess;
        let f: Box<dyn Fn(f64) -> f64>;
        if fam == 0 {
            let k = 1 + (rng.next() % 5) as usize;
            let mut roots: Vec<f64> = vec![];
            while roots.len() < k {
                let r = rng.range(-50.0, 50.0) * m;
                if roots.iter().all(|q| (q - r).abs() > 2.0 * m) { roots.push(r); }
            }
            let gap = roots[1..].iter().map(|q| (q - roots[0]).abs()).fold(f64::INFINITY, f64::min);
            let rho = if k == 1 { 10.0 * m } else { gap / (3.0 * k as f64) };
            root = roots[0]; guess = root + t * rho;
            desc = format!("poly roots {:?} s {:e}", roots, s);
            // scale each factor to keep product in range
            let rr = roots.clone();
            f = Box::new(move |x| { let mut p = s; for r in rr.iter() { p *= (x - r) / m; } p });
        } else if fam == 1 {
            let a = rng.range(0.2, 3.0) * if rng.next() % 2 == 0 { 1.0 } else { -1.0 } / m;
            let b = rng.range(0.05, 20.0);
            root = b.ln() / a; guess = root + t * 0.5 / a.abs();
            desc = format!("exp a {:e} b {:e} s {:e}", a, b, s);
            f = Box::new(move |x| s * ((a * x).exp() - b));
        } else {
            let a = rng.range(0.2, 3.0) / m;
            let b = rng.range(-0.8, 0.8);
            root = b.asin() / a; guess = root + t * 0.3 / a.abs();
            desc = format!("sin a {:e} b {:e} s {:e}", a, b, s);
            f = Box::new(move |x| s * ((a * x).sin() - b));
        }
        if root.abs() < 1.0e-8 { continue; } // known region
        if tol < 4.0 * f64::EPSILON * root.abs().max(8.0*m) { continue; }
        n += 1;
        let cnt = Cell::new(0usize);
        let mut nw = Newton::<f64>::new(guess);
        nw.tolerance(tol); nw.iterations(50);
        let g = |x: f64| { cnt.set(cnt.get() + 1); f(x) };
        let before = nw.parameters();
        let res = nw.solve(&g);
        assert!(cnt.get() <= 150);
        assert_eq!(before, nw.parameters());
        let (ok, x) = match res { Ok(x) => (true, x), Err(x) => (false, x) };
        let dist = (x - root).abs();
        let allow = tol + 8.0 * f64::EPSILON * root.abs();
        let ratio = dist / allow;
        if !ok { nerr += 1; }
        if !ok || ratio > 1.5 {
            worst.push((if ok { ratio } else { 1e300 }, format!("ok {} x {:e} root {:e} guess {:e} tol {:e} m {:e} evals {} {}", ok, x, root, guess, tol, m, cnt.get(), desc)));
        }
    }
    worst.sort_by(|a, b| b.0.partial_cmp(&a.0).unwrap());
    println!("cases {} err {} bad {}", n, nerr, worst.len());
    for w in worst.iter().take(40) { println!("{:e} {}", w.0, w.1); }
    let mut i = worst.len(); let mut c = 0;
    while i > 0 && c < 10 { i -= 1; c += 1; println!("{:e} {}", worst[i].0, worst[i].1); }
}
