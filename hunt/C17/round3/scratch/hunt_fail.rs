use ohsl::newton::Newton;
use ohsl::vector::Vec64;
use std::cell::{Cell, RefCell};

struct Rng(u64);
impl Rng {
    fn next(&mut self) -> u64 { let mut x = self.0; x ^= x << 13; x ^= x >> 7; x ^= x << 17; self.0 = x; x }
    fn uni(&mut self) -> f64 { (self.next() >> 11) as f64 / (1u64 << 53) as f64 }
    fn range(&mut self, a: f64, b: f64) -> f64 { a + (b - a) * self.uni() }
    fn pick<T: Copy>(&mut self, v: &[T]) -> T { v[(self.next() % v.len() as u64) as usize] }
}

fn nasty(kind: u64, p: f64, q: f64, x: f64) -> f64 {
    match kind {
        0 => x * x + p * p + 0.1,                 // root free
        1 => (x - p).abs() + q.abs() + 0.01,      // root free, kink
        2 => (x - p).abs().sqrt() * (x - p).signum(), // root, non differentiable: 2-cycle
        3 => (x - p).cbrt(),                      // diverges
        4 => if x > p { 1.0 + q.abs() } else { -1.0 - q.abs() }, // jump, root-free
        5 => (x * q).exp() + 0.3,                 // root-free, runs off to infinity
        6 => if (x - p).abs() < q.abs() { f64::NAN } else { x - p }, // NaN hole around the root
        7 => 1.0 / (x - p),                       // pole, root free
        8 => (x * 1.0e3).sin() + 1.5,             // oscillating root-free
        9 => (x - p).floor() + 0.5,               // staircase
        10 => x.atan() * 1.0 + 2.0 * 0.0 + if x.abs() > 1.4 { 0.0 } else { 0.0 } , // atan: diverging newton from |x|>1.39
        _ => f64::INFINITY,
    }
}

#[test]
fn fuzz_failure_real() {
    let mut rng = Rng(0xDEADBEEFCAFEF00D);
    let tols = [1.0e-12, 3.3e-10, 1.0e-8, 1.0e-6, 1.0e-4];
    let mut okcount = 0; let mut bad = 0;
    for _ in 0..200000 {
        let kind = rng.next() % 12;
        let t1 = rng.range(-5.0, 5.0); let p = rng.pick(&[0.7, -0.3, 45.24, 0.0, 1.0, t1]);
        let t2 = rng.range(-2.0, 2.0); let q = rng.pick(&[0.7, -0.3, 1.0e-7, 1.0e-3, t2]);
        let t3 = rng.range(-10.0, 10.0); let t4 = rng.range(-1.0e3, 1.0e3); let g = rng.pick(&[p, p + 1.0e-9, p - 3.0e-9, 0.0, -0.0, 1.0, t3, t4, 1.0e-7, 1.5, 2.0]);
        let tol = rng.pick(&tols);
        let mi = (rng.next() % 51) as usize;
        let cnt = Cell::new(0usize);
        let log: RefCell<Vec<(f64, f64)>> = RefCell::new(vec![]);
        let f = |x: f64| { cnt.set(cnt.get() + 1); let y = nasty(kind, p, q, x); log.borrow_mut().push((x, y)); y };
        let mut nw = Newton::<f64>::new(g);
        nw.tolerance(tol); nw.iterations(mi);
        let before = nw.parameters();
        let r1 = nw.solve(&f);
        let c1 = cnt.get();
        assert!(c1 <= 3 * mi, "evals {} for max_iter {}", c1, mi);
        let r2 = nw.solve(&f);
        assert!(before == nw.parameters());
        let same = match (&r1, &r2) { (Ok(a), Ok(b)) => a.to_bits() == b.to_bits(), (Err(a), Err(b)) => a.to_bits() == b.to_bits(), _ => false };
        assert!(same, "repeat differs {:?} {:?}", r1, r2);
        // independent reference trajectory
        let d = 1.0e-8;
        let mut x = g; let mut expect: Result<f64, f64> = Err(g); let mut done = false;
        for _ in 0..mi {
            let fp = nasty(kind, p, q, x + d); let fm = nasty(kind, p, q, x - d);
            let der = (fp - fm) / (2.0 * d);
            let dx = nasty(kind, p, q, x) / der;
            x -= dx;
            if dx.abs() <= tol { expect = Ok(x); done = true; break; }
        }
        if !done { expect = Err(x); }
        let eq = match (&r1, &expect) { (Ok(a), Ok(b)) => a.to_bits() == b.to_bits(), (Err(a), Err(b)) => a.to_bits() == b.to_bits(), _ => false };
        if !eq { bad += 1; if bad < 10 { eprintln!("MISMATCH kind {} p {} q {} g {} tol {} mi {} got {:?} expect {:?}", kind, p, q, g, tol, mi, r1, expect); } }
        if r1.is_ok() { okcount += 1; }
    }
    eprintln!("ok answers {} mismatches {}", okcount, bad);
    assert_eq!(bad, 0);
}

#[test]
fn fuzz_failure_system() {
    let mut rng = Rng(0xDEADBEEFCAFEF00D);
    let tols = [1.0e-12, 3.3e-10, 1.0e-8, 1.0e-6, 1.0e-4];
    let mut okc = 0; let mut badok = 0;
    for _ in 0..30000 {
        let n = 1 + (rng.next() % 6) as usize;
        let kinds: Vec<u64> = (0..n).map(|_| rng.next() % 12).collect();
        let p: Vec<f64> = (0..n).map(|_| rng.pick(&[0.7, -0.3, 45.24, 0.0, 1.0])).collect();
        let q = rng.pick(&[0.7, -0.3, 1.0e-7, 1.0e-3]);
        let couple = rng.range(-0.5, 0.5);
        let tol = rng.pick(&tols);
        let mi = (rng.next() % 51) as usize;
        let cnt = Cell::new(0usize);
        let minres = Cell::new(f64::INFINITY);
        let f = |v: Vec64| -> Vec64 { cnt.set(cnt.get() + 1); let mut o = Vec64::new(n, 0.0); let mut mx: f64 = 0.0; let mut nan = false;
            for i in 0..n { o[i] = nasty(kinds[i], p[i], q, v[i]) + couple * v[(i + 1) % n] * if n > 1 { 1.0 } else { 0.0 }; if o[i].is_nan() { nan = true; } mx = mx.max(o[i].abs()); }
            if !nan && mx < minres.get() { minres.set(mx); } o };
        let mut g = Vec64::new(n, 0.0); for i in 0..n { let t5 = rng.range(-10.0, 10.0); g[i] = rng.pick(&[p[i], 0.0, 1.0, t5, 1.5]); }
        let mut nw = Newton::<Vec64>::new(g.clone());
        nw.tolerance(tol); nw.iterations(mi);
        let r1 = nw.solve(&f);
        assert!(cnt.get() <= mi * (n + 2), "evals {} mi {} n {}", cnt.get(), mi, n);
        let r2 = nw.solve(&f);
        let (a, b, k1, k2) = match (&r1, &r2) { (Ok(a), Ok(b)) => (a, b, 0, 0), (Err(a), Err(b)) => (a, b, 1, 1), (Ok(a), Err(b)) => (a, b, 0, 1), (Err(a), Ok(b)) => (a, b, 1, 0) };
        assert_eq!(k1, k2);
        for i in 0..n { assert!(a[i].to_bits() == b[i].to_bits()); }
        if let Ok(xx) = &r1 { let mut nf = false; for i in 0..n { if !xx[i].is_finite() { nf = true; } } if nf { eprintln!("Ok nonfinite n {} kinds {:?} p {:?} q {} couple {} g {:?} tol {} mi {}", n, kinds, p, q, couple, (0..n).map(|i| g[i]).collect::<Vec<f64>>(), tol, mi); } }
        if r1.is_ok() { okc += 1; if !(minres.get() <= tol) { badok += 1; eprintln!("Ok without criterion: minres {}", minres.get()); } }
        else { if minres.get() <= tol { 
            // criterion was met at some evaluated point - but maybe only at a jacobian probe point; not conclusive
        } }
    }
    eprintln!("system ok answers {} badok {}", okc, badok);
    assert_eq!(badok, 0);
}
