use ohsl::newton::Newton;
use ohsl::vector::Vector;
use ohsl::matrix::Matrix;
use ohsl::complex::Cmplx;
use std::cell::Cell;

struct Rng(u64);
impl Rng {
    fn next(&mut self) -> u64 { let mut x = self.0; x ^= x << 13; x ^= x >> 7; x ^= x << 17; self.0 = x; x }
    fn uni(&mut self) -> f64 { (self.next() >> 11) as f64 / (1u64 << 53) as f64 }
    fn range(&mut self, a: f64, b: f64) -> f64 { a + (b - a) * self.uni() }
    fn pick<T: Copy>(&mut self, v: &[T]) -> T { v[(self.next() % v.len() as u64) as usize] }
}
fn cexp(z: Cmplx) -> Cmplx { let a = z.real.exp(); Cmplx::new(a * z.imag.cos(), a * z.imag.sin()) }
fn z0() -> Cmplx { Cmplx::new(0.0, 0.0) }

#[test]
fn sweep_cplx_system() {
    let mut rng = Rng(0x1234567887654321);
    let xscales = [1.0, 1.0, 1.0e-3, 1.0e3, 1.0e5, 1.0e-5, 37.3, 0.0123, 1.0e-6];
    let tols = [1.0e-12, 1.0e-11, 3.3e-10, 1.0e-8, 1.0e-6, 2.7e-5, 1.0e-4];
    let tiny = [0.0, -0.0, 1.0e-7, -1.0e-40, 1.0e-120, -1.0e-300, 5e-324, 1.0e-17];
    let mut worst: Vec<(f64, String)> = vec![];
    let mut nerr = 0; let mut ncase = 0;
    for _case in 0..20000 {
        let n = 1 + (rng.next() % 6) as usize;
        let m = rng.pick(&xscales);
        let tol = rng.pick(&tols);
        let shape = rng.next() % 5;
        let mk = |rng: &mut Rng, lo: f64, hi: f64| -> Cmplx {
            let a = rng.range(lo, hi); let b = rng.range(lo, hi);
            match shape { 0 => Cmplx::new(a, b), 1 => Cmplx::new(a, 0.0), 2 => Cmplx::new(0.0, b), 3 => Cmplx::new(a, rng.pick(&tiny)), _ => Cmplx::new(rng.pick(&tiny), b) }
        };
        let sparse = rng.next() % 3 == 0;
        let mut a = vec![vec![z0(); n]; n];
        for i in 0..n { let mut sum = 0.0; for j in 0..n { if i != j { let v = if sparse && rng.next() % 2 == 0 { z0() } else { mk(&mut rng, -2.0, 2.0) }; a[i][j] = v; sum += v.abs(); } }
            let ph = rng.range(0.0, 6.283185307179586); let mag = sum + rng.range(2.5, 6.0);
            a[i][i] = match shape { 1 => Cmplx::new(mag, 0.0), 2 => Cmplx::new(0.0, -mag), _ => Cmplx::new(mag * ph.cos(), mag * ph.sin()) }; }
        let rowscale: Vec<Cmplx> = (0..n).map(|_| if rng.next() % 2 == 0 { Cmplx::new(1.0, 0.0) } else { let p = rng.range(0.0, 6.28); let q = rng.range(0.1, 10.0); Cmplx::new(q * p.cos(), q * p.sin()) }).collect();
        let beta: Vec<Cmplx> = (0..n).map(|_| mk(&mut rng, -0.7, 0.7)).collect();
        let gamma: Vec<Cmplx> = (0..n).map(|_| mk(&mut rng, -0.7, 0.7)).collect();
        let r: Vec<Cmplx> = (0..n).map(|_| match rng.next() % 6 { 0 => Cmplx::new(-0.3, 0.55) * m, 1 => Cmplx::new(45.24, -0.001) * m, 2 => Cmplx::new(m, rng.pick(&tiny)), _ => mk(&mut rng, -50.0, 50.0) * m }).collect();
        let sh = if rng.next() % 2 == 0 { 0 } else { (rng.next() % n as u64) as usize };
        let eval = |x: &Vec<Cmplx>| -> Vec<Cmplx> {
            let mut o = vec![z0(); n];
            for i in 0..n {
                let mut s = z0();
                for j in 0..n { s += a[i][j] * ((x[j] - r[j]) / m); }
                let ui = (x[i] - r[i]) / m; let k = (i + 1) % n; let uk = (x[k] - r[k]) / m;
                s += beta[i] * ui * ui + gamma[i] * (cexp(uk) - 1.0);
                o[(i + sh) % n] = s * rowscale[i];
            }
            o
        };
        let jacf = |x: &Vec<Cmplx>| -> Vec<Vec<Cmplx>> {
            let mut jm = vec![vec![z0(); n]; n];
            for i in 0..n {
                let row = (i + sh) % n;
                for j in 0..n { jm[row][j] = a[i][j] / m; }
                let ui = (x[i] - r[i]) / m; let k = (i + 1) % n; let uk = (x[k] - r[k]) / m;
                jm[row][i] += beta[i] * ui * 2.0 / m; jm[row][k] += gamma[i] * cexp(uk) / m;
                for j in 0..n { jm[row][j] = jm[row][j] * rowscale[i]; }
            }
            jm
        };
        let g0: Vec<Cmplx> = (0..n).map(|i| r[i] + Cmplx::new(rng.range(-0.14, 0.14), rng.range(-0.14, 0.14)) * m).collect();
        ncase += 1;
        let cnt = Cell::new(0usize);
        let func = |v: Vector<Cmplx>| -> Vector<Cmplx> { cnt.set(cnt.get() + 1); let x: Vec<Cmplx> = (0..n).map(|i| v[i]).collect(); let o = eval(&x); let mut w = Vector::<Cmplx>::new(n, z0()); for i in 0..n { w[i] = o[i]; } w };
        let jac = |v: Vector<Cmplx>| -> Matrix<Cmplx> { let x: Vec<Cmplx> = (0..n).map(|i| v[i]).collect(); let jm = jacf(&x); let mut w = Matrix::<Cmplx>::new(n, n, z0()); for i in 0..n { for j in 0..n { w[(i,j)] = jm[i][j]; } } w };
        let mut gv = Vector::<Cmplx>::new(n, z0()); for i in 0..n { gv[i] = g0[i]; }
        let mut nw = Newton::<Vector<Cmplx>>::new(gv.clone());
        nw.tolerance(tol); nw.iterations(50);
        for variant in 0..2 {
            cnt.set(0);
            let res = if variant == 0 { nw.solve(&func) } else { nw.solve_jacobian(&func, &jac) };
            assert!(cnt.get() <= 50 * (n + 2));
            let (ok, x) = match res { Ok(x) => (true, x), Err(x) => (false, x) };
            let mut d: f64 = 0.0; for i in 0..n { d = d.max((x[i] - r[i]).abs() / m); }
            let allow = tol * 2.0 + 1.0e-11;
            let ratio = d / allow;
            if !ok { nerr += 1; }
            if !ok || !(ratio <= 1.0) {
                worst.push((if ok && ratio == ratio { ratio } else { 1e300 }, format!("var {} n {} ok {} d {:e} tol {:e} m {:e} sh {} shape {} evals {} r {:?} g {:?} a {:?} rs {:?}", variant, n, ok, d, tol, m, sh, shape, cnt.get(), r, g0, a, rowscale)));
            }
        }
    }
    worst.sort_by(|a, b| b.0.partial_cmp(&a.0).unwrap());
    eprintln!("cases {} err {} bad {}", ncase, nerr, worst.len());
    for w in worst.iter().take(15) { eprintln!("{:e} {}", w.0, w.1); }
    let mut i = worst.len(); let mut c = 0;
    while i > 0 && c < 10 { i -= 1; c += 1; eprintln!("{:e} {}", worst[i].0, worst[i].1); }
}
