use ohsl::newton::Newton;
use ohsl::vector::{Vector, Vec64};
use ohsl::matrix::{Matrix, Mat64};
use std::cell::Cell;

struct Rng(u64);
impl Rng {
    fn next(&mut self) -> u64 { let mut x = self.0; x ^= x << 13; x ^= x >> 7; x ^= x << 17; self.0 = x; x }
    fn uni(&mut self) -> f64 { (self.next() >> 11) as f64 / (1u64 << 53) as f64 }
    fn range(&mut self, a: f64, b: f64) -> f64 { a + (b - a) * self.uni() }
    fn pick<T: Copy>(&mut self, v: &[T]) -> T { v[(self.next() % v.len() as u64) as usize] }
}

#[test]
fn sweep_real_system_mixed() {
    let mut rng = Rng(0x1234567887654321);
    let xscales = [1.0, 1.0, 1.0e-3, 1.0e3, 1.0e5, 1.0e-5, 37.3, 0.0123, 1.0e-6];
    let tols = [1.0e-12, 1.0e-11, 3.3e-10, 1.0e-8, 1.0e-6, 2.7e-5, 1.0e-4];
    let mut worst: Vec<(f64, String)> = vec![];
    let mut nerr = 0; let mut ncase = 0;
    for case in 0..40000 {
        let n = 1 + (rng.next() % 6) as usize;
        let m = 1.0; let mm: Vec<f64> = (0..n).map(|_| rng.pick(&xscales)).collect();
        let tol = rng.pick(&tols);
        let sparse = rng.next() % 3 == 0;
        let mut a = vec![vec![0.0f64; n]; n];
        for i in 0..n { let mut sum = 0.0; for j in 0..n { if i != j { let v = if sparse && rng.next() % 2 == 0 { 0.0 } else { rng.range(-3.0, 3.0) }; a[i][j] = v; sum += v.abs(); } }
            let sg = if rng.next() % 2 == 0 { 1.0 } else { -1.0 }; a[i][i] = sg * (sum + rng.range(2.5, 6.0)); }
        let rowscale: Vec<f64> = (0..n).map(|_| if rng.next() % 2 == 0 { 1.0 } else { rng.range(0.1, 10.0) }).collect();
        let beta: Vec<f64> = (0..n).map(|_| rng.range(-1.0, 1.0)).collect();
        let gamma: Vec<f64> = (0..n).map(|_| rng.range(-1.0, 1.0)).collect();
        let r: Vec<f64> = (0..n).map(|_| match rng.next() % 6 { 0 => 0.7, 1 => -0.3, 2 => 45.24, 3 => 1.0, _ => rng.range(-50.0, 50.0) }).collect(); let r: Vec<f64> = (0..n).map(|i| r[i] * mm[i]).collect();
        // permutation (rotation by sh rows)
        let sh = if rng.next() % 2 == 0 { 0 } else { (rng.next() % n as u64) as usize };
        let fam = case % 2;
        // family 1: b computed
        let mut b = vec![0.0f64; n];
        if fam == 1 { for i in 0..n { let mut s = 0.0; for j in 0..n { s += a[i][j] * (r[j] / mm[j]); } s += beta[i] * (r[i] / mm[i]).powi(3) * 1e-4; b[i] = s; } }
        let eval = |x: &Vec<f64>| -> Vec<f64> {
            let mut o = vec![0.0; n];
            for i in 0..n {
                let mut s = 0.0;
                if fam == 0 {
                    for j in 0..n { s += a[i][j] * ((x[j] - r[j]) / mm[j]); }
                    let ui = (x[i] - r[i]) / mm[i]; let k = (i + 1) % n; let uk = (x[k] - r[k]) / mm[k];
                    s += beta[i] * ui * ui + gamma[i] * (uk.exp() - 1.0);
                } else {
                    for j in 0..n { s += a[i][j] * (x[j] / mm[j]); }
                    s += beta[i] * (x[i] / mm[i]).powi(3) * 1e-4 - b[i];
                }
                o[(i + sh) % n] = s * rowscale[i];
            }
            o
        };
        let jacf = |x: &Vec<f64>| -> Vec<Vec<f64>> {
            let mut jm = vec![vec![0.0; n]; n];
            for i in 0..n {
                let row = (i + sh) % n;
                for j in 0..n { jm[row][j] = a[i][j] / mm[j]; }
                if fam == 0 {
                    let ui = (x[i] - r[i]) / mm[i]; let k = (i + 1) % n; let uk = (x[k] - r[k]) / mm[k];
                    jm[row][i] += 2.0 * beta[i] * ui / mm[i]; jm[row][k] += gamma[i] * uk.exp() / mm[k];
                } else { jm[row][i] += 3.0 * beta[i] * (x[i] / mm[i]).powi(2) * 1e-4 / mm[i]; }
                for j in 0..n { jm[row][j] *= rowscale[i]; }
            }
            jm
        };
        let rad = if fam == 0 { 0.2 } else { 2.0 };
        let g0: Vec<f64> = (0..n).map(|i| r[i] + rng.range(-rad, rad) * mm[i]).collect();
        if fam == 1 && tol < 1.0e-9 { continue; }
        ncase += 1;
        let cnt = Cell::new(0usize);
        let func = |v: Vec64| -> Vec64 { cnt.set(cnt.get() + 1); let x: Vec<f64> = (0..n).map(|i| v[i]).collect(); let o = eval(&x); let mut w = Vec64::new(n, 0.0); for i in 0..n { w[i] = o[i]; } w };
        let jac = |v: Vec64| -> Mat64 { let x: Vec<f64> = (0..n).map(|i| v[i]).collect(); let jm = jacf(&x); let mut w = Mat64::new(n, n, 0.0); for i in 0..n { for j in 0..n { w[(i,j)] = jm[i][j]; } } w };
        let mut gv = Vec64::new(n, 0.0); for i in 0..n { gv[i] = g0[i]; }
        let mut nw = Newton::<Vec64>::new(gv.clone());
        nw.tolerance(tol); nw.iterations(50);
        for variant in 0..2 {
            cnt.set(0);
            let res = if variant == 0 { nw.solve(&func) } else { nw.solve_jacobian(&func, &jac) };
            assert!(cnt.get() <= 50 * (n + 2));
            let (ok, x) = match res { Ok(x) => (true, x), Err(x) => (false, x) };
            let mut d: f64 = 0.0; for i in 0..n { d = d.max((x[i] - r[i]).abs() / mm[i]); }
            let allow = tol * 2.0 + 1.0e-11;
            let ratio = d / allow;
            if !ok { nerr += 1; }
            if !ok || !(ratio <= 1.0) {
                worst.push((if ok && ratio == ratio { ratio } else { 1e300 }, format!("var {} fam {} n {} ok {} d {:e} tol {:e} m {:e} mm {:?} sh {} evals {} r {:?} g {:?} a {:?} rs {:?}", variant, fam, n, ok, d, tol, m, mm, sh, cnt.get(), r, g0, a, rowscale)));
            }
        }
    }
    worst.sort_by(|a, b| b.0.partial_cmp(&a.0).unwrap());
    eprintln!("cases {} err {} bad {}", ncase, nerr, worst.len());
    for w in worst.iter().take(15) { eprintln!("{:e} {}", w.0, w.1); }
    let mut i = worst.len(); let mut c = 0;
    while i > 0 && c < 10 { i -= 1; c += 1; eprintln!("{:e} {}", worst[i].0, worst[i].1); }
}
