use ohsl::newton::Newton;
use ohsl::complex::Cmplx;
use std::cell::Cell;

struct Rng(u64);
impl Rng {
    fn next(&mut self) -> u64 { let mut x = self.0; x ^= x << 13; x ^= x >> 7; x ^= x << 17; self.0 = x; x }
    fn uni(&mut self) -> f64 { (self.next() >> 11) as f64 / (1u64 << 53) as f64 }
    fn range(&mut self, a: f64, b: f64) -> f64 { a + (b - a) * self.uni() }
    fn pick<T: Copy>(&mut self, v: &[T]) -> T { v[(self.next() % v.len() as u64) as usize] }
}
fn cexp(z: Cmplx) -> Cmplx { let a = z.real.exp(); Cmplx::new(a * z.imag.cos(), a * z.imag.sin()) }
fn dist(a: Cmplx, b: Cmplx) -> f64 { (a.real - b.real).hypot(a.imag - b.imag) }

#[test]
fn sweep_cplx_scalar() {
    let mut rng = Rng(0x9E3779B97F4A7C15);
    let fscales = [1.0e280, 1.0e-280, 1.0e270, 1.0e-270, 1.0e-290, 1.0e290, 1.0e7, 1.0e-7, 1.0e40, 1.0e-40, 1.0e120, 1.0e-120, 3.7e55, 2.3e-77, -1.0, -4.1e-13, 1.0e150, 1.0e-150, 1.0e200, 1.0e-200];
    let xscales = [1.0, 1.0, 1.0e-3, 1.0e3, 1.0e5, 1.0e-5, 37.3, 0.0123, 1.0e6, 1.0e-6, 2.0e5];
    let tols = [1.0e-12, 1.0e-11, 3.3e-10, 1.0e-8, 1.0e-6, 2.7e-5, 1.0e-4];
    let tiny = [0.0, -0.0, 1.0e-7, -1.0e-40, 1.0e-120, -1.0e-300, 5e-324, 1.0e-17];
    let mut worst: Vec<(f64, String)> = vec![];
    let mut nerr = 0; let mut n = 0;
    for case in 0..60000 {
        let fam = case % 2;
        let s0 = rng.pick(&fscales);
        // complex function scale with generic phase or on-axis
        let sc = match rng.next() % 4 { 0 => Cmplx::new(s0, 0.0), 1 => Cmplx::new(0.0, s0), 2 => Cmplx::new(0.6 * s0, -0.8 * s0), _ => Cmplx::new(s0, s0 * 1.0e-30) };
        let m = rng.pick(&xscales);
        let tol = rng.pick(&tols);
        let tr = rng.range(0.0, 1.0); let ta = rng.range(0.0, 6.283185307179586);
        let shape = rng.next() % 5; // 0 generic, 1 real roots, 2 imag roots, 3 real+tiny, 4 imag+tiny
        let mk = |rng: &mut Rng, lo: f64, hi: f64| -> Cmplx {
            let a = rng.range(lo, hi); let b = rng.range(lo, hi);
            match shape { 0 => Cmplx::new(a, b), 1 => Cmplx::new(a, 0.0), 2 => Cmplx::new(0.0, b), 3 => Cmplx::new(a, rng.pick(&tiny)), _ => Cmplx::new(rng.pick(&tiny), b) }
        };
        let desc; let root: Cmplx; let mut guess: Cmplx;
        let f: Box<dyn Fn(Cmplx) -> Cmplx>;
        if fam == 0 {
            let k = 1 + (rng.next() % 5) as usize;
            let mut roots: Vec<Cmplx> = vec![];
            while roots.len() < k {
                let r = mk(&mut rng, -50.0, 50.0) * m;
                if roots.iter().all(|q| dist(*q, r) > 2.0 * m) { roots.push(r); }
            }
            let gap = roots[1..].iter().map(|q| dist(*q, roots[0])).fold(f64::INFINITY, f64::min);
            let rho = if k == 1 { 10.0 * m } else { gap / (3.0 * k as f64) };
            root = roots[0]; guess = root + Cmplx::new(ta.cos(), ta.sin()) * (tr * rho);
            desc = format!("poly roots {:?} s {:?}", roots, sc);
            let rr = roots.clone();
            f = Box::new(move |x| { let mut p = sc; for r in rr.iter() { p = p * ((x - *r) / m); } p });
        } else {
            let a = mk(&mut rng, -3.0, 3.0) / m;
            if a.abs() * m < 0.2 { continue; }
            let lnb = mk(&mut rng, -3.0, 3.0);
            let b = cexp(lnb);
            root = lnb / a; guess = root + Cmplx::new(ta.cos(), ta.sin()) * (tr * 0.5 / a.abs());
            desc = format!("exp a {:?} lnb {:?} s {:?}", a, lnb, sc);
            f = Box::new(move |x| sc * (cexp(a * x) - b));
        }
        match rng.next() % 6 { 0 => guess.imag = if root.imag.abs() < 1e-6*m { rng.pick(&tiny) } else { guess.imag }, 1 => guess.real = if root.real.abs() < 1e-6*m { rng.pick(&tiny) } else { guess.real }, _ => {} }
        if root.abs() < 1.0e-8 { continue; }
        if tol < 100.0 * f64::EPSILON * root.abs().max(50.0 * m) { continue; }
        n += 1;
        let cnt = Cell::new(0usize);
        let mut nw = Newton::<Cmplx>::new(guess);
        nw.tolerance(tol); nw.iterations(50);
        let g = |x: Cmplx| { cnt.set(cnt.get() + 1); f(x) };
        let before = nw.parameters();
        let res = nw.solve(&g);
        assert!(cnt.get() <= 150);
        assert!(before == nw.parameters());
        let (ok, x) = match res { Ok(x) => (true, x), Err(x) => (false, x) };
        let d = dist(x, root);
        let allow = tol + 8.0 * f64::EPSILON * root.abs();
        let ratio = d / allow;
        if !ok { nerr += 1; }
        if !ok || !(ratio <= 1.5) {
            worst.push((if ok && ratio == ratio { ratio } else { 1e300 }, format!("ok {} x {:?} root {:?} guess {:?} tol {:e} m {:e} evals {} {}", ok, x, root, guess, tol, m, cnt.get(), desc)));
        }
    }
    worst.sort_by(|a, b| b.0.partial_cmp(&a.0).unwrap());
    eprintln!("cases {} err {} bad {}", n, nerr, worst.len());
    for w in worst.iter().take(30) { eprintln!("{:e} {}", w.0, w.1); }
    let mut i = worst.len(); let mut c = 0;
    while i > 0 && c < 10 { i -= 1; c += 1; eprintln!("{:e} {}", worst[i].0, worst[i].1); }
}
