// C17 finding 2: the scalar variants (real and complex) report Err from inside the basin - even when the
// guess IS the correctly rounded root - as soon as the tolerance (inside the quantified range 1e-12..1e-4)
// is below half a unit in the last place of the root: the test |dx| <= tol is absolute, and next to a root
// of size 3e4 the smallest non-zero Newton step is about 3.6e-12.  The iteration sits on the root (or hops
// between the two neighbouring doubles) until the iterations are used up and then answers Err(root).
use ohsl::newton::Newton;
use ohsl::complex::Cmplx;

#[test]
fn real_guess_is_the_rounded_root() {
    // x^2 = 1e9, root 31622.776601683792 (far below the 2^27 limit of the finite-difference step)
    let root = (1.0e9f64).sqrt();
    let mut nw = Newton::<f64>::new(root);
    nw.tolerance(1.0e-12);
    nw.iterations(50);
    let r = nw.solve(&|x: f64| x * x - 1.0e9);
    assert!(r.is_ok(), "guess = correctly rounded root, 50 iterations, tol 1e-12: {:?}", r);
}

#[test]
fn real_guess_in_the_basin() {
    let root = (1.0e9f64).sqrt();
    for &g in &[root * 1.001, root * 0.999, root + 1.0] {
        let mut nw = Newton::<f64>::new(g);
        nw.tolerance(1.0e-12);
        nw.iterations(50);
        let r = nw.solve(&|x: f64| x * x - 1.0e9);
        match r {
            Ok(x) => assert!((x - root).abs() <= 1.0e-11),
            Err(x) => panic!("guess {}: Err({}) although |x - root| = {:e} ( 1 ulp = 3.6e-12 )", g, x, (x - root).abs()),
        }
    }
    // the same with a trigonometric equation: sin x = 0 at 6000 pi, tol 1e-12
    let root = 6000.0 * std::f64::consts::PI;
    let mut nw = Newton::<f64>::new(root + 0.1);
    nw.tolerance(1.0e-12);
    nw.iterations(50);
    let r = nw.solve(&|x: f64| x.sin());
    assert!(r.is_ok(), "sin x at 6000 pi: {:?}", r);
}

#[test]
fn complex_purely_imaginary_root() {
    // z^2 = -1e9, root 31622.776601683792 i
    let root = (1.0e9f64).sqrt();
    let mut nw = Newton::<Cmplx>::new(Cmplx::new(0.0, root * 1.001));
    nw.tolerance(1.0e-12);
    nw.iterations(50);
    let r = nw.solve(&|z: Cmplx| z * z + Cmplx::new(1.0e9, 0.0));
    match r {
        Ok(z) => assert!((z - Cmplx::new(0.0, root)).abs() <= 1.0e-11),
        Err(z) => panic!("Err({}) although |z - root| = {:e}", z, (z - Cmplx::new(0.0, root)).abs()),
    }
}
