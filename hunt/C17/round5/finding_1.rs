// C17 finding 1: the system variants answer Ok with a point that is nowhere near the root
// (absolute residual test on the PREVIOUS iterate, then one unchecked step).
//
// exp(-x) = c, root x* = -ln c.  The guesses used are inside the basin of quadratic convergence
// (errors 0.42 -> 0.077 -> 0.0029 -> 4e-6 -> 1e-11 with the exact derivative; the scalar variant
// Newton::<f64> converges from the same guesses to 1e-14).
use ohsl::newton::Newton;
use ohsl::vector::{Vec64, Vector};
use ohsl::matrix::{Mat64, Matrix};
use ohsl::complex::Cmplx;

fn check(c: f64, tol: f64, guess: f64) {
    let root = -c.ln();
    let f = move |x: Vec64| Vec64::create(vec![(-x[0]).exp() - c]);
    let j = move |x: Vec64| Mat64::new(1, 1, -(-x[0]).exp());
    let fc = move |z: Vector<Cmplx>| Vector::<Cmplx>::create(vec![(-z[0]).exp() - Cmplx::new(c, 0.0)]);
    let jc = move |z: Vector<Cmplx>| Matrix::<Cmplx>::new(1, 1, -(-z[0]).exp());

    // sanity: the scalar variant succeeds from this guess with this tolerance
    let mut ns = Newton::<f64>::new(guess);
    ns.tolerance(tol);
    let s = ns.solve(&move |x: f64| (-x).exp() - c).expect("scalar variant converges");
    assert!((s - root).abs() <= 10.0 * tol);

    let mut nw = Newton::<Vec64>::new(Vec64::create(vec![guess]));
    nw.tolerance(tol);
    let mut nc = Newton::<Vector<Cmplx>>::new(Vector::<Cmplx>::create(vec![Cmplx::new(guess, 0.0)]));
    nc.tolerance(tol);
    let answers = [
        ("real, finite differences", nw.solve(&f).map(|v| v[0])),
        ("real, supplied Jacobian", nw.solve_jacobian(&f, &j).map(|v| v[0])),
        ("complex, finite differences", nc.solve(&fc).map(|v| v[0].real).map_err(|v| Vec64::create(vec![v[0].real]))),
        ("complex, supplied Jacobian", nc.solve_jacobian(&fc, &jc).map(|v| v[0].real).map_err(|v| Vec64::create(vec![v[0].real]))),
    ];
    for (name, a) in answers.iter() {
        match a {
            Ok(x) => assert!((x - root).abs() <= 100.0 * tol,
                "{}: exp(-x) = {:e}, tol {:e}, guess {}: Ok({}) but the root is {} (distance {:e} = {:e} tolerances)",
                name, c, tol, guess, x, root, (x - root).abs(), (x - root).abs() / tol),
            Err(_) => panic!("{}: Err from inside the basin (20 iterations)", name),
        }
    }
}

#[test]
fn default_tolerance() { check(1.0e-8, 1.0e-8, 18.0); }   // root 18.4207; Ok(18.3434): 7.7e6 tolerances away

#[test]
fn tolerance_1e_4() { check(1.0e-4, 1.0e-4, 8.7); }        // root 9.2103; Ok(9.0997): 1.1e3 tolerances away

#[test]
fn two_equations() {
    // diagonal 2 x 2 system exp(-x) = 1e-8, exp(-y) = 2e-8; root (18.4207, 17.7275)
    let f = |v: Vec64| Vec64::create(vec![(-v[0]).exp() - 1.0e-8, (-v[1]).exp() - 2.0e-8]);
    let nw = Newton::<Vec64>::new(Vec64::create(vec![18.1, 17.5]));      // default tol 1e-8, 20 iterations
    let x = nw.solve(&f).expect("inside the basin");
    let (rx, ry) = (-(1.0e-8f64).ln(), -(2.0e-8f64).ln());
    assert!((x[0] - rx).abs() <= 1.0e-6 && (x[1] - ry).abs() <= 1.0e-6,
        "Ok([{}, {}]) but the root is [{}, {}]", x[0], x[1], rx, ry);
}
