// C17 finding 3: with tol = 1e-12 (inside the stated range 1e-12..1e-4) the system variants can never
// report success for x^2 = 8192 (root 64*sqrt(2) = 90.5097, a simple root), although their iterate is the
// double nearest to the root after 5 iterations. Newton<f64> on the same function and tolerance succeeds.
use ohsl::newton::Newton;
use ohsl::vector::Vec64;
use ohsl::matrix::Mat64;

fn check( c: f64 ) {
    let tol = 1.0e-12;
    let root = c.sqrt();
    let guess = 1.01 * root;

    let mut ns = Newton::<f64>::new( guess );
    ns.tolerance( tol );
    ns.iterations( 50 );
    let xs = ns.solve( &|x: f64| x * x - c ).expect( "scalar variant converges" );
    assert!( ( xs - root ).abs() <= 10.0 * tol );

    let f = |x: Vec64| Vec64::create( vec![ x[0] * x[0] - c ] );
    let j = |x: Vec64| Mat64::new( 1, 1, 2.0 * x[0] );
    let mut nv = Newton::<Vec64>::new( Vec64::create( vec![ guess ] ) );
    nv.tolerance( tol );
    nv.iterations( 50 );
    let fd = nv.solve( &f );
    let ex = nv.solve_jacobian( &f, &j );
    for ( name, res ) in [ ( "solve", fd ), ( "solve_jacobian", ex ) ] {
        match res {
            Ok( x ) => assert!( ( x[0] - root ).abs() <= 10.0 * tol ),
            Err( x ) => panic!( "Newton<Vec64>::{} on x^2 = {} (tol 1e-12, 50 iterations) reported Err({}) ; root = {}, distance {:e}",
                                name, c, x[0], root, ( x[0] - root ).abs() ),
        }
    }
}

#[test]
fn x_squared_equals_8192() { check( 8192.0 ); }

#[test]
fn x_squared_equals_20001() { check( 20001.0 ); }
