// C17 finding 3 (borderline - small-scale end of the absolute finite-difference step):
// the scalar variant differentiates with the fixed step delta = 1e-8 whatever the scale of x.
// For a polynomial whose separated roots are of size 1e-9 the central difference over 2e-8 spans all
// the roots; the "derivative" is wrong by 100 % or in sign, and Newton either stops early (Ok far
// outside the tolerance) or wanders away (Err) from a guess where textbook Newton with the analytic
// derivative converges quadratically in a handful of steps.
use ohsl::newton::Newton;

const R: f64 = 8.5e-10;

fn textbook_newton( f: &dyn Fn(f64) -> f64, df: &dyn Fn(f64) -> f64, guess: f64, tol: f64 ) -> ( f64, usize ) {
    let mut x = guess;
    for k in 1..=50 {
        let dx = f( x ) / df( x );
        x -= dx;
        if dx.abs() <= tol { return ( x, k ); }
    }
    ( f64::NAN, 50 )
}

#[test]
fn three_separated_roots_of_size_1e_minus_9() {
    // roots R, 3R, -2R
    let f = |x: f64| ( x - R ) * ( x - 3.0 * R ) * ( x + 2.0 * R );
    let df = |x: f64| ( x - 3.0 * R ) * ( x + 2.0 * R ) + ( x - R ) * ( x + 2.0 * R ) + ( x - R ) * ( x - 3.0 * R );
    let guess = 1.1 * R;
    let tol = 1.0e-12;
    let ( x_ref, steps ) = textbook_newton( &f, &df, guess, tol );
    assert!( ( x_ref - R ).abs() <= 1.0e-14 && steps <= 6, "reference: guess is inside the quadratic basin" );
    let mut newton = Newton::<f64>::new( guess );
    newton.tolerance( tol );
    newton.iterations( 50 );
    match newton.solve( &f ) {
        Ok( x ) => assert!( ( x - R ).abs() <= 10.0 * tol, "Ok( {:e} ) is {:e} from the root", x, ( x - R ).abs() ),
        // crate: Err( 1.496e-9 ): after 50 iterations further from the root than the guess was
        Err( x ) => panic!( "in-basin guess, 50 iterations: Err( {:e} ), {:e} from the root (guess was {:e} away)", x, ( x - R ).abs(), ( guess - R ).abs() ),
    }
}

#[test]
fn cube_root_of_size_1e_minus_9() {
    let a = R * R * R;
    let f = |x: f64| x * x * x - a;
    let df = |x: f64| 3.0 * x * x;
    let guess = 1.1 * R;
    let tol = 1.0e-12;
    let ( x_ref, steps ) = textbook_newton( &f, &df, guess, tol );
    assert!( ( x_ref - R ).abs() <= 1.0e-14 && steps <= 6, "reference: guess is inside the quadratic basin" );
    let mut newton = Newton::<f64>::new( guess );
    newton.tolerance( tol );
    newton.iterations( 50 );
    match newton.solve( &f ) {
        // crate: Ok( 8.936e-10 ), 4.4e-11 = 44 tolerances away from the root
        Ok( x ) => assert!( ( x - R ).abs() <= 10.0 * tol, "Ok( {:e} ) is {:e} from the root, tolerance {:e}", x, ( x - R ).abs(), tol ),
        Err( x ) => panic!( "in-basin guess, 50 iterations: Err( {:e} )", x ),
    }
}
