// C17 finding 2: the complex variants fail on exp(z) = c when |c| (hence |f'| at the root) is outside
// about [1e-154, 1e154]: the step dx = f / f' uses the textbook complex division whose denominator
// |f'|^2 underflows / overflows.  The real variant solves the same equations to the last bit.
use ohsl::newton::Newton;
use ohsl::complex::Cmplx;

// exp written with f64 functions only (independent of the crate's Cmplx::exp)
fn cexp( z: Cmplx ) -> Cmplx {
    let m = z.real.exp();
    Cmplx::new( m * z.imag.cos(), m * z.imag.sin() )
}

fn dist( a: Cmplx, re: f64 ) -> f64 { ( a.real - re ).hypot( a.imag ) }

#[test]
fn tiny_right_hand_side_success_far_from_the_root() {
    let c: f64 = 1.0e-160;
    let root = c.ln();                                   // -368.41..., the root of exp(z) = c nearest the guess
    // the real variant, same equation, same guess offset: converges to the root
    let mut real = Newton::<f64>::new( root + 0.1 );
    real.tolerance( 1.0e-10 ); real.iterations( 50 );
    let x = real.solve( &|x: f64| x.exp() - c ).expect( "real variant converges" );
    assert!( ( x - root ).abs() <= 1.0e-9 );
    // the complex variant
    let mut newton = Newton::<Cmplx>::new( Cmplx::new( root + 0.1, 0.05 ) );
    newton.tolerance( 1.0e-10 ); newton.iterations( 50 );
    let result = newton.solve( &|z: Cmplx| cexp( z ) - c );
    match result {
        // crate: Ok with |z - root| = 2.8e-4, i.e. 2.8 million times the tolerance
        Ok( z ) => assert!( dist( z, root ) <= 1.0e-9, "Ok( {} ) is {:e} away from the root {}", z, dist( z, root ), root ),
        Err( z ) => panic!( "guess inside the basin, 50 iterations, yet Err( {} )", z ),
    }
}

#[test]
fn huge_right_hand_side_failure_inside_the_basin() {
    let c: f64 = 1.0e160;
    let root = c.ln();                                   // 368.41...
    let mut real = Newton::<f64>::new( root + 0.1 );
    real.tolerance( 1.0e-10 ); real.iterations( 50 );
    let x = real.solve( &|x: f64| x.exp() - c ).expect( "real variant converges" );
    assert!( ( x - root ).abs() <= 1.0e-9 );
    let mut newton = Newton::<Cmplx>::new( Cmplx::new( root + 0.1, 0.05 ) );
    newton.tolerance( 1.0e-10 ); newton.iterations( 50 );
    let result = newton.solve( &|z: Cmplx| cexp( z ) - c );
    match result {
        Ok( z ) => assert!( dist( z, root ) <= 1.0e-9, "Ok( {} ) is {:e} away from the root", z, dist( z, root ) ),
        // crate: Err( NaN, NaN ) after the first step
        Err( z ) => panic!( "guess inside the basin, 50 iterations, yet Err( {} )", z ),
    }
}
