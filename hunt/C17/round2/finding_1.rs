// C17 finding 1: the scalar variants report SUCCESS on root-free functions.
// Their only stopping test is |dx| <= tol with dx = f(x) / (central difference over 2*delta);
// a jump of f inside [x - delta, x + delta] makes the difference quotient ~ jump / 2e-8, so dx is
// tiny although f(x) is nowhere near zero.  Ok(x) is returned with |f(x)| >= 1.
use ohsl::newton::Newton;
use ohsl::complex::Cmplx;

// positive everywhere: 1 on ( -inf, 0 ], 4 on ( 0, inf ) - no root, no sign change
fn step( x: f64 ) -> f64 { if x > 0.0 { 4.0 } else { 1.0 } }

// floor(x) + 1/2 only takes half-integer values: |f| >= 1/2 everywhere
fn stairs( x: f64 ) -> f64 { x.floor() + 0.5 }

fn step_c( z: Cmplx ) -> Cmplx { if z.real > 0.0 { Cmplx::new( 4.0, 0.0 ) } else { Cmplx::new( 1.0, 0.0 ) } }

#[test]
fn real_default_parameters_step_function() {
    let newton = Newton::<f64>::new( 0.0 );          // tol 1e-8, delta 1e-8, 20 iterations
    let result = newton.solve( &step );
    // crate: Ok(-6.67e-9) where step = 1
    match result {
        Ok( x ) => panic!( "success reported at x = {:e} where f(x) = {} (f has no root)", x, step( x ) ),
        Err( _ ) => {}
    }
}

#[test]
fn real_stairs_far_from_the_sign_change() {
    let mut newton = Newton::<f64>::new( 100.0 );
    newton.tolerance( 1.0e-4 );
    newton.iterations( 50 );
    let result = newton.solve( &stairs );
    // crate: Ok(99.99999799) where stairs = 99.5
    match result {
        Ok( x ) => panic!( "success reported at x = {:e} where f(x) = {} (f has no root)", x, stairs( x ) ),
        Err( _ ) => {}
    }
}

#[test]
fn complex_default_parameters_step_function() {
    let newton = Newton::<Cmplx>::new( Cmplx::new( 0.0, 0.0 ) );
    let result = newton.solve( &step_c );
    match result {
        Ok( z ) => panic!( "success reported at z = {} where f(z) = {} (f has no root)", z, step_c( z ) ),
        Err( _ ) => {}
    }
}
