// C17 finding 2: every finite-difference variant breaks down for roots of magnitude >= 2^27 (1.35e8).
//
// f(x) = x - 1e9 is linear, so every guess is inside the basin and one exact Newton step lands on the root.
// The crate perturbs by the ABSOLUTE step delta = 1e-8, and 1e9 + 1e-8 == 1e9 in f64, so the
// difference quotient is 0, the step is +-inf (or 0/0 = NaN) and the solver ends with Err(NaN)
// - or even with Ok([NaN]) when the guess is the root itself.
use ohsl::newton::Newton;
use ohsl::complex::Cmplx;
use ohsl::vector::{Vec64, Vector};

const R: f64 = 1.0e9;

#[test]
fn real_scalar_linear() {
    let mut newton = Newton::<f64>::new( R + 1.0 );
    newton.iterations( 50 );
    let x = newton.solve( &|x: f64| x - R ).expect( "x - 1e9 from 1e9 + 1 must converge" );
    assert!( ( x - R ).abs() <= 1.0e-6 );
}

#[test]
fn real_scalar_quadratic() {
    // separated roots +-1e9
    let mut newton = Newton::<f64>::new( R + 1.0 );
    newton.iterations( 50 );
    let x = newton.solve( &|x: f64| ( x - R ) * ( x + R ) ).expect( "(x-1e9)(x+1e9) from 1e9 + 1 must converge" );
    assert!( ( x - R ).abs() <= 1.0e-6 );
}

#[test]
fn complex_scalar_linear() {
    let mut newton = Newton::<Cmplx>::new( Cmplx::new( R + 1.0, 1.0 ) );
    newton.iterations( 50 );
    let z = newton.solve( &|z: Cmplx| z - Cmplx::new( R, 0.0 ) ).expect( "z - 1e9 must converge" );
    assert!( ( z - Cmplx::new( R, 0.0 ) ).abs() <= 1.0e-6 );
}

#[test]
fn real_system_fd_linear() {
    let mut newton = Newton::<Vec64>::new( Vec64::create( vec![ R + 1.0, 2.0 ] ) );
    newton.iterations( 50 );
    let f = |x: Vec64| Vec64::create( vec![ 2.0 * ( x[0] - R ) + ( x[1] - 1.0 ), 3.0 * ( x[1] - 1.0 ) ] );
    let x = newton.solve( &f ).expect( "linear system with root (1e9, 1) must converge" );
    assert!( ( x[0] - R ).abs() <= 1.0e-6 && ( x[1] - 1.0 ).abs() <= 1.0e-6 );
}

#[test]
fn complex_system_fd_linear() {
    let mut newton = Newton::<Vector<Cmplx>>::new( Vector::create( vec![ Cmplx::new( R + 1.0, 1.0 ) ] ) );
    newton.iterations( 50 );
    let f = |z: Vector<Cmplx>| Vector::create( vec![ z[0] - Cmplx::new( R, 0.0 ) ] );
    let z = newton.solve( &f ).expect( "z - 1e9 must converge" );
    assert!( ( z[0] - Cmplx::new( R, 0.0 ) ).abs() <= 1.0e-6 );
}

#[test]
fn guess_equal_to_the_root_is_reported_ok_nan() {
    // the guess IS the root: residual 0 <= tol, but the finite-difference Jacobian is 0, dx = 0/0
    let newton = Newton::<Vec64>::new( Vec64::create( vec![ R ] ) );
    let res = newton.solve( &|x: Vec64| Vec64::create( vec![ x[0] - R ] ) );
    match res {
        Ok( x ) => assert!( ( x[0] - R ).abs() <= 1.0e-6, "Ok({:?}) is not the root 1e9", x ),
        Err( x ) => panic!( "Err({:?}) although the guess is the root", x ),
    }
}
