// C17 finding 1: the system variants report Ok far away from the root.
//
// F(x) = exp(x) - 1e-8 is smooth with the single simple root x* = ln(1e-8) = -18.42...; the guess
// x* + 0.5 lies inside the basin of quadratic convergence (errors 0.5 -> 0.107 -> 0.0055 -> 1.5e-5 -> ...).
// Newton<f64> (step criterion) returns the root; Newton<Vec64> (dimension 1, default parameters)
// returns Ok after ONE step, 0.107 away from the root, i.e. 1e7 tolerances away.
use ohsl::newton::Newton;
use ohsl::vector::Vec64;
use ohsl::matrix::Mat64;

fn check( c: f64, tol: f64 ) {
    let root = c.ln();
    let guess = root + 0.5;

    // scalar variant: fine
    let mut ns = Newton::<f64>::new( guess );
    ns.tolerance( tol );
    let xs = ns.solve( &|x: f64| x.exp() - c ).expect( "scalar variant converges" );
    assert!( ( xs - root ).abs() <= 100.0 * tol, "scalar: {} vs {}", xs, root );

    // system variants, dimension 1
    let f = |x: Vec64| Vec64::create( vec![ x[0].exp() - c ] );
    let j = |x: Vec64| Mat64::new( 1, 1, x[0].exp() );
    let mut nv = Newton::<Vec64>::new( Vec64::create( vec![ guess ] ) );
    nv.tolerance( tol );
    let fd = nv.solve( &f );
    let ex = nv.solve_jacobian( &f, &j );
    for ( name, res ) in [ ( "solve", fd ), ( "solve_jacobian", ex ) ] {
        match res {
            Ok( x ) => assert!( ( x[0] - root ).abs() <= 100.0 * tol,
                "Newton<Vec64>::{} (c = {:e}, tol = {:e}) returned Ok({}) but the root is {}: distance {:e}",
                name, c, tol, x[0], root, ( x[0] - root ).abs() ),
            Err( x ) => panic!( "Newton<Vec64>::{} failed from a guess inside the basin: {:?}", name, x ),
        }
    }
}

#[test]
fn exp_equals_1e_minus_8_default_tolerance() {
    check( 1.0e-8, 1.0e-8 );
}

#[test]
fn exp_equals_1e_minus_4_tolerance_1e_minus_4() {
    check( 1.0e-4, 1.0e-4 );
}
