// C17: the system variants of Newton report success far from the root when the
// function has a small slope: exp( x ) = c for a small c, as a system of dimension 1.
use ohsl::newton::Newton;
use ohsl::complex::Cmplx;
use ohsl::vector::{Vec64, Vector};
use ohsl::matrix::{Mat64, Matrix};

// ( c, tolerance, guess - root ); Newton's error map for exp( x ) - c is e -> e - 1 + exp( -e ),
// i.e. 0.5 -> 0.107 -> 0.0055 -> 1.5e-5 -> 1.1e-10: quadratic from the first step on
const CASES: [ ( f64, f64, f64 ); 2 ] = [ ( 1.0e-5, 1.0e-5, 0.5 ), ( 1.0e-3, 1.0e-4, 0.09 ) ];

fn check( name: &str, tol: f64, dist: Result<f64, f64> ) {
    match dist {
        Ok( d ) => assert!( d <= 100.0 * tol,
            "{}: Ok with a point at distance {:e} from the root, tolerance {:e}", name, d, tol ),
        Err( d ) => panic!( "{}: Err at distance {:e} for a guess inside the basin", name, d ),
    }
}

#[test]
fn real_system_success_means_a_root() {
    for &( c, tol, off ) in CASES.iter() {
        let root = c.ln();
        let f = move |x: Vec64| Vec64::create( vec![ x[0].exp() - c ] );
        let j = move |x: Vec64| Mat64::new( 1, 1, x[0].exp() );
        let mut newton = Newton::<Vec64>::new( Vec64::create( vec![ root + off ] ) );
        newton.tolerance( tol );
        newton.iterations( 50 );
        let dist = |r: Result<Vec64, Vec64>| r.map( |x| ( x[0] - root ).abs() ).map_err( |x| ( x[0] - root ).abs() );
        check( "Newton<Vec64>::solve", tol, dist( newton.solve( &f ) ) );
        check( "Newton<Vec64>::solve_jacobian", tol, dist( newton.solve_jacobian( &f, &j ) ) );
        // the scalar variant on the same equation and guess is fine
        let mut scalar = Newton::<f64>::new( root + off );
        scalar.tolerance( tol );
        scalar.iterations( 50 );
        let s = scalar.solve( &move |x: f64| x.exp() - c );
        check( "Newton<f64>::solve", tol, s.map( |x| ( x - root ).abs() ).map_err( |x| ( x - root ).abs() ) );
    }
}

#[test]
fn complex_system_success_means_a_root() {
    for &( c, tol, off ) in CASES.iter() {
        let root = Cmplx::new( c.ln(), 0.0 );
        let f = move |z: Vector<Cmplx>| Vector::<Cmplx>::create( vec![ z[0].exp() - c ] );
        let j = move |z: Vector<Cmplx>| Matrix::<Cmplx>::new( 1, 1, z[0].exp() );
        let mut newton = Newton::<Vector<Cmplx>>::new( Vector::<Cmplx>::create( vec![ root + Cmplx::new( off, 0.0 ) ] ) );
        newton.tolerance( tol );
        newton.iterations( 50 );
        let dist = |r: Result<Vector<Cmplx>, Vector<Cmplx>>| r.map( |x| ( x[0] - root ).abs() ).map_err( |x| ( x[0] - root ).abs() );
        check( "Newton<Vector<Cmplx>>::solve", tol, dist( newton.solve( &f ) ) );
        check( "Newton<Vector<Cmplx>>::solve_jacobian", tol, dist( newton.solve_jacobian( &f, &j ) ) );
    }
}

// the same with a diagonally dominant system of dimension 3:
// f_i = s * ( 4 ( x_i - r_i ) + ( x_i - r_i )^2 + 0.5 * sum_{j != i} ( sin x_j - sin r_j ) ), s = 2e-5
#[test]
fn scaled_diagonally_dominant_system() {
    let r = [ 0.3, -1.1, 2.0 ];
    let s = 2.0e-5;
    let tol = 1.0e-4;
    let f = move |x: Vec64| {
        let mut out = Vec64::new( 3, 0.0 );
        for i in 0..3 {
            let e = x[i] - r[i];
            let mut v = 4.0 * e + e * e;
            for j in 0..3 { if j != i { v += 0.5 * ( x[j].sin() - r[j].sin() ); } }
            out[i] = s * v;
        }
        out
    };
    let mut newton = Newton::<Vec64>::new( Vec64::create( vec![ r[0] + 0.4, r[1] - 0.4, r[2] + 0.4 ] ) );
    newton.tolerance( tol );
    newton.iterations( 50 );
    let dist = newton.solve( &f ).map( |x| ( 0..3 ).map( |i| ( x[i] - r[i] ).abs() ).fold( 0.0, f64::max ) )
                                 .map_err( |x| ( 0..3 ).map( |i| ( x[i] - r[i] ).abs() ).fold( 0.0, f64::max ) );
    check( "Newton<Vec64>::solve ( dimension 3 )", tol, dist );
}
