// C11 finding 4 (borderline: trim is named among the property's mechanisms, not in its statement): trim() of the empty
// polynomial panics instead of leaving the zero polynomial alone, although is_zero() on it correctly answers true.
use ohsl::Polynomial;

#[test]
fn trim_of_empty_is_a_no_op() {
    let mut e = Polynomial::<f64>::empty();
    assert!( e.is_zero() );
    e.trim(); // panics: "attempt to subtract with overflow" (debug) / index out of bounds (release)
    assert_eq!( e.size(), 0 );
    assert!( e.is_zero() );
}

#[test]
fn trim_of_an_empty_arithmetic_result() {
    let p = Polynomial::new( vec![ 1.0, 2.0 ] );
    let mut r = &p * &Polynomial::<f64>::empty(); // the zero polynomial, represented as empty
    r.trim(); // panics
    assert_eq!( r.size(), 0 );
}
