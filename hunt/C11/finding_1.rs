// C11 finding 1: derivative_at( x, degree + 1 ) of a NON-EMPTY polynomial panics instead of returning 0.
// The property quantifies over derivative orders 0..degree+1 and all evaluation points; the (degree+1)-th
// derivative of a degree-d polynomial is the zero polynomial, so its value is 0 everywhere.
use ohsl::{Cmplx, Polynomial};

#[test]
fn constant_first_derivative_at_point_is_zero() {
    // smallest input: p(x) = 5 (degree 0), order 1 = degree + 1
    let p = Polynomial::new( vec![ 5.0 ] );
    assert_eq!( p.derivative_n( 1 ).size(), 0 ); // fine: the derivative is the empty (= zero) polynomial
    assert_eq!( p.derivative_at( 2.0, 1 ), 0.0 ); // panics: Result::unwrap() on Err("Polynomial.degree() == 0.")
}

#[test]
fn linear_second_derivative_at_point_is_zero() {
    let p = Polynomial::new( vec![ 1.0, 2.0 ] ); // 1 + 2x
    assert_eq!( p.derivative_at( 0.0, 0 ), 1.0 );
    assert_eq!( p.derivative_at( 0.0, 1 ), 2.0 );
    assert_eq!( p.derivative_at( 0.0, 2 ), 0.0 ); // panics
}

#[test]
fn degree_8_ninth_derivative_at_point_is_zero_integer_and_complex() {
    let p = Polynomial::<i64>::new( ( 1..=9 ).collect() );
    assert_eq!( p.derivative_at( 3, 8 ), 9 * 40320 );
    assert_eq!( p.derivative_at( 3, 9 ), 0 ); // panics
    let c = Polynomial::new( vec![ Cmplx::new( 0.0, 1.0 ), Cmplx::new( 2.0, 0.0 ) ] );
    assert_eq!( c.derivative_at( Cmplx::new( 1.0, 1.0 ), 2 ), Cmplx::new( 0.0, 0.0 ) ); // panics
}
