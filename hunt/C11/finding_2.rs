// C11 finding 2: the empty polynomial does not "act as zero" under evaluation - eval() panics, and so does eval() of every
// arithmetic result that is empty ( p * empty, empty * p, empty + empty, empty - empty, -empty, empty * scalar ).
// Property: the value of a result at any point equals the same combination of the operands' values; empty acts as zero.
use ohsl::{Cmplx, Polynomial};

#[test]
fn empty_polynomial_evaluates_to_zero() {
    let e = Polynomial::<f64>::empty();
    assert_eq!( e.eval( 3.0 ), 0.0 ); // panics: Result::unwrap() on Err("Polynomial.degree() == 0.")
}

#[test]
fn product_with_empty_evaluates_to_product_of_values() {
    let p = Polynomial::new( vec![ 1.0, 2.0, 3.0 ] );
    let e = Polynomial::<f64>::empty();
    let x = 2.0;
    let pe = &p * &e; // empty polynomial (size 0), as documented by the property
    assert_eq!( pe.size(), 0 );
    assert_eq!( pe.eval( x ), p.eval( x ) * 0.0 ); // panics
}

#[test]
fn sum_and_difference_of_empties_evaluate_to_zero() {
    let e = Polynomial::<i64>::empty();
    assert_eq!( ( &e + &e ).eval( 7 ), 0 ); // panics
}

#[test]
fn complex_empty_times_scalar_evaluates_to_zero() {
    let e = Polynomial::<Cmplx>::empty();
    let s = &e * Cmplx::new( 0.0, 2.0 );
    assert_eq!( s.eval( Cmplx::new( 1.0, 1.0 ) ), Cmplx::new( 0.0, 0.0 ) ); // panics
}
