// C11 finding 3: differentiating the empty (= zero) polynomial panics, so linearity of differentiation and the product
// rule cannot even be evaluated when one operand is empty; derivative_n( n >= 1 ) and derivative_at( x, n >= 0 ) likewise.
use ohsl::Polynomial;

fn coeffs( p: &Polynomial<f64> ) -> Vec<f64> { ( 0..p.size() ).map( |i| p[ i ] ).collect() }

#[test]
fn derivative_of_empty_is_zero() {
    let e = Polynomial::<f64>::empty();
    let d = e.derivative(); // panics: Result::unwrap() on Err("Polynomial.degree() == 0.")
    assert!( d.is_zero() );
}

#[test]
fn derivative_n_of_empty_is_zero() {
    // for the empty polynomial the quantifier's order range still contains n = 1
    let e = Polynomial::<i64>::empty();
    assert!( e.derivative_n( 0 ).is_zero() ); // fine
    assert!( e.derivative_n( 1 ).is_zero() ); // panics
}

#[test]
fn linearity_with_empty_operand() {
    let e = Polynomial::<f64>::empty();
    let q = Polynomial::new( vec![ 1.0, 2.0, 3.0 ] );
    let lhs = ( &e + &q ).derivative(); // [2, 6]
    let rhs = &e.derivative() + &q.derivative(); // panics in e.derivative()
    assert_eq!( coeffs( &lhs ), coeffs( &rhs ) );
}

#[test]
fn product_rule_with_empty_operand() {
    let e = Polynomial::<f64>::empty();
    let q = Polynomial::new( vec![ 1.0, 2.0, 3.0 ] );
    let pq = &e * &q; // empty
    assert_eq!( pq.size(), 0 );
    let rhs = &( &e.derivative() * &q ) + &( &e * &q.derivative() ); // panics in e.derivative()
    assert!( rhs.is_zero() );
    assert!( pq.derivative().is_zero() ); // would panic as well
}
