// C11: derivative coefficients equal the termwise formula k * a_k, exactly where the result is exactly
// representable.  8 * a_8 and 4 * a_4 are exact in binary floating point for every finite a (power-of-two
// multiples), yet derivative() forms them by adding a_k to 0 k times and so rounds up to k - 1 times.
use ohsl::{Polynomial, Cmplx, Complex};

#[test]
fn derivative_of_tenth_x8() {
    let mut c = vec![ 0.0; 9 ];
    c[ 8 ] = 0.1;
    let d = Polynomial::new( c ).derivative();
    assert_eq!( d[ 7 ], 8.0 * 0.1 );          // 0.8 exactly ( = 2^3 * 0.1 ); crate: 0.7999999999999999
}

#[test]
fn derivative_one_plus_two_ulp_x8_complex() {
    let a = 1.0 + 2.0 * f64::EPSILON;         // 1.0000000000000004
    let mut c = vec![ Complex::new( 0.0, 0.0 ); 9 ];
    c[ 8 ] = Complex::new( a, -a );
    let d = Polynomial::<Cmplx>::new( c ).derivative();
    assert_eq!( d[ 7 ], Complex::new( 8.0 * a, -8.0 * a ) );   // crate: 8.000000000000002 instead of 8.000000000000004
}
