// C11: the empty polynomial acts as zero, and the value of a result at any point equals the same
// combination of the operands' values.  p * empty, and the (degree+1)-th derivative of p, are empty
// polynomials; evaluating them must give 0, but Polynomial::eval unwraps degree() and panics.
use ohsl::{Polynomial, Cmplx, Complex};

#[test]
fn value_of_product_with_empty_is_zero() {
    let p = Polynomial::new( vec![ 1.0, 2.0, 3.0 ] );
    let zero = Polynomial::<f64>::empty();
    let r = &p * &zero;                       // empty (the zero polynomial)
    assert_eq!( r.eval( 2.0 ), p.eval( 2.0 ) * 0.0 );
}

#[test]
fn value_of_derivative_beyond_degree_is_zero() {
    let p = Polynomial::new( vec![ 1.0, 2.0, 3.0 ] );
    assert_eq!( p.derivative_n( 3 ).eval( 2.0 ), 0.0 );      // derivative_at( 2.0, 3 ) does return 0
    let c = Polynomial::new( vec![ 5.0 ] );
    assert_eq!( c.derivative().eval( 2.0 ), 0.0 );
}

#[test]
fn value_of_empty_is_zero_complex() {
    let zero = Polynomial::<Cmplx>::empty();
    assert_eq!( zero.eval( Complex::new( 1.0, 1.0 ) ), Complex::new( 0.0, 0.0 ) );
}
