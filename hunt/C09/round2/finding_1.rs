// C09 finding 1: solve_qmr never reports success at tol = 1e-12 on tiny, very well conditioned strictly
// diagonally dominant systems - it returns Err( ~1.5e-12 ) for EVERY iteration budget, although the x it
// leaves behind already satisfies the tolerance (true residual 7.4e-13 * ||b||).
use ohsl::sparse::Sparse;
use ohsl::vector::Vector;

fn check( name: &str, a: &[&[f64]], b: &[f64] ) {
    let n = b.len();
    // strict row diagonal dominance (the property's precondition)
    for i in 0..n {
        let off: f64 = ( 0..n ).filter( |&j| j != i ).map( |j| a[ i ][ j ].abs() ).sum();
        assert!( a[ i ][ i ].abs() > off, "{}: row {} not strictly dominant", name, i );
    }
    let mut t = vec![];
    for i in 0..n { for j in 0..n { if a[ i ][ j ] != 0.0 { t.push( ( i, j, a[ i ][ j ] ) ); } } }
    let s = Sparse::from_triplets( n, n, &mut t );
    let bv = Vector::create( b.to_vec() );
    let tol = 1.0e-12;
    for &budget in &[ 10 * n, 100 * n, 10000 * n ] {
        let mut x = Vector::new( n, 0.0 );
        let res = s.solve_qmr( &bv, &mut x, budget, tol );
        // independent true residual of what the solver left in x
        let mut rr = 0.0; let mut bb = 0.0;
        for i in 0..n {
            let mut ri = b[ i ];
            for j in 0..n { ri -= a[ i ][ j ] * x[ j ]; }
            rr += ri * ri; bb += b[ i ] * b[ i ];
        }
        let true_rel = ( rr / bb ).sqrt();
        println!( "{}: budget {:6} -> {:?}, true ||b - A x|| / ||b|| = {:e}", name, budget, res, true_rel );
        assert!( res.is_ok(), "{}: QMR reports failure {:?} after {} iterations on a {}x{} system (true relative residual of its x: {:e}, tol {:e})", name, res, budget, n, n, true_rel, tol );
        assert!( res.unwrap() <= 10 * n );
    }
}

#[test]
fn qmr_3x3_positive_diagonal_cond_2_4() {
    check( "3x3", &[ &[ 3.190096225538757, -0.685686679778936, 0.6978705105920289 ],
                     &[ 0.7186033785576611, 2.2269141199865143, 0.24721797140040436 ],
                     &[ 0.5246173591578767, 0.7784495936355078, 3.004508231868535 ] ],
           &[ 0.9184622128670501, 0.006907651164131723, 0.5234778673726308 ] );
}

#[test]
fn qmr_2x2_mixed_sign_diagonal_cond_4_7() {
    check( "2x2", &[ &[ 0.5805391287890236, 0.27664326957196606 ],
                     &[ 0.08100695955295256, -0.16999404972867033 ] ],
           &[ -0.39911591555873027, 0.4289243888421055 ] );
}
