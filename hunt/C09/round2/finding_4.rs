// C09 finding 4 (borderline - depends on whether a repeated (i,j) triplet is a legal input): when the triplet
// list holds two entries for one position, the solvers work with the SUM (multiply adds both), while the dense
// copy to_dense() keeps only one of them and get() returns the other. Both readings of the list below are SPD
// and strictly diagonally dominant, yet the CG answer and the direct dense solution of the same Sparse object
// differ by a factor of ~3.
use ohsl::sparse::Sparse;
use ohsl::vector::Vector;

#[test]
fn duplicate_triplets_solver_vs_dense_copy() {
    let n = 4;
    let mut t = vec![];
    for i in 0..n {
        t.push( ( i, i, 3.0 ) );
        t.push( ( i, i, 2.5 ) );          // second entry for the same position
        if i > 0 { t.push( ( i, i - 1, -1.0 ) ); }
        if i + 1 < n { t.push( ( i, i + 1, -1.0 ) ); }
    }
    let a = Sparse::from_triplets( n, n, &mut t );
    let b = Vector::new( n, 1.0 );
    let mut x = Vector::new( n, 0.0 );
    let res = a.solve_cg( &b, &mut x, 100, 1.0e-12 );
    let mut dense = a.to_dense();
    println!( "get(0,0) = {:?}, to_dense()[(0,0)] = {}, (A e_0)[0] = {}", a.get( 0, 0 ), dense[( 0, 0 )], a.multiply( &Vector::create( vec![ 1.0, 0.0, 0.0, 0.0 ] ) )[ 0 ] );
    let xd = dense.solve_basic( &b );
    println!( "cg {:?} x = {:?}\ndense x = {:?}", res, x, xd );
    assert!( res.is_ok() );
    for i in 0..n {
        assert!( ( x[ i ] - xd[ i ] ).abs() <= 1.0e-9 * xd[ i ].abs(), "x[{}]: CG {} vs direct dense solution of the same matrix {}", i, x[ i ], xd[ i ] );
    }
}
