// C09 finding 3: a right-hand side of very small scale ( ||b|| below ~1e-162, still a normal f64 ) on the
// 2x2 SPD, strictly dominant system [[4,-1],[-1,4]]: r.r underflows to 0, alpha = 0/0, and solve_cg / solve_bicg
// turn the finite zero guess into NaN; solve_bicgstab gives up with Err(1.0). solve_qmr (which normalises its
// vectors) solves the same system, so the problem is well posed in f64.
use ohsl::sparse::Sparse;
use ohsl::vector::Vector;

fn system() -> ( Sparse<f64>, Vector<f64>, [f64; 2] ) {
    let mut t = vec![ ( 0, 0, 4.0 ), ( 0, 1, -1.0 ), ( 1, 0, -1.0 ), ( 1, 1, 4.0 ) ];
    let a = Sparse::from_triplets( 2, 2, &mut t );
    let sc = 1.0e-170;
    // exact solution ( 1, 2 ) * sc : b = ( 2, 7 ) * sc
    ( a, Vector::create( vec![ 2.0 * sc, 7.0 * sc ] ), [ 1.0 * sc, 2.0 * sc ] )
}

fn judge( name: &str, res: Result<usize, f64>, x: &Vector<f64>, xt: &[f64; 2] ) {
    println!( "{}: {:?} x = {:?}", name, res, x );
    assert!( x[ 0 ].is_finite() && x[ 1 ].is_finite(), "{}: x became non-finite: {:?} ({:?})", name, x, res );
    assert!( res.is_ok(), "{}: reports failure {:?}", name, res );
    for i in 0..2 { assert!( ( x[ i ] - xt[ i ] ).abs() <= 1.0e-5 * xt[ i ].abs(), "{}: x[{}] = {:e}, expected {:e}", name, i, x[ i ], xt[ i ] ); }
}

#[test]
fn cg_tiny_rhs() { let ( a, b, xt ) = system(); let mut x = Vector::new( 2, 0.0 ); let r = a.solve_cg( &b, &mut x, 50, 1.0e-6 ); judge( "cg", r, &x, &xt ); }
#[test]
fn bicg_tiny_rhs() { let ( a, b, xt ) = system(); let mut x = Vector::new( 2, 0.0 ); let r = a.solve_bicg( &b, &mut x, 50, 1.0e-6, 1 ); judge( "bicg", r, &x, &xt ); }
#[test]
fn bicgstab_tiny_rhs() { let ( a, b, xt ) = system(); let mut x = Vector::new( 2, 0.0 ); let r = a.solve_bicgstab( &b, &mut x, 50, 1.0e-6 ); judge( "bicgstab", r, &x, &xt ); }
#[test]
fn qmr_tiny_rhs_is_fine() { let ( a, b, xt ) = system(); let mut x = Vector::new( 2, 0.0 ); let r = a.solve_qmr( &b, &mut x, 50, 1.0e-6 ); judge( "qmr", r, &x, &xt ); }
