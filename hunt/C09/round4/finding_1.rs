// C09: solve_qmr never converges on a 2 x 2 strictly diagonally dominant system whose right-hand
// side is a left eigenvector of A (equal column sums, constant b); zero guess.
use ohsl::{Sparse, Vector};

fn run(rows: &[[f64; 2]; 2], b: [f64; 2], xref: [f64; 2], tol: f64, max_iter: usize) {
    let mut t = vec![];
    for i in 0..2 { for j in 0..2 { t.push((i, j, rows[i][j])); } }
    let a = Sparse::from_triplets(2, 2, &mut t);
    let mut x = Vector::create(vec![0.0; 2]);
    let res = a.solve_qmr(&Vector::create(b.to_vec()), &mut x, max_iter, tol);
    let err = ((x[0] - xref[0]).powi(2) + (x[1] - xref[1]).powi(2)).sqrt() / (xref[0].powi(2) + xref[1].powi(2)).sqrt();
    println!("A={rows:?} b={b:?} max_iter={max_iter} res={res:?} x={:?} rel.err={err:.3e}", x.vec);
    assert!(res.is_ok(), "QMR did not converge on a 2 x 2 system in {max_iter} iterations: {res:?}, rel.err {err:.3e}");
    assert!(res.unwrap() <= 3 * 2 + 10);
    assert!(err <= 100.0 * tol);
}

// A = [[5,4],[6,7]], b = (3,3): exact solution (9,-3)/11; cond_2(A) ~ 11
#[test]
fn qmr_2x2_equal_column_sums_16_iterations() { run(&[[5.0, 4.0], [6.0, 7.0]], [3.0, 3.0], [9.0 / 11.0, -3.0 / 11.0], 1e-8, 16); }

#[test]
fn qmr_2x2_equal_column_sums_500_iterations() { run(&[[5.0, 4.0], [6.0, 7.0]], [3.0, 3.0], [9.0 / 11.0, -3.0 / 11.0], 1e-8, 500); }

// a loose tolerance does not help
#[test]
fn qmr_2x2_equal_column_sums_tol_1e_3() { run(&[[5.0, 4.0], [6.0, 7.0]], [3.0, 3.0], [9.0 / 11.0, -3.0 / 11.0], 1e-3, 120); }

// A = [[3,-1],[4,8]], b = (1,1): exact solution (9,-1)/28
#[test]
fn qmr_2x2_second_matrix() { run(&[[3.0, -1.0], [4.0, 8.0]], [1.0, 1.0], [9.0 / 28.0, -1.0 / 28.0], 1e-8, 120); }

// (I + 0.1 S) x = (1,1,1,1), S the up-shift: cond_2 ~ 1.2, zero guess. A serious Lanczos breakdown
// (w.v = 0 with w, v non-zero) perturbed by rounding: QMR goes on and creeps like 1/k
#[test]
fn qmr_4x4_bidiagonal_constant_rhs() {
    let n = 4; let c = 0.1;
    let mut t = vec![];
    for i in 0..n { t.push((i, i, 1.0)); if i + 1 < n { t.push((i, i + 1, c)); } }
    let a = Sparse::from_triplets(n, n, &mut t);
    let mut xref = vec![0.0; n];
    for i in (0..n).rev() { xref[i] = 1.0 - if i + 1 < n { c * xref[i + 1] } else { 0.0 }; }
    let mut x = Vector::create(vec![0.0; n]);
    let res = a.solve_qmr(&Vector::create(vec![1.0; n]), &mut x, 140, 1e-6);
    let err = (0..n).map(|i| (x[i] - xref[i]).powi(2)).sum::<f64>().sqrt() / xref.iter().map(|v| v * v).sum::<f64>().sqrt();
    println!("bidiagonal n={n} res={res:?} rel.err={err:.3e}");
    assert!(res.is_ok() && res.unwrap() <= 3 * n + 10, "QMR: {res:?} on a 4 x 4 system, rel.err {err:.3e}");
}
