// C09: solve_bicg never converges on 3 x 3 irreducible, strictly diagonally dominant integer systems
// with positive diagonal, b = (1,1,1), zero guess: the shadow residual becomes exactly zero in exact
// arithmetic after two steps (b lies in a 2-dimensional invariant subspace of A^T), in floating point
// it is rounding noise that the `rho_1 == 0.0` test lets through.
use ohsl::{Sparse, Vector};

fn det3(m: &[[f64; 3]; 3]) -> f64 {
    m[0][0] * (m[1][1] * m[2][2] - m[1][2] * m[2][1]) - m[0][1] * (m[1][0] * m[2][2] - m[1][2] * m[2][0])
        + m[0][2] * (m[1][0] * m[2][1] - m[1][1] * m[2][0])
}

// Cramer's rule (integer data: exact up to the final divisions)
fn cramer(a: &[[f64; 3]; 3], b: [f64; 3]) -> [f64; 3] {
    let d = det3(a);
    let mut x = [0.0; 3];
    for k in 0..3 { let mut m = *a; for i in 0..3 { m[i][k] = b[i]; } x[k] = det3(&m) / d; }
    x
}

fn run(rows: &[[f64; 3]; 3], tol: f64, max_iter: usize) {
    let mut t = vec![];
    for i in 0..3 { for j in 0..3 { t.push((i, j, rows[i][j])); } }
    let a = Sparse::from_triplets(3, 3, &mut t);
    let b = [1.0; 3];
    let xref = cramer(rows, b);
    let mut x = Vector::create(vec![0.0; 3]);
    let res = a.solve_bicg(&Vector::create(b.to_vec()), &mut x, max_iter, tol, 1);
    let err = (0..3).map(|i| (x[i] - xref[i]).powi(2)).sum::<f64>().sqrt() / xref.iter().map(|v| v * v).sum::<f64>().sqrt();
    println!("A={rows:?} max_iter={max_iter} res={res:?} x={:?} rel.err={err:.3e}", x.vec);
    assert!(x.vec.iter().all(|v| v.is_finite()));
    assert!(err <= 1.0 + 1e-9, "x is further from the solution than the zero guess was: rel.err {err:.3e}");
    assert!(res.is_ok(), "BiCG did not converge on a 3 x 3 system in {max_iter} iterations: {res:?}, rel.err {err:.3e}");
    assert!(res.unwrap() <= 3 * 3 + 10);
    assert!(err <= 100.0 * tol);
}

#[test]
fn bicg_3x3_19_iterations() { run(&[[7.0, -2.0, -1.0], [-2.0, 7.0, -3.0], [-3.0, -3.0, 7.0]], 1e-8, 19); }

#[test]
fn bicg_3x3_1000_iterations() { run(&[[7.0, -2.0, -1.0], [-2.0, 7.0, -3.0], [-3.0, -3.0, 7.0]], 1e-8, 1000); }

// upper bidiagonal Toeplitz systems (I + c S) x = (1,...,1), zero guess: the iterate ends far further from
// the solution than the zero guess was (exact solution by back substitution)
fn bidiagonal(n: usize, c: f64, max_iter: usize) {
    let mut t = vec![];
    for i in 0..n { t.push((i, i, 1.0)); if i + 1 < n { t.push((i, i + 1, c)); } }
    let a = Sparse::from_triplets(n, n, &mut t);
    let mut xref = vec![0.0; n];
    for i in (0..n).rev() { xref[i] = 1.0 - if i + 1 < n { c * xref[i + 1] } else { 0.0 }; }
    let mut x = Vector::create(vec![0.0; n]);
    let res = a.solve_bicg(&Vector::create(vec![1.0; n]), &mut x, max_iter, 1e-8, 1);
    let err = (0..n).map(|i| (x[i] - xref[i]).powi(2)).sum::<f64>().sqrt() / xref.iter().map(|v| v * v).sum::<f64>().sqrt();
    println!("bidiagonal n={n} c={c} max_iter={max_iter} res={res:?} rel.err={err:.3e}");
    assert!(err <= 1.0 + 1e-9, "x is further from the solution than the zero guess was: rel.err {err:.3e}");
    assert!(res.is_ok() && res.unwrap() <= 3 * n + 10);
}

#[test]
fn bicg_bidiagonal_5_creeps() { bidiagonal(5, 0.1, 25); }

#[test]
fn bicg_bidiagonal_6_x_made_worse() { bidiagonal(6, -0.5, 160); }

#[test]
fn bicg_bidiagonal_10_x_blown_up() { bidiagonal(10, 0.5, 200); }
