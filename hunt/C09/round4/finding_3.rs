// C09: BiCG and QMR on an irreducible, strictly diagonally dominant tridiagonal Toeplitz system
// (1-D upwind convection-diffusion stencil), constant right-hand side, zero guess.
use ohsl::{Sparse, Vector};

fn system(n: usize, lo: f64, up: f64) -> (Sparse<f64>, Vec<Vec<f64>>) {
    let mut t = vec![];
    let mut d = vec![vec![0.0; n]; n];
    for i in 0..n {
        t.push((i, i, 1.0)); d[i][i] = 1.0;
        if i + 1 < n { t.push((i, i + 1, up)); d[i][i + 1] = up; }
        if i > 0 { t.push((i, i - 1, lo)); d[i][i - 1] = lo; }
    }
    (Sparse::from_triplets(n, n, &mut t), d)
}

// direct solution of the tridiagonal system (Thomas algorithm; safe: strictly diagonally dominant)
fn direct(d: &Vec<Vec<f64>>, b: &[f64]) -> Vec<f64> {
    let n = b.len();
    let mut c = vec![0.0; n]; let mut g = vec![0.0; n];
    for i in 0..n {
        let lo = if i > 0 { d[i][i - 1] } else { 0.0 };
        let up = if i + 1 < n { d[i][i + 1] } else { 0.0 };
        let den = d[i][i] - lo * if i > 0 { c[i - 1] } else { 0.0 };
        c[i] = up / den;
        g[i] = (b[i] - lo * if i > 0 { g[i - 1] } else { 0.0 }) / den;
    }
    let mut x = vec![0.0; n];
    for i in (0..n).rev() { x[i] = g[i] - if i + 1 < n { c[i] * x[i + 1] } else { 0.0 }; }
    x
}

fn check(name: &str, res: Result<usize, f64>, x: &Vector<f64>, xref: &[f64], n: usize, tol: f64) {
    let err = x.vec.iter().zip(xref).map(|(p, q)| (p - q) * (p - q)).sum::<f64>().sqrt();
    let xn = xref.iter().map(|v| v * v).sum::<f64>().sqrt();
    println!("{name}: n={n} res={res:?} rel.err={:.3e}", err / xn);
    let it = res.unwrap_or_else(|e| panic!("{name}: no convergence within 10 n + 100 iterations, residual {e:e}, rel.err {:.3e}", err / xn));
    assert!(it <= 3 * n + 10, "{name}: {it} iterations for n = {n}");
    assert!(err / xn <= 1e3 * tol, "{name}: inaccurate answer");   // 2-norm condition number is below 25
}

#[test]
fn bicg_upwind_tridiagonal_constant_rhs() {
    let (n, tol) = (40, 1e-8);
    let (a, d) = system(n, -0.1, -0.8);
    let b = vec![1.0; n];
    let xref = direct(&d, &b);
    let mut x = Vector::create(vec![0.0; n]);
    let res = a.solve_bicg(&Vector::create(b.clone()), &mut x, 10 * n + 100, tol, 1);
    check("bicg", res, &x, &xref, n, tol);
}

#[test]
fn qmr_upwind_tridiagonal_constant_rhs() {
    let (n, tol) = (40, 1e-8);
    let (a, d) = system(n, -0.1, -0.8);
    let b = vec![1.0; n];
    let xref = direct(&d, &b);
    let mut x = Vector::create(vec![0.0; n]);
    let res = a.solve_qmr(&Vector::create(b.clone()), &mut x, 10 * n + 100, tol);
    check("qmr", res, &x, &xref, n, tol);
}

// the same system is solved by BiCGSTAB in n iterations (this one passes)
#[test]
fn bicgstab_same_system_is_fine() {
    let (n, tol) = (40, 1e-8);
    let (a, d) = system(n, -0.1, -0.8);
    let b = vec![1.0; n];
    let xref = direct(&d, &b);
    let mut x = Vector::create(vec![0.0; n]);
    let res = a.solve_bicgstab(&Vector::create(b.clone()), &mut x, 10 * n + 100, tol);
    check("bicgstab", res, &x, &xref, n, tol);
}
