// C09: solve_bicgstab gives up (Err after 1 iteration) when the stabilising step has omega = 0
// (s . A s = 0) although b . A b != 0: the restart it does from s breaks down at once, because
// s . A s = 0 is exactly the first-step breakdown condition of the restarted recurrences.
use ohsl::{Sparse, Vector};

fn run(rows: [[f64; 2]; 2], b: [f64; 2]) {
    let mut t = vec![];
    for i in 0..2 { for j in 0..2 { t.push((i, j, rows[i][j])); } }
    let a = Sparse::from_triplets(2, 2, &mut t);
    let det = rows[0][0] * rows[1][1] - rows[0][1] * rows[1][0];
    let xref = [(b[0] * rows[1][1] - rows[0][1] * b[1]) / det, (rows[0][0] * b[1] - rows[1][0] * b[0]) / det];
    // b . A b is not zero: this is not the first-step Lanczos breakdown
    let ab = [rows[0][0] * b[0] + rows[0][1] * b[1], rows[1][0] * b[0] + rows[1][1] * b[1]];
    assert!(ab[0] * b[0] + ab[1] * b[1] != 0.0);
    let mut x = Vector::create(vec![0.0; 2]);
    let res = a.solve_bicgstab(&Vector::create(b.to_vec()), &mut x, 100, 1e-8);
    let err = ((x[0] - xref[0]).powi(2) + (x[1] - xref[1]).powi(2)).sqrt() / (xref[0].powi(2) + xref[1].powi(2)).sqrt();
    println!("A={rows:?} b={b:?} res={res:?} x={:?} xref={xref:?} rel.err={err:.3e}", x.vec);
    assert!(res.is_ok(), "BiCGSTAB: {res:?} on a strictly diagonally dominant 2 x 2 system, rel.err {err:.3e}");
    assert!(err <= 1e-6);
}

// irreducible, strictly diagonally dominant, diagonal of mixed sign; solution (1/3, -1/3)
#[test]
fn bicgstab_omega_zero_a() { run([[2.0, -1.0], [-4.0, -7.0]], [1.0, 1.0]); }

#[test]
fn bicgstab_omega_zero_b() { run([[2.0, -1.0], [2.0, -3.0]], [-2.0, 2.0]); }

#[test]
fn bicgstab_omega_zero_c() { run([[1.0, 0.0], [-2.0, -3.0]], [1.0, -3.0]); }
