// C09 finding 2: CG and BiCG report Ok with a wrong x when the initial guess is large compared
// with the solution (small right-hand side, guess of order one).  They trust the recurrence
// residual, which keeps shrinking although the true residual b - A x stagnates at eps*|A||x0|.
// solve_bicgstab (which confirms with the true residual and carries on) solves the same inputs.
use ohsl::vector::Vector;
use ohsl::sparse::Sparse;

// SPD and strictly diagonally dominant, cond_2 ~ 2.6
fn matrix() -> Sparse<f64> {
    let mut t = vec![ ( 0, 0, 2.0 ), ( 0, 1, 1.0 ), ( 1, 0, 1.0 ), ( 1, 1, 3.0 ) ];
    Sparse::<f64>::from_triplets( 2, 2, &mut t )
}

// independent reference: Cramer's rule on the 2x2 system, and the true relative residual
fn judge( name: &str, r: Result<usize, f64>, x: &Vector<f64>, b: [f64; 2], tol: f64 ) {
    let det = 2.0 * 3.0 - 1.0 * 1.0;
    let xs = [ ( 3.0 * b[0] - 1.0 * b[1] ) / det, ( 2.0 * b[1] - 1.0 * b[0] ) / det ];
    let nb = ( b[0] * b[0] + b[1] * b[1] ).sqrt();
    let res = [ b[0] - ( 2.0 * x[0] + x[1] ), b[1] - ( x[0] + 3.0 * x[1] ) ];
    let relres = ( res[0] * res[0] + res[1] * res[1] ).sqrt() / nb;
    let relerr = ( ( x[0] - xs[0] ).powi( 2 ) + ( x[1] - xs[1] ).powi( 2 ) ).sqrt() / ( xs[0] * xs[0] + xs[1] * xs[1] ).sqrt();
    assert!( r.is_ok(), "{}: {:?}", name, r );
    assert!( relres <= 10.0 * tol, "{}: reported {:?} with tol {:e} but the true relative residual is {:e}", name, r, tol, relres );
    assert!( relerr <= 100.0 * tol, "{}: reported {:?} with tol {:e} but the relative error of x is {:e}", name, r, tol, relerr );
}

const B: [f64; 2] = [ 4.0e-14, 7.0e-14 ];   // = A * (1e-14, 2e-14)
const TOL: f64 = 1.0e-6;

#[test]
fn cg_small_rhs_guess_of_order_one() {
    let a = matrix();
    let b = Vector::create( B.to_vec() );
    let mut x = Vector::create( vec![ 1.0, 1.37 ] );
    let r = a.solve_cg( &b, &mut x, 30, TOL );
    judge( "solve_cg", r, &x, B, TOL );
}

#[test]
fn bicg_small_rhs_guess_of_order_one() {
    let a = matrix();
    let b = Vector::create( B.to_vec() );
    let mut x = Vector::create( vec![ 1.0, 1.37 ] );
    let r = a.solve_bicg( &b, &mut x, 30, TOL, 1 );
    judge( "solve_bicg", r, &x, B, TOL );
}

// 1x1: 3 x = 3e-20 from the guess x = 1.  CG says Ok(1) and returns x = 0.
#[test]
fn cg_1x1_tiny_rhs_guess_one() {
    let mut t = vec![ ( 0, 0, 3.0 ) ];
    let a = Sparse::<f64>::from_triplets( 1, 1, &mut t );
    let b = Vector::create( vec![ 3.0e-20 ] );
    let mut x = Vector::create( vec![ 1.0 ] );
    let r = a.solve_cg( &b, &mut x, 30, 1.0e-3 );
    assert!( r.is_ok(), "{:?}", r );
    assert!( ( x[0] - 1.0e-20 ).abs() <= 1.0e-22, "solve_cg reported {:?} with tol 1e-3 but x = {:e}, not 1e-20", r, x[0] );
}

// control (passes on the unmodified crate): BiCGSTAB meets the property on the same input
#[test]
fn control_bicgstab_same_input() {
    let a = matrix();
    let b = Vector::create( B.to_vec() );
    let mut x = Vector::create( vec![ 1.0, 1.37 ] );
    let r = a.solve_bicgstab( &b, &mut x, 30, TOL );
    judge( "solve_bicgstab", r, &x, B, TOL );
}
