// C09 finding 3: BiCGSTAB breaks down (rho = rtilde.r = 0) on 3x3 strictly diagonally dominant
// integer systems; it either gives up with Err far from the solution, or - when rounding turns the
// exact zero into 1e-17 - runs on with garbage and fills x with NaN (alpha = rho / 0).
use ohsl::vector::Vector;
use ohsl::sparse::Sparse;

fn sparse3( a: [[f64; 3]; 3] ) -> Sparse<f64> {
    let mut t = vec![];
    for i in 0..3 { for j in 0..3 { if a[i][j] != 0.0 { t.push( ( i, j, a[i][j] ) ); } } }
    Sparse::<f64>::from_triplets( 3, 3, &mut t )
}

fn check( r: Result<usize, f64>, x: &Vector<f64>, exact: [f64; 3] ) {
    assert!( x.vec.iter().all( |v| v.is_finite() ), "x is not finite: {:?} (result {:?})", x.vec, r );
    assert!( r.is_ok(), "no success on a 3x3 strictly diagonally dominant system: {:?}, x = {:?}", r, x.vec );
    assert!( r.unwrap() <= 30, "{:?} iterations for a 3x3 system", r );
    let err = ( 0..3 ).map( |i| ( x[i] - exact[i] ).powi( 2 ) ).sum::<f64>().sqrt();
    assert!( err <= 1.0e-6, "x = {:?} but the solution is {:?}", x.vec, exact );
}

// rho_1 is exactly 0 at the second iteration -> Err(0.0754), x = (0.0682, -0.25, 0.25)
#[test]
fn bicgstab_rho_breakdown_gives_up() {
    let a = sparse3( [ [ 3.0, 0.0, -1.0 ], [ -1.0, 3.0, -1.0 ], [ -1.0, -1.0, 3.0 ] ] );
    let b = Vector::create( vec![ 0.0, -1.0, 1.0 ] );
    let mut x = Vector::new( 3, 0.0 );
    let r = a.solve_bicgstab( &b, &mut x, 50, 1.0e-8 );
    // reference solution by Cramer's rule (integer determinants, exact up to the final division)
    let exact = cramer( [ [ 3.0, 0.0, -1.0 ], [ -1.0, 3.0, -1.0 ], [ -1.0, -1.0, 3.0 ] ], [ 0.0, -1.0, 1.0 ] );
    check( r, &x, exact );
}

// rho_1 is 0 in exact arithmetic at the second iteration but 5.6e-17 in floating point; two
// iterations later rtilde.v == 0.0, alpha = -inf and x = [NaN, NaN, NaN], Err(NaN)
#[test]
fn bicgstab_rho_breakdown_nan() {
    let m = [ [ 3.0, 1.0, 0.0 ], [ -1.0, 3.0, 0.0 ], [ -1.0, -1.0, 3.0 ] ];
    let a = sparse3( m );
    let b = Vector::create( vec![ 1.0, -1.0, 1.0 ] );
    let mut x = Vector::new( 3, 0.0 );
    let r = a.solve_bicgstab( &b, &mut x, 50, 1.0e-8 );
    check( r, &x, cramer( m, [ 1.0, -1.0, 1.0 ] ) );   // (0.4, -0.2, 0.4)
}

fn det3( a: [[f64; 3]; 3] ) -> f64 {
    a[0][0] * ( a[1][1] * a[2][2] - a[1][2] * a[2][1] )
  - a[0][1] * ( a[1][0] * a[2][2] - a[1][2] * a[2][0] )
  + a[0][2] * ( a[1][0] * a[2][1] - a[1][1] * a[2][0] )
}

fn cramer( a: [[f64; 3]; 3], b: [f64; 3] ) -> [f64; 3] {
    let d = det3( a );
    let mut x = [ 0.0; 3 ];
    for k in 0..3 {
        let mut m = a;
        for i in 0..3 { m[i][k] = b[i]; }
        x[k] = det3( m ) / d;
    }
    x
}
