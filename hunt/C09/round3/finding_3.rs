// C09 finding 3: solve_qmr gives up ( Err ) at the exhaustion of the Krylov space without the
// confirmation / restart it performs on stagnation.
//
// 3 x 3, positive diagonal, strictly diagonally dominant by rows, condition number 5.9. The guess is 100
// times larger than the solution. After 3 = n iterations x is correct to 2e-12 ( tol * cond = 5.9e-12 ),
// the recurrence residual is 1.46e-12 and the true one 2.06e-12, both just above tol = 1e-12. In
// iteration 4 the Lanczos vectors are rounding noise ( rho = 1.4e-14, xi = 1.0e-14 ) with exact zeros in
// them, delta = z.y is exactly 0 and the solver returns Err( 1.46e-12 ) from `if delta == 0.0`, whatever
// max_iter is; x is never touched again. A restart from the true residual ( as after `!moved` ) converges
// at once.
use ohsl::{Sparse, Vector};

#[test]
fn qmr_3x3_exit_at_krylov_exhaustion() {
    let a: [[f64; 3]; 3] = [ [ 1.0198065292742915, -0.7, -0.29981032281793296 ],
              [ -0.000847764335680712, 0.3060423680774476, -0.29919377299515026 ],
              [ -0.0007039252239734968, 0.42288885255076414, 0.5590330469606977 ] ];
    let b = [ -0.371998175901338, 0.3940674164018261, -0.48237085426562465 ];
    let x0 = [ 85.7288875560973, -51.326566352947, -65.68742061302648 ];
    for i in 0..3 {
        let off: f64 = ( 0..3 ).filter( |&j| j != i ).map( |j| a[i][j].abs() ).sum();
        assert!( a[i][i] > off ); // strictly diagonally dominant
    }
    let mut triplets = vec![];
    for i in 0..3 { for j in 0..3 { triplets.push( ( i, j, a[i][j] ) ); } }
    let sparse = Sparse::from_triplets( 3, 3, &mut triplets );
    let rhs = Vector::create( b.to_vec() );
    let mut x = Vector::create( x0.to_vec() );
    let result = sparse.solve_qmr( &rhs, &mut x, 1000, 1.0e-12 );
    let mut res2 = 0.0; let mut b2 = 0.0;
    for i in 0..3 {
        let mut r = b[i];
        for j in 0..3 { r -= a[i][j] * x[j]; }
        res2 += r * r; b2 += b[i] * b[i];
    }
    println!( "solve_qmr -> {:?}, x = {:?}, true relative residual {:e}", result, x.vec, ( res2 / b2 ).sqrt() );
    assert!( result.is_ok(), "solve_qmr failed on a 3 x 3 strictly diagonally dominant system of condition 5.9: {:?}", result );
    assert!( result.unwrap() <= 15, "solve_qmr needed {} iterations for a 3 x 3 system", result.unwrap() );
    assert!( ( res2 / b2 ).sqrt() <= 1.0e-12 );
}
