mod hunt_common;
use hunt_common::*;
use ohsl::Vector;

#[test]
fn cgmin() {
    let cases: usize = std::env::var("HUNT_CASES").ok().and_then(|s| s.parse().ok()).unwrap_or(200000);
    let mut rng = Rng(0x1234567);
    let factors = [10.0, 20.0, 30.0, 50.0, 100.0];
    let mut fails = [[0usize; 2]; 5];
    let mut printed = 0;
    for _case in 0..cases {
        let n = 2 + rng.below(3);
        let kind = if rng.below(2) == 0 { Kind::Spd } else { Kind::DdPos };
        let mut a = gen_matrix(&mut rng, n, kind);
        // round entries to 3 decimals (keeps symmetry); re-check dominance via cond
        for i in 0..n { for j in 0..n { a[i][j] = (a[i][j] * 1000.0).round() / 1000.0; } }
        let dd = (0..n).all(|i| a[i][i] > (0..n).filter(|&j| j != i).map(|j| a[i][j].abs()).sum::<f64>() * 1.001);
        if !dd { continue; }
        let cond = cond_est(&a);
        if cond > 200.0 { continue; }
        let s = to_sparse(&mut rng, &a);
        let b0: Vec<f64> = (0..n).map(|_| (rng.sym() * 100.0).round() / 100.0).collect();
        if norm2(&b0) == 0.0 { continue; }
        let x1 = lu_solve(&a, &b0);
        for (fi, f) in factors.iter().enumerate() {
            // scale b so that the all-ones guess is f times larger than the solution
            let sc = (n as f64).sqrt() / (f * norm2(&x1));
            let b: Vec<f64> = b0.iter().map(|v| v * sc).collect();
            let xref = lu_solve(&a, &b);
            let x0 = vec![1.0; n];
            let bv = Vector::create(b.clone());
            for (si, solver) in [0usize, 1].iter().enumerate() {
                if *solver == 0 && kind != Kind::Spd { continue; }
                let mut x = Vector::create(x0.clone());
                let res = run(*solver, &s, &bv, &mut x, 100, 1e-12);
                let diff: Vec<f64> = (0..n).map(|i| x[i] - xref[i]).collect();
                let err = norm2(&diff) / norm2(&xref);
                if res.is_err() {
                    fails[fi][si] += 1;
                    if printed < 30 && *solver == 0 { printed += 1; println!("{} f={} n={} kind={:?} cond={:.1} A={:?} b={:?} -> {:?} err={:e}", NAMES[*solver], f, n, kind, cond, a, b, res, err); }
                }
            }
        }
    }
    println!("fails by factor (cg, bicg): {:?}", fails);
}
