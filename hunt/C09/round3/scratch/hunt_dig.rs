// dig into one case from hunt_sweep: regenerate by replaying the rng
mod hunt_common;
use hunt_common::*;

fn my_bicg(a: &Vec<Vec<f64>>, b: &Vec<f64>, x0: &Vec<f64>, maxit: usize, tol: f64) {
    let n = b.len();
    let mul = |v: &Vec<f64>| -> Vec<f64> { (0..n).map(|i| (0..n).map(|j| a[i][j] * v[j]).sum()).collect() };
    let mult = |v: &Vec<f64>| -> Vec<f64> { (0..n).map(|i| (0..n).map(|j| a[j][i] * v[j]).sum()).collect() };
    let dot = |u: &Vec<f64>, v: &Vec<f64>| -> f64 { u.iter().zip(v).map(|(a, b)| a * b).sum() };
    let mut x = x0.clone();
    let ax = mul(&x);
    let mut r: Vec<f64> = (0..n).map(|i| b[i] - ax[i]).collect();
    let mut rr = r.clone();
    let mut p = r.clone(); let mut pp = rr.clone();
    let nb = norm2(b);
    let mut rho_old = 1.0;
    for it in 1..=maxit {
        let rho = dot(&r, &rr);
        if it > 1 { let beta = rho / rho_old; for i in 0..n { p[i] = r[i] + beta * p[i]; pp[i] = rr[i] + beta * pp[i]; } }
        let q = mul(&p); let qq = mult(&pp);
        let den = dot(&pp, &q);
        let alpha = rho / den;
        for i in 0..n { x[i] += alpha * p[i]; r[i] -= alpha * q[i]; rr[i] -= alpha * qq[i]; }
        rho_old = rho;
        println!("it {} rho/(|r||rr|)={:e} den/(|pp||q|)={:e} alpha={:e} res={:e}", it, rho / (norm2(&r) * norm2(&rr)), den / (norm2(&pp) * norm2(&q)), alpha, norm2(&r) / nb);
        if norm2(&r) / nb <= tol { break; }
    }
}

#[test]
fn dig() {
    let seed: u64 = std::env::var("HUNT_SEED").ok().and_then(|s| s.parse().ok()).unwrap_or(12345);
    let target: usize = std::env::var("HUNT_CASE").ok().and_then(|s| s.parse().ok()).unwrap_or(1247);
    let nmax: usize = std::env::var("HUNT_NMAX").ok().and_then(|s| s.parse().ok()).unwrap_or(60);
    let c = replay(seed, target, nmax, 200.0);
    if c.n <= 6 { println!("A={:?}\nb={:?}\nx0={:?}\nxref={:?}", c.a, c.b, c.x0, c.xref); }
    println!("n={} kind={:?} cond={} tol={}", c.a.len(), c.kind, c.cond, c.tol);
    my_bicg(&c.a, &c.b, &c.x0, 100, c.tol);
}

#[test]
fn traj() {
    use ohsl::Vector;
    let seed: u64 = std::env::var("HUNT_SEED").ok().and_then(|s| s.parse().ok()).unwrap_or(12345);
    let target: usize = std::env::var("HUNT_CASE").ok().and_then(|s| s.parse().ok()).unwrap_or(1247);
    let solver: usize = std::env::var("HUNT_SOLVER").ok().and_then(|s| s.parse().ok()).unwrap_or(1);
    let nmax: usize = std::env::var("HUNT_NMAX").ok().and_then(|s| s.parse().ok()).unwrap_or(60);
    let c = replay(seed, target, nmax, 200.0);
    if c.n <= 6 { println!("A={:?}\nb={:?}\nx0={:?}\nxref={:?}", c.a, c.b, c.x0, c.xref); }
    let n = c.n;
    let bv = Vector::create(c.b.clone());
    let nb = norm2(&c.b);
    for k in (1..=120).chain([200, 400, 720]) {
        let mut x = Vector::create(c.x0.clone());
        let res = run(solver, &c.s, &bv, &mut x, k, c.tol);
        let ax: Vec<f64> = (0..n).map(|i| (0..n).map(|j| c.a[i][j] * x[j]).sum::<f64>()).collect();
        let tr: Vec<f64> = (0..n).map(|i| c.b[i] - ax[i]).collect();
        let diff: Vec<f64> = (0..n).map(|i| x[i] - c.xref[i]).collect();
        println!("maxit {} -> {:?} true res {:e} err {:e}", k, res, norm2(&tr) / nb, norm2(&diff) / norm2(&c.xref));
        if res.is_ok() { break; }
    }
}
