use ohsl::{Sparse, Vector};
#[test]
fn qmr3() {
    let a = [[1.0198065292742915, -0.7, -0.29981032281793296], [-0.000847764335680712, 0.3060423680774476, -0.29919377299515026], [-0.0007039252239734968, 0.42288885255076414, 0.5590330469606977]];
    let b = [-0.371998175901338, 0.3940674164018261, -0.48237085426562465];
    let x0 = [85.7288875560973, -51.326566352947, -65.68742061302648];
    let mut t = vec![];
    for i in 0..3 { for j in 0..3 { t.push((i, j, a[i][j])); } }
    let s = Sparse::from_triplets(3, 3, &mut t);
    let bv = Vector::create(b.to_vec());
    let mut prev = vec![0.0; 3];
    for maxit in 1..=40 {
        let mut x = Vector::create(x0.to_vec());
        let res = s.solve_qmr(&bv, &mut x, maxit, 1e-12);
        let mut tr = 0.0; let mut nb = 0.0;
        for i in 0..3 { let mut r = b[i]; for j in 0..3 { r -= a[i][j] * x[j]; } tr += r * r; nb += b[i] * b[i]; }
        println!("maxit {} -> {:?} x={:?} moved={} true res={:e}", maxit, res, x.vec, x.vec != prev, (tr / nb).sqrt());
        prev = x.vec.clone();
        if res.is_ok() { break; }
    }
}

fn nrm(v: &[f64]) -> f64 { v.iter().map(|t| t * t).sum::<f64>().sqrt() }
fn dot(u: &[f64], v: &[f64]) -> f64 { u.iter().zip(v).map(|(a, b)| a * b).sum() }

#[test]
fn qmr_replica() {
    let a = [[1.0198065292742915, -0.7, -0.29981032281793296], [-0.000847764335680712, 0.3060423680774476, -0.29919377299515026], [-0.0007039252239734968, 0.42288885255076414, 0.5590330469606977]];
    let b = [-0.371998175901338, 0.3940674164018261, -0.48237085426562465];
    let mut x = vec![85.7288875560973, -51.326566352947, -65.68742061302648];
    let n = 3;
    // column-order products as Sparse::multiply does
    let mul = |v: &Vec<f64>| -> Vec<f64> { let mut r = vec![0.0; n]; for j in 0..n { for i in 0..n { r[i] += a[i][j] * v[j]; } } r };
    let mult = |v: &Vec<f64>| -> Vec<f64> { let mut r = vec![0.0; n]; for i in 0..n { for k in 0..n { r[i] += a[k][i] * v[k]; } } r };
    let normb = nrm(&b);
    let ax = mul(&x);
    let mut r: Vec<f64> = (0..n).map(|i| b[i] - ax[i]).collect();
    let mut v_tld = r.clone(); let mut y = r.clone(); let mut rho = nrm(&y);
    let mut w_tld = r.clone(); let mut z = r.clone(); let mut xi = nrm(&z);
    let (mut gamma, mut eta, mut theta, mut ep) = (1.0f64, -1.0f64, 0.0f64, 1.0f64);
    let mut p = vec![0.0; n]; let mut q = vec![0.0; n]; let mut d = vec![0.0; n]; let mut s = vec![0.0; n];
    for i in 1..=6 {
        println!("iter {}: rho={:e} xi={:e}", i, rho, xi);
        if rho == 0.0 || xi == 0.0 { println!("EXIT rho/xi zero"); return; }
        let v: Vec<f64> = v_tld.iter().map(|t| t / rho).collect();
        y = y.iter().map(|t| t / rho).collect();
        let w: Vec<f64> = w_tld.iter().map(|t| t / xi).collect();
        z = z.iter().map(|t| t / xi).collect();
        let delta = dot(&z, &y);
        println!("  delta={:e}", delta);
        if delta == 0.0 { println!("EXIT delta zero"); return; }
        if i > 1 { let c1 = xi * delta / ep; let c2 = rho * delta / ep; for k in 0..n { p[k] = y[k] - c1 * p[k]; q[k] = z[k] - c2 * q[k]; } } else { p = y.clone(); q = z.clone(); }
        let p_tld = mul(&p);
        ep = dot(&q, &p_tld);
        println!("  ep={:e}", ep);
        if ep == 0.0 { println!("EXIT ep zero"); return; }
        let beta = ep / delta;
        for k in 0..n { v_tld[k] = p_tld[k] - beta * v[k]; }
        y = v_tld.clone();
        let rho_1 = rho; rho = nrm(&y);
        let atq = mult(&q);
        for k in 0..n { w_tld[k] = atq[k] - beta * w[k]; }
        z = w_tld.clone(); xi = nrm(&z);
        let (g1, t1) = (gamma, theta);
        theta = rho / (g1 * beta); gamma = 1.0 / (1.0 + theta * theta).sqrt();
        println!("  beta={:e} theta={:e} gamma={:e}", beta, theta, gamma);
        if gamma == 0.0 { println!("EXIT gamma zero"); return; }
        eta = -eta * rho_1 * gamma * gamma / (beta * g1 * g1);
        let c = t1 * t1 * gamma * gamma;
        for k in 0..n { d[k] = eta * p[k] + c * d[k]; s[k] = eta * p_tld[k] + c * s[k]; x[k] += d[k]; r[k] -= s[k]; }
        println!("  eta={:e} d={:?} resid={:e}", eta, d, nrm(&r) / normb);
    }
}
