mod hunt_common;
use hunt_common::*;
use ohsl::Vector;

#[test]
fn qmrmin() {
    let cases: usize = std::env::var("HUNT_CASES").ok().and_then(|s| s.parse().ok()).unwrap_or(2000000);
    let mut rng = Rng(0x7654321);
    let mut printed = 0; let mut fails = 0; let mut runs = 0;
    for _case in 0..cases {
        let n = 2 + rng.below(3);
        let kind = if rng.below(2) == 0 { Kind::Spd } else { Kind::DdPos };
        let mut a = gen_matrix(&mut rng, n, kind);
        for i in 0..n { for j in 0..n { a[i][j] = (a[i][j] * 1000.0).round() / 1000.0; } }
        let dd = (0..n).all(|i| a[i][i] > (0..n).filter(|&j| j != i).map(|j| a[i][j].abs()).sum::<f64>() * 1.001);
        if !dd { continue; }
        let cond = cond_est(&a);
        if cond > 200.0 { continue; }
        let s = to_sparse(&mut rng, &a);
        let xt: Vec<f64> = (0..n).map(|_| (rng.sym() * 100.0).round() / 2e3).collect(); // solution of size 1e-2
        if norm2(&xt) == 0.0 { continue; }
        let b: Vec<f64> = (0..n).map(|i| (0..n).map(|j| a[i][j] * xt[j]).sum::<f64>()).collect();
        let xref = lu_solve(&a, &b);
        let x0 = vec![1.0; n];
        let f = norm2(&x0) / norm2(&xref);
        if f > 100.0 { continue; }
        let bv = Vector::create(b.clone());
        runs += 1;
        let mut x = Vector::create(x0.clone());
        let res = run(3, &s, &bv, &mut x, 100, 1e-12);
        let diff: Vec<f64> = (0..n).map(|i| x[i] - xref[i]).collect();
        let err = norm2(&diff) / norm2(&xref);
        if res.is_err() {
            fails += 1;
            if printed < 30 { printed += 1; println!("qmr f={:.1} n={} kind={:?} cond={:.1} A={:?} b={:?} xt={:?} -> {:?} err={:e}", f, n, kind, cond, a, b, xt, res, err); }
        }
    }
    println!("qmr fails {} of {}", fails, runs);
}
