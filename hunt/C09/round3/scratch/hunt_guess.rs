mod hunt_common;
use hunt_common::*;
use ohsl::Vector;

#[test]
fn guess_sweep() {
    let cases: usize = std::env::var("HUNT_CASES").ok().and_then(|s| s.parse().ok()).unwrap_or(3000);
    let seed: u64 = std::env::var("HUNT_SEED").ok().and_then(|s| s.parse().ok()).unwrap_or(1);
    let mut rng = Rng(seed.wrapping_mul(0x9E3779B97F4A7C15) | 1);
    let factors = [1.0, 3.0, 10.0, 30.0, 100.0, 300.0, 1000.0];
    let mut fails = vec![[0usize; 4]; factors.len()];
    let mut runs = vec![[0usize; 4]; factors.len()];
    let mut printed = 0;
    for case in 0..cases {
        let n = 1 + rng.below(std::env::var("HUNT_NMAX").ok().and_then(|s| s.parse().ok()).unwrap_or(60));
        let kind = if rng.below(2) == 0 { Kind::Spd } else { Kind::DdPos };
        let a = gen_matrix(&mut rng, n, kind);
        let cond = cond_est(&a);
        if cond > 200.0 { continue; }
        let s = to_sparse(&mut rng, &a);
        let b: Vec<f64> = (0..n).map(|_| rng.sym()).collect();
        let xref = lu_solve(&a, &b);
        let nx = norm2(&xref);
        let tol = if rng.below(2) == 0 { 1e-12 } else { 1e-11 };
        let dir: Vec<f64> = (0..n).map(|_| rng.sym()).collect();
        let nd = norm2(&dir);
        let bv = Vector::create(b.clone());
        let maxit = 20 * n + 100;
        for (fi, f) in factors.iter().enumerate() {
            let x0: Vec<f64> = (0..n).map(|i| dir[i] / nd * nx * f).collect();
            for solver in 0..4 {
                if solver == 0 && kind != Kind::Spd { continue; }
                runs[fi][solver] += 1;
                let mut x = Vector::create(x0.clone());
                let res = run(solver, &s, &bv, &mut x, maxit, tol);
                let diff: Vec<f64> = (0..n).map(|i| x[i] - xref[i]).collect();
                let err = norm2(&diff) / nx;
                let finite = x.vec.iter().all(|v| v.is_finite());
                let ok = match res { Ok(it) => it <= 3 * n + 10 && err <= tol * cond * 1.01, Err(_) => false } && finite;
                if !ok {
                    fails[fi][solver] += 1;
                    if printed < 40 && *f <= 100.0 && res.is_err() && solver >= 2 { if n <= 6 { println!("A={:?} b={:?} x0={:?}", a, b, x0); } printed += 1; println!("case {} {} n={} kind={:?} cond={:.1} tol={:e} factor={} -> {:?} err={:e} finite={}", case, NAMES[solver], n, kind, cond, tol, f, res, err, finite); }
                }
            }
        }
    }
    for (fi, f) in factors.iter().enumerate() { println!("factor {}: runs {:?} fails {:?}", f, runs[fi], fails[fi]); }
}

#[test]
fn guess_dig() {
    let seed: u64 = std::env::var("HUNT_SEED").ok().and_then(|s| s.parse().ok()).unwrap_or(1);
    let target: usize = std::env::var("HUNT_CASE").ok().and_then(|s| s.parse().ok()).unwrap_or(1364);
    let f: f64 = std::env::var("HUNT_FACTOR").ok().and_then(|s| s.parse().ok()).unwrap_or(10.0);
    let mut rng = Rng(seed.wrapping_mul(0x9E3779B97F4A7C15) | 1);
    for case in 0..=target {
        let n = 1 + rng.below(std::env::var("HUNT_NMAX").ok().and_then(|s| s.parse().ok()).unwrap_or(60));
        let kind = if rng.below(2) == 0 { Kind::Spd } else { Kind::DdPos };
        let a = gen_matrix(&mut rng, n, kind);
        let cond = cond_est(&a);
        if cond > 200.0 { continue; }
        let s = to_sparse(&mut rng, &a);
        let b: Vec<f64> = (0..n).map(|_| rng.sym()).collect();
        let xref = lu_solve(&a, &b);
        let nx = norm2(&xref);
        let tol = if rng.below(2) == 0 { 1e-12 } else { 1e-11 };
        let dir: Vec<f64> = (0..n).map(|_| rng.sym()).collect();
        let nd = norm2(&dir);
        if case != target { continue; }
        let bv = Vector::create(b.clone());
        let x0: Vec<f64> = (0..n).map(|i| dir[i] / nd * nx * f).collect();
        println!("n={} kind={:?} cond={} tol={} ref_bicg={:?}", n, kind, cond, tol, ref_bicg(&a, &b, &x0, 20 * n + 100, tol));
        let solver: usize = std::env::var("HUNT_SOLVER").ok().and_then(|s| s.parse().ok()).unwrap_or(1);
        if n <= 6 { println!("A={:?}\nb={:?}\nx0={:?}\nxref={:?}", a, b, x0, xref); }
        for k in 1..=(4 * n + 40) {
            let mut x = Vector::create(x0.clone());
            let res = run(solver, &s, &bv, &mut x, k, tol);
            let ax: Vec<f64> = (0..n).map(|i| (0..n).map(|j| a[i][j] * x[j]).sum::<f64>()).collect();
            let tr: Vec<f64> = (0..n).map(|i| b[i] - ax[i]).collect();
            let diff: Vec<f64> = (0..n).map(|i| x[i] - xref[i]).collect();
            println!("maxit {} -> {:?} true res {:e} err {:e}", k, res, norm2(&tr) / norm2(&b), norm2(&diff) / nx);
            if res.is_ok() { break; }
        }
    }
}
