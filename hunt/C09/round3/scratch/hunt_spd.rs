mod hunt_common;
use hunt_common::*;
use ohsl::{Sparse, Vector};

// SPD matrix Q diag(lambda) Q^T from random Givens rotations
fn gen_spd(rng: &mut Rng, n: usize, cond: f64, scale: f64) -> Vec<Vec<f64>> {
    let mut a = vec![vec![0.0; n]; n];
    let mode = rng.below(3);
    for i in 0..n {
        let t = if n == 1 { 0.0 } else { i as f64 / (n - 1) as f64 };
        a[i][i] = scale * match mode {
            0 => cond.powf(t),                       // geometric
            1 => 1.0 + (cond - 1.0) * t,             // linear
            _ => if i == 0 { 1.0 } else { cond * (1.0 - 0.01 * rng.uni()) }, // one small, cluster at the top
        };
    }
    let rots = if n > 1 { rng.below(4 * n) } else { 0 };
    for _ in 0..rots {
        let i = rng.below(n); let mut j = rng.below(n); if i == j { j = (i + 1) % n; }
        let th = rng.sym() * 3.14159; let (c, s) = (th.cos(), th.sin());
        for k in 0..n { let (u, v) = (a[i][k], a[j][k]); a[i][k] = c * u - s * v; a[j][k] = s * u + c * v; }
        for k in 0..n { let (u, v) = (a[k][i], a[k][j]); a[k][i] = c * u - s * v; a[k][j] = s * u + c * v; }
    }
    // symmetrise exactly
    for i in 0..n { for j in 0..i { let m = 0.5 * (a[i][j] + a[j][i]); a[i][j] = m; a[j][i] = m; } }
    a
}

#[test]
fn spd_sweep() {
    let cases: usize = std::env::var("HUNT_CASES").ok().and_then(|s| s.parse().ok()).unwrap_or(2000);
    let seed: u64 = std::env::var("HUNT_SEED").ok().and_then(|s| s.parse().ok()).unwrap_or(1);
    let condmax: f64 = std::env::var("HUNT_CONDMAX").ok().and_then(|s| s.parse().ok()).unwrap_or(1000.0);
    let mut rng = Rng(seed.wrapping_mul(0x9E3779B97F4A7C15) | 1);
    let mut worst = [0.0f64; 4]; let mut fails = [0usize; 4]; let mut printed = 0;
    let mut worsterr = [0.0f64; 4];
    for case in 0..cases {
        let n = 1 + rng.below(60);
        let cond = 10f64.powf(rng.uni() * condmax.log10());
        let ascale = match rng.below(6) { 0 => 1e-7, 1 => 1e7, 2 => 0.7, 3 => 45.24, _ => 1.0 };
        let a = gen_spd(&mut rng, n, cond, ascale);
        let s = to_sparse(&mut rng, &a);
        let bscale = match rng.below(8) { 0 => 1e-120, 1 => 1e-40, 2 => 1e-7, 3 => 1e7, 4 => 1e40, 5 => 1e120, _ => 1.0 };
        let b: Vec<f64> = (0..n).map(|_| bscale * rng.sym()).collect();
        let xref = lu_solve(&a, &b);
        let nx = norm2(&xref);
        let tol = match rng.below(5) { 0 => 1e-12, 1 => 1e-10, 2 => 1e-8, 3 => 1e-5, _ => 1e-3 };
        let gkind = rng.below(4);
        let x0: Vec<f64> = (0..n).map(|i| match gkind { 0 => 0.0, 1 => xref[i], 2 => nx / (n as f64).sqrt() * rng.sym(), _ => xref[i] * (1.0 + 0.3 * rng.sym()) }).collect();
        let maxit = 20 * n + 100;
        let bv = Vector::create(b.clone());
        for solver in 0..4 {
            let mut x = Vector::create(x0.clone());
            let res = run(solver, &s, &bv, &mut x, maxit, tol);
            let diff: Vec<f64> = (0..n).map(|i| x[i] - xref[i]).collect();
            let err = norm2(&diff) / nx;
            let mut bad = String::new();
            match res {
                Ok(it) => {
                    let ratio = it as f64 / n as f64;
                    if it > 3 && ratio > worst[solver] { worst[solver] = ratio; }
                    if it > 3 * n + 10 { bad += &format!(" SLOW it={}", it); }
                    let q = err / (tol * cond + 1e-13 * cond);
                    if q > worsterr[solver] { worsterr[solver] = q; }
                    if q > 1.0 { bad += &format!(" INACC err={:e}", err); }
                    if gkind == 1 && it != 0 { bad += " EXACT-GUESS-NOT-ACCEPTED"; }
                }
                Err(e) => {
                    let (rit, rtr) = match solver { 0 => ref_cg(&a, &b, &x0, maxit, tol), 1 => { let t = ref_bicg(&a, &b, &x0, maxit, tol); (t.0, t.2) }, 2 => ref_bicgstab(&a, &b, &x0, maxit, tol), _ => ref_qmr(&a, &b, &x0, maxit, tol) };
                    bad += &format!(" ERR({:e}) err={:e} [ref it={} true={:e}]", e, err, rit, rtr);
                }
            }
            if !x.vec.iter().all(|v| v.is_finite()) { bad += " NONFINITE"; }
            if !bad.is_empty() {
                fails[solver] += 1;
                if printed < 50 { printed += 1; println!("case {} {} n={} cond={:.1} ascale={:e} bscale={:e} tol={:e} gkind={}:{}", case, NAMES[solver], n, cond, ascale, bscale, tol, gkind, bad); }
            }
        }
    }
    for s in 0..4 { println!("{}: fail {} worst it/n {:.2} worst err/(tol*cond) {:.3e}", NAMES[s], fails[s], worst[s], worsterr[s]); }
}
