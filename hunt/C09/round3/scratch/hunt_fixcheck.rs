// would a CG that restarts ( p = r ) after a failed confirmation pass finding 1?
#[test]
fn cg_with_restart() {
    let a = [[0.714, 0.7], [0.7, 0.714]];
    for b in [[-0.000148, 0.0002], [-0.000207, 0.000156]] {
        let mul = |v: &[f64; 2]| -> [f64; 2] { let mut r = [0.0; 2]; for j in 0..2 { for i in 0..2 { r[i] += a[i][j] * v[j]; } } r };
        let nrm = |v: &[f64; 2]| (v[0] * v[0] + v[1] * v[1]).sqrt();
        let mut x = [1.0, 1.0];
        let nb = nrm(&b);
        let ax = mul(&x);
        let mut r = [b[0] - ax[0], b[1] - ax[1]];
        let mut p = r; let mut rho_1 = 1.0; let mut restart = true;
        for i in 1..=20 {
            let rho = r[0] * r[0] + r[1] * r[1];
            if restart { p = r; restart = false; } else { let beta = rho / rho_1; p = [r[0] + beta * p[0], r[1] + beta * p[1]]; }
            let q = mul(&p);
            let alpha = rho / (p[0] * q[0] + p[1] * q[1]);
            x = [x[0] + alpha * p[0], x[1] + alpha * p[1]];
            r = [r[0] - alpha * q[0], r[1] - alpha * q[1]];
            if nrm(&r) / nb <= 1e-12 {
                let ax = mul(&x);
                r = [b[0] - ax[0], b[1] - ax[1]];
                println!("iter {} confirm: true {:e}", i, nrm(&r) / nb);
                if nrm(&r) / nb <= 1e-12 { println!("b={:?} converged at {} x={:?}", b, i, x); break; }
                restart = true;
            }
            rho_1 = rho;
        }
    }
}
