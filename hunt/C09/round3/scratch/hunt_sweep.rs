mod hunt_common;
use hunt_common::*;
use ohsl::Vector;

#[test]
fn sweep() {
    let cases: usize = std::env::var("HUNT_CASES").ok().and_then(|s| s.parse().ok()).unwrap_or(2000);
    let seed: u64 = std::env::var("HUNT_SEED").ok().and_then(|s| s.parse().ok()).unwrap_or(12345);
    let nmax: usize = std::env::var("HUNT_NMAX").ok().and_then(|s| s.parse().ok()).unwrap_or(60);
    let condmax: f64 = std::env::var("HUNT_CONDMAX").ok().and_then(|s| s.parse().ok()).unwrap_or(200.0);
    let mut rng = Rng(seed.wrapping_mul(0x9E3779B97F4A7C15) | 1);
    let mut worst_ratio = [0.0f64; 5];
    let mut worst_err = [0.0f64; 5];
    let mut nfail = [0usize; 5];
    let mut nrun = [0usize; 5];
    let mut printed = 0;
    for case in 0..cases {
        let c = match gen_case(&mut rng, nmax, condmax) { Some(c) => c, None => continue };
        let (n, kind, cond, s, b, bscale, bkind, xref, tol, gkind, x0) = (c.n, c.kind, c.cond, &c.s, &c.b, c.bscale, c.bkind, &c.xref, c.tol, c.gkind, &c.x0);
        let nx = norm2(xref); let nb = norm2(b);
        let tolmin: f64 = std::env::var("HUNT_TOLMIN").ok().and_then(|s| s.parse().ok()).unwrap_or(0.0);
        if tol < tolmin { continue; }
        let tolmax: f64 = std::env::var("HUNT_TOLMAX").ok().and_then(|s| s.parse().ok()).unwrap_or(1.0);
        if tol > tolmax { continue; }
        if std::env::var("HUNT_MIXED").is_ok() && kind != Kind::DdMixed { continue; }
        let maxit = 20 * n + 100;
        let bv = Vector::create(b.clone());
        for solver in 0..5 {
            if solver == 0 && kind != Kind::Spd { continue; }
            nrun[solver] += 1;
            let mut x = Vector::create(x0.clone());
            let res = run(solver, s, &bv, &mut x, maxit, tol);
            let diff: Vec<f64> = (0..n).map(|i| x[i] - xref[i]).collect();
            let err = if nx > 0.0 { norm2(&diff) / nx } else { norm2(&diff) };
            let finite = x.vec.iter().all(|v| v.is_finite());
            let mut bad = String::new();
            match res {
                Ok(it) => {
                    let ratio = it as f64 / n as f64;
                    if it > 2 && ratio > worst_ratio[solver] { worst_ratio[solver] = ratio; }
                    if it > 3 * n + 10 { bad += &format!(" SLOW it={}", it); }
                    let q = err / (tol * cond + 1e-13 * cond);
                    if nb > 0.0 && q > worst_err[solver] { worst_err[solver] = q; }
                    if nb > 0.0 && q > 1.0 { bad += &format!(" INACC err={:e} q={:e}", err, q); }
                    if nb > 0.0 && std::env::var("HUNT_REF").is_ok() {
                        let (rit, rtr) = match solver { 0 => ref_cg(&c.a, b, x0, maxit, tol), 1 | 4 => { let t = ref_bicg(&c.a, b, x0, maxit, tol); (t.0, t.2) }, 2 => ref_bicgstab(&c.a, b, x0, maxit, tol), _ => ref_qmr(&c.a, b, x0, maxit, tol) };
                        if rit < maxit && (it as f64) > 1.25 * rit as f64 + 3.0 { bad += &format!(" MORE-THAN-REF it={} ref it={} ref true res={:e}", it, rit, rtr); }
                    }
                    if (gkind == 1 || (gkind == 0 && nb == 0.0)) && it != 0 { bad += &format!(" EXACT-GUESS-it={}", it); }
                }
                Err(e) => { bad += &format!(" ERR({:e}) err={:e}", e, err); }
            }
            if !finite { bad += " NONFINITE"; }
            let onlyerr = std::env::var("HUNT_ONLYERR").is_ok();
            if onlyerr && res.is_ok() { bad.clear(); }
            if !bad.is_empty() && (solver == 1 || solver == 4) && nb > 0.0 {
                let (it, spike, tr) = ref_bicg(&c.a, b, x0, maxit, tol);
                bad += &format!(" [ref bicg: it={} spike={:e} true={:e}]", it, spike, tr);
            }
            if !bad.is_empty() {
                nfail[solver] += 1;
                if printed < 60 {
                    printed += 1;
                    println!("case {} {} n={} kind={:?} cond={:.1} bscale={:e} bkind={} nb={:e} tol={:e} gkind={} :{}",
                        case, NAMES[solver], n, kind, cond, bscale, bkind, nb, tol, gkind, bad);
                }
            }
        }
    }
    for s in 0..5 {
        println!("{}: run {} fail {} worst it/n {:.2} worst err/(tol*cond) {:.3e}", NAMES[s], nrun[s], nfail[s], worst_ratio[s], worst_err[s]);
    }
}
