use ohsl::{Sparse, Vector};

fn solve2(a: [[f64; 2]; 2], b: [f64; 2]) -> [f64; 2] {
    let det = a[0][0] * a[1][1] - a[0][1] * a[1][0];
    [(b[0] * a[1][1] - a[0][1] * b[1]) / det, (a[0][0] * b[1] - a[1][0] * b[0]) / det]
}

#[test]
fn cg2() {
    let a = [[0.714, 0.7], [0.7, 0.714]];
    let mut t = vec![(0, 0, a[0][0]), (0, 1, a[0][1]), (1, 0, a[1][0]), (1, 1, a[1][1])];
    let s = Sparse::from_triplets(2, 2, &mut t);
    let mut count = 0; let mut total = 0;
    for x0 in [[1.0, 1.0]] {
    for p in -1000i32..=1000 { for q in -1000i32..=1000 {
        if p == 0 && q == 0 { continue; }
        let b = [p as f64 * 1e-6, q as f64 * 1e-6];
        let xr = solve2(a, b);
        let nx = (xr[0] * xr[0] + xr[1] * xr[1]).sqrt();
        let f = (x0[0] * x0[0] + x0[1] * x0[1] as f64).sqrt() / nx;
        if f > 120.0 { continue; }
        let bv = Vector::create(b.to_vec());
        for solver in 0..1 {
            let mut x = Vector::create(x0.to_vec());
            let res = if solver == 0 { s.solve_cg(&bv, &mut x, 100, 1e-12) } else { s.solve_bicg(&bv, &mut x, 100, 1e-12, 1) };
            let err = ((x[0] - xr[0]).powi(2) + (x[1] - xr[1]).powi(2)).sqrt() / nx;
            total += 1;
            if res.is_err() { count += 1; if count < 40 { println!("solver {} x0={:?} b={:?} xr={:?} |x0|/|x|={:.1} -> {:?} x={:?} err={:e}", solver, x0, b, xr, f, res, x.vec, err); } }
        }
    } } }
    println!("failures {} of {}", count, total);
}
