// Sweep of the four iterative solvers against an own dense LU reference
#![allow(dead_code)]
use ohsl::{Sparse, Vector};

pub struct Rng(pub u64);
impl Rng {
    pub fn next(&mut self) -> u64 {
        let mut x = self.0;
        x ^= x << 13; x ^= x >> 7; x ^= x << 17;
        self.0 = x; x
    }
    pub fn uni(&mut self) -> f64 { (self.next() >> 11) as f64 / (1u64 << 53) as f64 }
    pub fn sym(&mut self) -> f64 { 2.0 * self.uni() - 1.0 }
    pub fn below(&mut self, n: usize) -> usize { (self.next() % n as u64) as usize }
}

// own reference: LU with partial pivoting on row-major dense; returns solution and the inverse 1-norm
pub fn lu_solve(a: &Vec<Vec<f64>>, b: &Vec<f64>) -> Vec<f64> {
    let n = b.len();
    let mut m = a.clone();
    let mut x = b.clone();
    for k in 0..n {
        let mut piv = k;
        for i in k + 1..n { if m[i][k].abs() > m[piv][k].abs() { piv = i; } }
        m.swap(k, piv); x.swap(k, piv);
        for i in k + 1..n {
            let f = m[i][k] / m[k][k];
            if f != 0.0 {
                for j in k..n { m[i][j] -= f * m[k][j]; }
                x[i] -= f * x[k];
            }
        }
    }
    for k in (0..n).rev() {
        let mut s = x[k];
        for j in k + 1..n { s -= m[k][j] * x[j]; }
        x[k] = s / m[k][k];
    }
    x
}

pub fn norm2(v: &Vec<f64>) -> f64 {
    let s = v.iter().fold(0.0f64, |a, b| a.max(b.abs()));
    if s == 0.0 { return 0.0; }
    s * v.iter().map(|t| (t / s) * (t / s)).sum::<f64>().sqrt()
}

// 2-norm condition estimate: sqrt(cond_1 * cond_inf) upper bound
pub fn cond_est(a: &Vec<Vec<f64>>) -> f64 {
    let n = a.len();
    let mut inv = vec![vec![0.0; n]; n];
    for j in 0..n {
        let mut e = vec![0.0; n]; e[j] = 1.0;
        let c = lu_solve(a, &e);
        for i in 0..n { inv[i][j] = c[i]; }
    }
    let n1 = |m: &Vec<Vec<f64>>| (0..n).map(|j| (0..n).map(|i| m[i][j].abs()).sum::<f64>()).fold(0.0, f64::max);
    let ni = |m: &Vec<Vec<f64>>| (0..n).map(|i| (0..n).map(|j| m[i][j].abs()).sum::<f64>()).fold(0.0, f64::max);
    (n1(a) * n1(&inv) * ni(a) * ni(&inv)).sqrt()
}

#[derive(Clone, Copy, Debug, PartialEq)]
pub enum Kind { Spd, DdPos, DdMixed }

pub fn gen_matrix(rng: &mut Rng, n: usize, kind: Kind) -> Vec<Vec<f64>> {
    let mut a = vec![vec![0.0; n]; n];
    let dens = match rng.below(4) { 0 => 0.05, 1 => 0.2, 2 => 0.5, _ => 1.0 };
    let val = |rng: &mut Rng| -> f64 {
        match rng.below(6) {
            0 => rng.sym(),
            1 => 0.7 * if rng.below(2) == 0 { 1.0 } else { -1.0 },
            2 => rng.sym() * 1e-3,
            3 => rng.sym() * 45.24,
            4 => rng.uni(), // one sign
            _ => -0.3 + 0.001 * rng.sym(),
        }
    };
    for i in 0..n {
        for j in 0..n {
            if i == j { continue; }
            if kind == Kind::Spd && j < i { continue; }
            if rng.uni() < dens {
                let v = val(rng);
                a[i][j] = v;
                if kind == Kind::Spd { a[j][i] = v; }
            }
        }
    }
    let margin = match rng.below(5) { 0 => 0.02, 1 => 0.1, 2 => 0.5, 3 => 2.0, _ => rng.uni() };
    for i in 0..n {
        let s: f64 = (0..n).filter(|&j| j != i).map(|j| a[i][j].abs()).sum();
        let mut d = s * (1.0 + margin) + if s == 0.0 { 0.1 + rng.uni() } else { 0.0 };
        // generic extra so that rows with tiny sums don't make the matrix badly scaled
        if rng.below(3) == 0 { d += rng.uni() * 0.37; }
        if kind == Kind::DdMixed && rng.below(2) == 0 { d = -d; }
        a[i][i] = d;
    }
    a
}

pub fn to_sparse(rng: &mut Rng, a: &Vec<Vec<f64>>) -> Sparse<f64> {
    let n = a.len();
    let mut t = vec![];
    for i in 0..n { for j in 0..n { if a[i][j] != 0.0 { t.push((i, j, a[i][j])); } } }
    // random triplet order
    for k in (1..t.len()).rev() { let j = rng.below(k + 1); t.swap(k, j); }
    Sparse::from_triplets(n, n, &mut t)
}

pub struct Case { pub n: usize, pub kind: Kind, pub a: Vec<Vec<f64>>, pub cond: f64, pub s: Sparse<f64>, pub b: Vec<f64>, pub bscale: f64, pub bkind: usize,
    pub xref: Vec<f64>, pub tol: f64, pub gkind: usize, pub x0: Vec<f64> }

pub fn gen_case(rng: &mut Rng, nmax: usize, condmax: f64) -> Option<Case> {
    let n = 1 + rng.below(nmax);
    let kind = match rng.below(3) { 0 => Kind::Spd, 1 => Kind::DdPos, _ => Kind::DdMixed };
    let a = gen_matrix(rng, n, kind);
    let cond = cond_est(&a);
    if !(cond <= condmax) { return None; }
    let s = to_sparse(rng, &a);
    let bscale = match rng.below(8) { 0 => 1e-120, 1 => 1e-40, 2 => 1e-7, 3 => 1e7, 4 => 1e40, 5 => 1e120, _ => 1.0 };
    let bkind = rng.below(6);
    let mut b: Vec<f64> = (0..n).map(|i| match bkind {
        0 => bscale * rng.sym(),
        1 => bscale * (0.7 + 0.001 * rng.sym()),
        2 => bscale * rng.uni(),
        3 => bscale * if i == n - 1 { 1.0 } else { 1e-7 * rng.sym() },
        4 => bscale * (1.0 + (i as f64) * 0.3),
        _ => bscale * rng.sym() * 10f64.powf(3.0 * rng.sym()),
    }).collect();
    if rng.below(40) == 0 { for v in b.iter_mut() { *v = 0.0; } }
    let xref = lu_solve(&a, &b);
    let nx = norm2(&xref);
    let tol = match rng.below(5) { 0 => 1e-12, 1 => 1e-10, 2 => 1e-8, 3 => 1e-5, _ => 1e-3 };
    let gkind = rng.below(4);
    let x0: Vec<f64> = (0..n).map(|i| match gkind {
        0 => 0.0,
        1 => xref[i],
        2 => nx / (n as f64).sqrt() * rng.sym(),
        _ => xref[i] * (1.0 + 0.3 * rng.sym()),
    }).collect();
    Some(Case { n, kind, a, cond, s, b, bscale, bkind, xref, tol, gkind, x0 })
}

pub fn replay(seed: u64, target: usize, nmax: usize, condmax: f64) -> Case {
    let mut rng = Rng(seed.wrapping_mul(0x9E3779B97F4A7C15) | 1);
    for case in 0..=target {
        let c = gen_case(&mut rng, nmax, condmax);
        if case == target { return c.expect("case was skipped"); }
    }
    unreachable!()
}

pub fn run(solver: usize, s: &Sparse<f64>, b: &Vector<f64>, x: &mut Vector<f64>, maxit: usize, tol: f64) -> Result<usize, f64> {
    match solver {
        0 => s.solve_cg(b, x, maxit, tol),
        1 => s.solve_bicg(b, x, maxit, tol, 1),
        2 => s.solve_bicgstab(b, x, maxit, tol),
        3 => s.solve_qmr(b, x, maxit, tol),
        _ => s.solve_bicg(b, x, maxit, tol, 2),
    }
}

pub const NAMES: [&str; 5] = ["cg", "bicg1", "bicgstab", "qmr", "bicg2"];

// textbook BiCG (stops on the recurrence residual); returns (iterations, largest residual / initial residual seen, true relative residual at the end)
pub fn ref_bicg(a: &Vec<Vec<f64>>, b: &Vec<f64>, x0: &Vec<f64>, maxit: usize, tol: f64) -> (usize, f64, f64) {
    let n = b.len();
    let mul = |v: &Vec<f64>| -> Vec<f64> { (0..n).map(|i| (0..n).map(|j| a[i][j] * v[j]).sum()).collect() };
    let mult = |v: &Vec<f64>| -> Vec<f64> { (0..n).map(|i| (0..n).map(|j| a[j][i] * v[j]).sum()).collect() };
    let dot = |u: &Vec<f64>, v: &Vec<f64>| -> f64 { u.iter().zip(v).map(|(a, b)| a * b).sum() };
    let mut x = x0.clone();
    let ax = mul(&x);
    let mut r: Vec<f64> = (0..n).map(|i| b[i] - ax[i]).collect();
    let mut rr = r.clone();
    let mut p = r.clone(); let mut pp = rr.clone();
    let nb = norm2(b);
    let r0 = norm2(&r);
    let mut rho_old = 1.0;
    let mut spike: f64 = 1.0;
    let mut its = 0;
    for it in 1..=maxit {
        its = it;
        let rho = dot(&r, &rr);
        if it > 1 { let beta = rho / rho_old; for i in 0..n { p[i] = r[i] + beta * p[i]; pp[i] = rr[i] + beta * pp[i]; } }
        let q = mul(&p); let qq = mult(&pp);
        let alpha = rho / dot(&pp, &q);
        for i in 0..n { x[i] += alpha * p[i]; r[i] -= alpha * q[i]; rr[i] -= alpha * qq[i]; }
        rho_old = rho;
        spike = spike.max(norm2(&r) / r0);
        if norm2(&r) / nb <= tol { break; }
    }
    let ax = mul(&x);
    let tr: Vec<f64> = (0..n).map(|i| b[i] - ax[i]).collect();
    (its, spike, norm2(&tr) / nb)
}

fn dmul(a: &Vec<Vec<f64>>, v: &Vec<f64>) -> Vec<f64> { let n = v.len(); (0..n).map(|i| (0..n).map(|j| a[i][j] * v[j]).sum()).collect() }
fn dmult(a: &Vec<Vec<f64>>, v: &Vec<f64>) -> Vec<f64> { let n = v.len(); (0..n).map(|i| (0..n).map(|j| a[j][i] * v[j]).sum()).collect() }
fn ddot(u: &Vec<f64>, v: &Vec<f64>) -> f64 { u.iter().zip(v).map(|(a, b)| a * b).sum() }
fn true_res(a: &Vec<Vec<f64>>, b: &Vec<f64>, x: &Vec<f64>) -> f64 { let ax = dmul(a, x); let t: Vec<f64> = (0..b.len()).map(|i| b[i] - ax[i]).collect(); norm2(&t) / norm2(b) }

// textbook CG: (iterations, true relative residual at the end)
pub fn ref_cg(a: &Vec<Vec<f64>>, b: &Vec<f64>, x0: &Vec<f64>, maxit: usize, tol: f64) -> (usize, f64) {
    let n = b.len(); let nb = norm2(b);
    let mut x = x0.clone(); let ax = dmul(a, &x);
    let mut r: Vec<f64> = (0..n).map(|i| b[i] - ax[i]).collect();
    let mut p = r.clone(); let mut rho = ddot(&r, &r); let mut its = 0;
    if norm2(&r) / nb <= tol { return (0, true_res(a, b, &x)); }
    for it in 1..=maxit {
        its = it;
        let q = dmul(a, &p); let alpha = rho / ddot(&p, &q);
        for i in 0..n { x[i] += alpha * p[i]; r[i] -= alpha * q[i]; }
        if norm2(&r) / nb <= tol { break; }
        let rho1 = ddot(&r, &r); let beta = rho1 / rho; rho = rho1;
        for i in 0..n { p[i] = r[i] + beta * p[i]; }
    }
    (its, true_res(a, b, &x))
}

// textbook BiCGSTAB (van der Vorst)
pub fn ref_bicgstab(a: &Vec<Vec<f64>>, b: &Vec<f64>, x0: &Vec<f64>, maxit: usize, tol: f64) -> (usize, f64) {
    let n = b.len(); let nb = norm2(b);
    let mut x = x0.clone(); let ax = dmul(a, &x);
    let mut r: Vec<f64> = (0..n).map(|i| b[i] - ax[i]).collect();
    let rt = r.clone();
    if norm2(&r) / nb <= tol { return (0, true_res(a, b, &x)); }
    let (mut rho, mut alpha, mut omega) = (1.0, 1.0, 1.0);
    let mut v = vec![0.0; n]; let mut p = vec![0.0; n]; let mut its = 0;
    for it in 1..=maxit {
        its = it;
        let rho1 = ddot(&rt, &r); let beta = (rho1 / rho) * (alpha / omega); rho = rho1;
        for i in 0..n { p[i] = r[i] + beta * (p[i] - omega * v[i]); }
        v = dmul(a, &p); alpha = rho / ddot(&rt, &v);
        let s: Vec<f64> = (0..n).map(|i| r[i] - alpha * v[i]).collect();
        if norm2(&s) / nb <= tol { for i in 0..n { x[i] += alpha * p[i]; } break; }
        let t = dmul(a, &s); omega = ddot(&t, &s) / ddot(&t, &t);
        for i in 0..n { x[i] += alpha * p[i] + omega * s[i]; r[i] = s[i] - omega * t[i]; }
        if norm2(&r) / nb <= tol { break; }
    }
    (its, true_res(a, b, &x))
}

// QMR without look-ahead from the coupled two-term Lanczos recurrences (Templates, no preconditioner)
pub fn ref_qmr(a: &Vec<Vec<f64>>, b: &Vec<f64>, x0: &Vec<f64>, maxit: usize, tol: f64) -> (usize, f64) {
    let n = b.len(); let nb = norm2(b);
    let mut x = x0.clone(); let ax = dmul(a, &x);
    let mut r: Vec<f64> = (0..n).map(|i| b[i] - ax[i]).collect();
    if norm2(&r) / nb <= tol { return (0, true_res(a, b, &x)); }
    let mut vt = r.clone(); let mut wt = r.clone();
    let mut rho = norm2(&vt); let mut xi = norm2(&wt);
    let (mut gamma, mut eta, mut theta, mut ep) = (1.0f64, -1.0f64, 0.0f64, 1.0f64);
    let mut p = vec![0.0; n]; let mut q = vec![0.0; n]; let mut d = vec![0.0; n]; let mut s = vec![0.0; n];
    let mut its = 0;
    for it in 1..=maxit {
        its = it;
        let v: Vec<f64> = vt.iter().map(|t| t / rho).collect();
        let w: Vec<f64> = wt.iter().map(|t| t / xi).collect();
        let delta = ddot(&w, &v);
        if it == 1 { p = v.clone(); q = w.clone(); }
        else { let c1 = xi * delta / ep; let c2 = rho * delta / ep; for i in 0..n { p[i] = v[i] - c1 * p[i]; q[i] = w[i] - c2 * q[i]; } }
        let pt = dmul(a, &p); ep = ddot(&q, &pt); let beta = ep / delta;
        for i in 0..n { vt[i] = pt[i] - beta * v[i]; }
        let rho1 = rho; rho = norm2(&vt);
        let atq = dmult(a, &q); for i in 0..n { wt[i] = atq[i] - beta * w[i]; }
        xi = norm2(&wt);
        let (g1, t1) = (gamma, theta);
        theta = rho / (g1 * beta.abs()); gamma = 1.0 / (1.0 + theta * theta).sqrt();
        eta = -eta * rho1 * gamma * gamma / (beta * g1 * g1);
        let c = t1 * t1 * gamma * gamma;
        for i in 0..n { d[i] = eta * p[i] + c * d[i]; s[i] = eta * pt[i] + c * s[i]; x[i] += d[i]; r[i] -= s[i]; }
        if norm2(&r) / nb <= tol { break; }
    }
    (its, true_res(a, b, &x))
}
