mod hunt_common;
use hunt_common::*;
use ohsl::Vector;

#[test]
fn zero_rhs_random_guess() {
    let mut rng = Rng(0xABCDEF);
    let mut fails = [0usize; 4]; let mut runs = [0usize; 4]; let mut printed = 0;
    for case in 0..20000 {
        let n = 1 + rng.below(60);
        let kind = if rng.below(2) == 0 { Kind::Spd } else { Kind::DdPos };
        let a = gen_matrix(&mut rng, n, kind);
        let cond = cond_est(&a);
        if cond > 200.0 { continue; }
        let s = to_sparse(&mut rng, &a);
        let gs = match rng.below(5) { 0 => 1e-7, 1 => 1e-3, 2 => 1.0, 3 => 45.24, _ => 0.7 };
        let x0: Vec<f64> = (0..n).map(|_| gs * rng.sym()).collect();
        let tol = match rng.below(3) { 0 => 1e-12, 1 => 1e-8, _ => 1e-3 };
        let bv = Vector::create(vec![0.0; n]);
        for solver in 0..4 {
            if solver == 0 && kind != Kind::Spd { continue; }
            runs[solver] += 1;
            let mut x = Vector::create(x0.clone());
            let res = run(solver, &s, &bv, &mut x, 20 * n + 100, tol);
            let nx = norm2(&x.vec);
            let ax = (0..n).map(|i| (0..n).map(|j| a[i][j] * x[j]).sum::<f64>()).collect::<Vec<f64>>();
            let ok = match res { Ok(it) => it <= 3 * n + 10 && norm2(&ax) <= tol * 1.0001, Err(_) => false } && nx.is_finite();
            if !ok { fails[solver] += 1; if printed < 20 { printed += 1; println!("case {} {} n={} kind={:?} cond={:.1} gs={:e} tol={:e} -> {:?} |x|={:e} |Ax|={:e}", case, NAMES[solver], n, kind, cond, gs, tol, res, nx, norm2(&ax)); } }
        }
    }
    println!("zero rhs: runs {:?} fails {:?}", runs, fails);
}

#[test]
fn scaled_matrix() {
    let mut rng = Rng(0x13579B);
    let scales = [1e-120, 1e-40, 1e-7, 1.0, 1e7, 1e40, 1e120];
    let mut printed = 0;
    let mut table = std::collections::BTreeMap::new();
    for case in 0..6000 {
        let n = 1 + rng.below(40);
        let kind = if rng.below(2) == 0 { Kind::Spd } else { Kind::DdPos };
        let a0 = gen_matrix(&mut rng, n, kind);
        let cond = cond_est(&a0);
        if cond > 200.0 { continue; }
        let ai = rng.below(7); let bi = rng.below(7);
        let (asc, bsc) = (scales[ai], scales[bi]);
        let a: Vec<Vec<f64>> = a0.iter().map(|r| r.iter().map(|v| v * asc).collect()).collect();
        let s = to_sparse(&mut rng, &a);
        let b0: Vec<f64> = (0..n).map(|_| rng.sym()).collect();
        let b: Vec<f64> = b0.iter().map(|v| v * bsc).collect();
        let x1 = lu_solve(&a0, &b0);
        let xs = bsc / asc;
        if !(xs.is_finite()) || xs > 1e250 || xs < 1e-250 { continue; }
        let xref: Vec<f64> = x1.iter().map(|v| v * xs).collect();
        let tol = if rng.below(2) == 0 { 1e-10 } else { 1e-5 };
        let bv = Vector::create(b.clone());
        for solver in 0..4 {
            if solver == 0 && kind != Kind::Spd { continue; }
            let mut x = Vector::create(vec![0.0; n]);
            let res = run(solver, &s, &bv, &mut x, 20 * n + 100, tol);
            let diff: Vec<f64> = (0..n).map(|i| x[i] / xs - x1[i]).collect();
            let err = norm2(&diff) / norm2(&x1);
            let ok = match res { Ok(it) => it <= 3 * n + 10 && err <= tol * cond * 1.01, Err(_) => false };
            let e = table.entry((solver, ai, bi)).or_insert((0usize, 0usize));
            e.0 += 1; if !ok { e.1 += 1; }
            if !ok && printed < 10 { printed += 1; println!("case {} {} n={} kind={:?} cond={:.1} ascale={:e} bscale={:e} tol={:e} -> {:?} err={:e}", case, NAMES[solver], n, kind, cond, asc, bsc, tol, res, err); }
            let _ = &xref;
        }
    }
    for ((solver, ai, bi), (r, f)) in table.iter() { if *f > 0 { println!("{} ascale={:e} bscale={:e}: runs {} fails {}", NAMES[*solver], scales[*ai], scales[*bi], r, f); } }
}
