mod hunt_common;
use hunt_common::*;
use ohsl::Vector;

#[test]
fn big() {
    let mut rng = Rng(0x2468ACE);
    let mut worst = [0.0f64; 4]; let mut fails = [0usize; 4];
    for case in 0..60 {
        let n = 61 + rng.below(240);
        let kind = match rng.below(3) { 0 => Kind::Spd, 1 => Kind::DdPos, _ => Kind::DdMixed };
        let a = gen_matrix(&mut rng, n, kind);
        let s = to_sparse(&mut rng, &a);
        let b: Vec<f64> = (0..n).map(|_| rng.sym() * 0.7).collect();
        let xref = lu_solve(&a, &b);
        let tol = if rng.below(2) == 0 { 1e-12 } else { 1e-8 };
        let bv = Vector::create(b.clone());
        for solver in 0..4 {
            if solver == 0 && kind != Kind::Spd { continue; }
            let mut x = Vector::create(vec![0.0; n]);
            let res = run(solver, &s, &bv, &mut x, 10 * n, tol);
            let diff: Vec<f64> = (0..n).map(|i| x[i] - xref[i]).collect();
            let err = norm2(&diff) / norm2(&xref);
            match res { Ok(it) => { worst[solver] = worst[solver].max(it as f64 / n as f64); if err > tol * 1e4 { fails[solver] += 1; println!("case {} {} n={} kind={:?} INACC err={:e}", case, NAMES[solver], n, kind, err); } }
                Err(e) => { fails[solver] += 1; println!("case {} {} n={} kind={:?} tol={:e} Err({:e}) err={:e}", case, NAMES[solver], n, kind, tol, e, err); } }
        }
    }
    println!("big: fails {:?} worst it/n {:?}", fails, worst);
}
