use ohsl::{Sparse, Vector};
#[test]
fn cg3() {
    let a = [[0.714, 0.7], [0.7, 0.714]];
    let mut t = vec![(0, 0, a[0][0]), (0, 1, a[0][1]), (1, 0, a[1][0]), (1, 1, a[1][1])];
    let s = Sparse::from_triplets(2, 2, &mut t);
    for b in [[-0.000148, 0.0002], [-0.000207, 0.000156]] {
        let det = a[0][0] * a[1][1] - a[0][1] * a[1][0];
        let xr = [(b[0] * a[1][1] - a[0][1] * b[1]) / det, (a[0][0] * b[1] - a[1][0] * b[0]) / det];
        let bv = Vector::create(b.to_vec());
        for solver in 0..4 {
            for maxit in [1usize, 2, 3, 4, 5, 6, 7, 8, 10, 12, 15, 20, 30, 50, 100, 1000] {
                let mut x = Vector::create(vec![1.0, 1.0]);
                let res = match solver { 0 => s.solve_cg(&bv, &mut x, maxit, 1e-12), 1 => s.solve_bicg(&bv, &mut x, maxit, 1e-12, 1), 2 => s.solve_bicgstab(&bv, &mut x, maxit, 1e-12), _ => s.solve_qmr(&bv, &mut x, maxit, 1e-12) };
                let nx = (xr[0] * xr[0] + xr[1] * xr[1]).sqrt();
                let err = ((x[0] - xr[0]).powi(2) + (x[1] - xr[1]).powi(2)).sqrt() / nx;
                let r = [b[0] - a[0][0] * x[0] - a[0][1] * x[1], b[1] - a[1][0] * x[0] - a[1][1] * x[1]];
                let tr = (r[0] * r[0] + r[1] * r[1]).sqrt() / (b[0] * b[0] + b[1] * b[1]).sqrt();
                println!("solver {} b={:?} maxit={} -> {:?} x={:?} err={:e} true res={:e}", solver, b, maxit, res, x.vec, err, tr);
                if res.is_ok() { break; }
            }
        }
    }
}
