// C09 finding 2: solve_bicg turns a correct x into NaN.
//
// Same input as finding 1 ( on an SPD matrix with rr = r BiCG is CG, so no Lanczos breakdown is possible ).
// After 2 = n iterations x agrees with the exact solution to 2e-13; in iteration 3 the recurrence residual
// passes the test, the true residual ( 1.13e-12 ) does not, r and z are overwritten by the true residual
// while rr, p, pp and rho_2 are kept; the residual then grows ( 2.5e-12, 4.4e-10, 1.8e-9, 6.2e-9, 7.4e-8 )
// and from iteration 10 on x is ( NaN, NaN ). The call returns Err( NaN ).
use ohsl::{Sparse, Vector};

fn check( b: [f64; 2], itol: usize ) {
    let a = [ [ 0.714, 0.7 ], [ 0.7, 0.714 ] ];
    let cond = 1.414 / 0.014;
    let tol = 1.0e-12;
    let mut triplets = vec![ ( 0, 0, a[0][0] ), ( 0, 1, a[0][1] ), ( 1, 0, a[1][0] ), ( 1, 1, a[1][1] ) ];
    let sparse = Sparse::from_triplets( 2, 2, &mut triplets );
    let det = a[0][0] * a[1][1] - a[0][1] * a[1][0];
    let xr = [ ( b[0] * a[1][1] - a[0][1] * b[1] ) / det, ( a[0][0] * b[1] - a[1][0] * b[0] ) / det ];
    let rhs = Vector::create( b.to_vec() );
    let mut x = Vector::create( vec![ 1.0, 1.0 ] );
    let result = sparse.solve_bicg( &rhs, &mut x, 100, tol, itol );
    let err = ( ( x[0] - xr[0] ).powi( 2 ) + ( x[1] - xr[1] ).powi( 2 ) ).sqrt() / ( xr[0] * xr[0] + xr[1] * xr[1] ).sqrt();
    println!( "b = {:?}: solve_bicg -> {:?}, x = {:?}, exact = {:?}, relative error {:e}", b, result, x.vec, xr, err );
    assert!( x[0].is_finite() && x[1].is_finite(), "x is not finite: {:?} ( result {:?} )", x.vec, result );
    assert!( result.is_ok(), "solve_bicg failed on a 2 x 2 SPD system of condition 101: {:?}, x = {:?}", result, x.vec );
    assert!( result.unwrap() <= 10, "solve_bicg needed {} iterations for a 2 x 2 system", result.unwrap() );
    assert!( err <= 2.0 * tol * cond, "relative error {:e} exceeds tol * cond", err );
}

#[test]
fn bicg_2x2_spd_guess_80_times_the_solution() {
    check( [ -0.000148, 0.0002 ], 1 );
}

#[test]
fn bicg_2x2_spd_second_right_hand_side_itol_2() {
    check( [ -0.000207, 0.000156 ], 2 );
}
