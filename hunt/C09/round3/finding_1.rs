// C09 finding 1: solve_cg destroys an x that was already correct.
//
// A = [[0.714, 0.7], [0.7, 0.714]] is symmetric positive definite and strictly diagonally dominant,
// eigenvalues 1.414 and 0.014, condition number 101. The guess ( 1, 1 ) is about 80 times larger than
// the solution ( ~ 0.0124 ). After 2 = n iterations x agrees with the exact solution to 2e-13 ( true
// residual 3e-13 ), but the recurrence residual reads 1.4e-12 > tol, so the loop goes on; in iteration 3
// the recurrence residual passes, the true residual ( 1.13e-12 ) does not, r is overwritten by the true
// residual while p and rho_1 are kept - and from there the iteration diverges: Err( 4.4e12 ) with
// x = ( 2.9e9, -1.8e9 ) after 100 iterations, NaN after 1000. solve_bicgstab answers Ok( 2 ) and
// solve_qmr Ok( 6 ) on the same input.
use ohsl::{Sparse, Vector};

fn check( b: [f64; 2] ) {
    let a = [ [ 0.714, 0.7 ], [ 0.7, 0.714 ] ];
    let cond = 1.414 / 0.014;
    let tol = 1.0e-12;
    let mut triplets = vec![ ( 0, 0, a[0][0] ), ( 0, 1, a[0][1] ), ( 1, 0, a[1][0] ), ( 1, 1, a[1][1] ) ];
    let sparse = Sparse::from_triplets( 2, 2, &mut triplets );
    // reference: Cramer's rule
    let det = a[0][0] * a[1][1] - a[0][1] * a[1][0];
    let xr = [ ( b[0] * a[1][1] - a[0][1] * b[1] ) / det, ( a[0][0] * b[1] - a[1][0] * b[0] ) / det ];
    let rhs = Vector::create( b.to_vec() );
    let mut x = Vector::create( vec![ 1.0, 1.0 ] );
    let result = sparse.solve_cg( &rhs, &mut x, 100, tol );
    let err = ( ( x[0] - xr[0] ).powi( 2 ) + ( x[1] - xr[1] ).powi( 2 ) ).sqrt() / ( xr[0] * xr[0] + xr[1] * xr[1] ).sqrt();
    println!( "b = {:?}: solve_cg -> {:?}, x = {:?}, exact = {:?}, relative error {:e}", b, result, x.vec, xr, err );
    assert!( x[0].is_finite() && x[1].is_finite(), "x is not finite: {:?}", x.vec );
    assert!( result.is_ok(), "solve_cg failed on a 2 x 2 SPD system of condition 101: {:?}, x = {:?}", result, x.vec );
    assert!( result.unwrap() <= 10, "solve_cg needed {} iterations for a 2 x 2 system", result.unwrap() );
    assert!( err <= 2.0 * tol * cond, "relative error {:e} exceeds tol * cond", err );
}

#[test]
fn cg_2x2_spd_guess_80_times_the_solution() {
    check( [ -0.000148, 0.0002 ] );
}

#[test]
fn cg_2x2_spd_second_right_hand_side() {
    check( [ -0.000207, 0.000156 ] );
}
