// C09 finding 1: BiCG (and QMR) break down on a 2x2 strictly diagonally dominant system.
//   A = [ 4 -2 ; -1 3 ],  b = (1, -1),  x0 = 0,  exact solution x = (0.1, -0.3), cond_2(A) ~ 2.
// b is a left eigenvector of A (A^T b = 5 b), so the shadow residual of the two-sided Lanczos
// process vanishes after one step.  solve_bicg then divides 0/0 and fills x with NaN;
// solve_qmr stops with Err although the residual is still 0.196.
use ohsl::vector::Vector;
use ohsl::sparse::Sparse;

fn system() -> ( Sparse<f64>, Vector<f64> ) {
    let mut t = vec![ ( 0, 0, 4.0 ), ( 0, 1, -2.0 ), ( 1, 0, -1.0 ), ( 1, 1, 3.0 ) ];
    ( Sparse::<f64>::from_triplets( 2, 2, &mut t ), Vector::create( vec![ 1.0, -1.0 ] ) )
}

fn check( name: &str, r: Result<usize, f64>, x: &Vector<f64> ) {
    assert!( x[0].is_finite() && x[1].is_finite(), "{}: x is not finite: {:?} (result {:?})", name, x.vec, r );
    assert!( r.is_ok(), "{}: no success on a 2x2 strictly diagonally dominant system: {:?}, x = {:?}", name, r, x.vec );
    assert!( r.unwrap() <= 20, "{}: {:?} iterations for a 2x2 system", name, r );
    let err = ( ( x[0] - 0.1 ).powi( 2 ) + ( x[1] + 0.3 ).powi( 2 ) ).sqrt();
    assert!( err <= 1.0e-6, "{}: x = {:?} is not (0.1, -0.3)", name, x.vec );
}

#[test]
fn bicg_itol1_2x2_left_eigenvector_rhs() {
    let ( a, b ) = system();
    let mut x = Vector::new( 2, 0.0 );
    let r = a.solve_bicg( &b, &mut x, 50, 1.0e-8, 1 );
    check( "solve_bicg itol=1", r, &x );
}

#[test]
fn bicg_itol2_2x2_left_eigenvector_rhs() {
    let ( a, b ) = system();
    let mut x = Vector::new( 2, 0.0 );
    let r = a.solve_bicg( &b, &mut x, 50, 1.0e-8, 2 );
    check( "solve_bicg itol=2", r, &x );
}

#[test]
fn qmr_2x2_left_eigenvector_rhs() {
    let ( a, b ) = system();
    let mut x = Vector::new( 2, 0.0 );
    let r = a.solve_qmr( &b, &mut x, 50, 1.0e-8 );
    check( "solve_qmr", r, &x );
}
