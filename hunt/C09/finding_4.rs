// C09 finding 4: right-hand sides of extreme (but finite, far from the f64 limits) scale.
// CG, BiCG and BiCGSTAB form r.r, p.Ap, t.t ... without scaling, so these overflow to inf for
// |b| >~ 1e154 and underflow to 0 for |b| <~ 1e-162; the step length becomes inf/inf or 0/0 and
// x is filled with NaN (BiCGSTAB on the small side: rho == 0 -> Err with x untouched).
// solve_qmr, which normalises its Lanczos vectors with norm_2, solves all of these.
use ohsl::vector::Vector;
use ohsl::sparse::Sparse;

// SPD and strictly diagonally dominant, cond ~ 2.6; solution of A x = s*(4,7) is s*(1,2)
fn matrix() -> Sparse<f64> {
    let mut t = vec![ ( 0, 0, 2.0 ), ( 0, 1, 1.0 ), ( 1, 0, 1.0 ), ( 1, 1, 3.0 ) ];
    Sparse::<f64>::from_triplets( 2, 2, &mut t )
}

fn run( which: &str, s: f64 ) {
    let a = matrix();
    let b = Vector::create( vec![ 4.0 * s, 7.0 * s ] );
    let mut x = Vector::new( 2, 0.0 );
    let r = match which {
        "cg" => a.solve_cg( &b, &mut x, 30, 1.0e-8 ),
        "bicg" => a.solve_bicg( &b, &mut x, 30, 1.0e-8, 1 ),
        "bicgstab" => a.solve_bicgstab( &b, &mut x, 30, 1.0e-8 ),
        _ => a.solve_qmr( &b, &mut x, 30, 1.0e-8 ),
    };
    assert!( x[0].is_finite() && x[1].is_finite(), "{} scale {:e}: x = {:?} ({:?})", which, s, x.vec, r );
    assert!( r.is_ok(), "{} scale {:e}: {:?}, x = {:?}", which, s, r, x.vec );
    let err = ( ( x[0] / s - 1.0 ).powi( 2 ) + ( x[1] / s - 2.0 ).powi( 2 ) ).sqrt();
    assert!( err <= 1.0e-6, "{} scale {:e}: x/s = ({}, {}) instead of (1, 2)", which, s, x[0] / s, x[1] / s );
}

#[test] fn cg_rhs_1e155() { run( "cg", 1.0e155 ); }
#[test] fn cg_rhs_1e_minus_165() { run( "cg", 1.0e-165 ); }
#[test] fn bicg_rhs_1e155() { run( "bicg", 1.0e155 ); }
#[test] fn bicg_rhs_1e_minus_165() { run( "bicg", 1.0e-165 ); }
#[test] fn bicgstab_rhs_1e155() { run( "bicgstab", 1.0e155 ); }
#[test] fn bicgstab_rhs_1e_minus_165() { run( "bicgstab", 1.0e-165 ); }

// 1x1: 2 x = 2e200
#[test]
fn cg_1x1_rhs_2e200() {
    let mut t = vec![ ( 0, 0, 2.0 ) ];
    let a = Sparse::<f64>::from_triplets( 1, 1, &mut t );
    let b = Vector::create( vec![ 2.0e200 ] );
    let mut x = Vector::new( 1, 0.0 );
    let r = a.solve_cg( &b, &mut x, 30, 1.0e-8 );
    assert!( r.is_ok() && ( x[0] / 1.0e200 - 1.0 ).abs() <= 1.0e-6, "2 x = 2e200: {:?}, x = {:?}", r, x.vec );
}

// controls (pass on the unmodified crate): QMR copes with both scales
#[test] fn control_qmr_rhs_1e155() { run( "qmr", 1.0e155 ); }
#[test] fn control_qmr_rhs_1e_minus_165() { run( "qmr", 1.0e-165 ); }
#[test] fn control_qmr_rhs_1e300() { run( "qmr", 1.0e300 ); }
#[test] fn control_qmr_rhs_1e_minus_300() { run( "qmr", 1.0e-300 ); }
