use ohsl::{Sparse, Vector};

// independent reference: Gaussian elimination with partial pivoting on a dense copy
fn dense_solve(a: &Vec<Vec<f64>>, b: &Vec<f64>) -> Vec<f64> {
    let n = b.len();
    let mut m = a.clone();
    let mut x = b.clone();
    for k in 0..n {
        let mut piv = k;
        for i in k + 1..n { if m[i][k].abs() > m[piv][k].abs() { piv = i; } }
        m.swap(k, piv); x.swap(k, piv);
        for i in k + 1..n {
            let f = m[i][k] / m[k][k];
            for j in k..n { m[i][j] -= f * m[k][j]; }
            x[i] -= f * x[k];
        }
    }
    for k in (0..n).rev() {
        for j in k + 1..n { x[k] -= m[k][j] * x[j]; }
        x[k] /= m[k][k];
    }
    x
}

fn sparse_of(a: &Vec<Vec<f64>>) -> Sparse<f64> {
    let n = a.len();
    let mut t = vec![];
    for i in 0..n { for j in 0..n { if a[i][j] != 0.0 { t.push((i, j, a[i][j])); } } }
    Sparse::from_triplets(n, n, &mut t)
}

fn strictly_dominant(a: &Vec<Vec<f64>>) -> bool {
    let n = a.len();
    (0..n).all(|i| {
        let r: f64 = (0..n).filter(|&j| j != i).map(|j| a[i][j].abs()).sum();
        let c: f64 = (0..n).filter(|&j| j != i).map(|j| a[j][i].abs()).sum();
        a[i][i].abs() > r && a[i][i].abs() > c
    })
}

// success within 100 n iterations and agreement with the dense solution to 100 * tol (relative)
fn check(name: &str, res: Result<usize, f64>, x: &Vector<f64>, xe: &Vec<f64>, n: usize, tol: f64) {
    let nx = xe.iter().map(|v| v * v).sum::<f64>().sqrt();
    let ne = x.vec.iter().zip(xe).map(|(p, q)| (p - q) * (p - q)).sum::<f64>().sqrt();
    assert!(res.is_ok(), "{}: no success within {} iterations: {:?}, x = {:?}, dense solution {:?}", name, 100 * n, res, x.vec, xe);
    assert!(ne <= 100.0 * tol * nx, "{}: x = {:?} differs from the dense solution {:?}", name, x.vec, xe);
}

// diag( 1, -1 ): strictly diagonally dominant ( no off-diagonal entries at all ), condition number 1,
// diagonal of mixed sign; b = ( 1, 1 ), zero initial guess. The solution is ( 1, -1 ).
#[test]
fn mixed_sign_diagonal_2x2_is_given_up_in_the_first_step() {
    let a = vec![vec![1.0, 0.0], vec![0.0, -1.0]];
    assert!(strictly_dominant(&a));
    let b = vec![1.0, 1.0];
    let xe = dense_solve(&a, &b);
    let s = sparse_of(&a);
    let n = 2;
    let bv = Vector::create(b.clone());
    let mut x = Vector::create(vec![0.0; n]);
    let res = s.solve_bicg(&bv, &mut x, 100 * n, 1e-6, 1);
    check("solve_bicg", res, &x, &xe, n, 1e-6);
    let mut x = Vector::create(vec![0.0; n]);
    let res = s.solve_bicgstab(&bv, &mut x, 100 * n, 1e-6);
    check("solve_bicgstab", res, &x, &xe, n, 1e-6);
    let mut x = Vector::create(vec![0.0; n]);
    let res = s.solve_qmr(&bv, &mut x, 100 * n, 1e-6);
    check("solve_qmr", res, &x, &xe, n, 1e-6);
}
