#!/bin/bash
# usage: import_seeded.sh Cxx k   -- verify mutant k of /tmp/wt/Cxx in that scratch worktree and copy it to /verif/seeded/Cxx-k
set -u
P=$1; K=$2; WT=${WTROOT:-/tmp/wt}/$P; M=$WT/_mutants/$K
cd $WT || exit 2
git checkout -q -- . ; rm -f tests/demo_seeded.rs
git apply --check $M/patch.diff || { echo "$P-$K: patch does not apply"; exit 1; }
git apply $M/patch.diff
SUITE=$(cargo test --offline 2>&1 | grep "^test result" | sed -n 2p)
cp $M/demo.rs tests/demo_seeded.rs
DEMO_MUT=$(cargo test --offline --test demo_seeded 2>&1 | grep "^test result" | tail -1)
git checkout -q -- src Cargo.toml 2>/dev/null
DEMO_CLEAN=$(cargo test --offline --test demo_seeded 2>&1 | grep "^test result" | tail -1)
rm -f tests/demo_seeded.rs
echo "$P-$K | suite(with change): $SUITE | demo(with change): $DEMO_MUT | demo(clean): $DEMO_CLEAN"
OK=1
echo "$SUITE" | grep -q "236 passed; 0 failed" || OK=0
echo "$DEMO_MUT" | grep -q "FAILED" || OK=0
echo "$DEMO_CLEAN" | grep -q "ok\." || OK=0
if [ $OK = 1 ]; then
  D=/verif/seeded/$P-${SUFFIX:-}$K; mkdir -p $D
  cp $M/patch.diff $M/demo.rs $D/; cp $M/notes.txt $D/notes.txt 2>/dev/null
  echo "$SUITE" > $D/verified.txt; echo "demo with change: $DEMO_MUT" >> $D/verified.txt; echo "demo on clean tree: $DEMO_CLEAN" >> $D/verified.txt
  echo "  -> imported to $D"
else
  echo "  -> NOT imported"
fi
