# table read by gen_manifest.py
HOOK_COMMITS = ["69f8916"]
NOT_APPLICABLE = {}
NOTES = ("Every check runs the real ohsl code on every element of an explicitly described finite space "
         "(inputs over small alphabets, operation histories up to a depth, thread schedules, closure answer scripts); "
         "nothing is sampled. Exit 0 = held on all, 1 = VIOLATION, 2/3 = machinery error (no verdict).")

add("C03", "model_checking",
    "explicit-state BFS over editing histories of the real Matrix<Rat> (state = full content, dedup) + exhaustive shape lattice 0..8 against a Vec<Vec<Rat>> model",
    "All 729 product shape triples, all 81 shapes for every other operator/editor with every row/column/offset argument, all 6561 resizes, and every editing history up to depth 4 (quick) / 5-6 (thorough) from four initial matrices are executed on the real code and compared with a naive model through the derived PartialEq (raw buffer) and every getter; a second, clone-free exploration replays every history on ONE object (hidden state such as stale buffer tails survives), with read-only queries issued before each mutation. Exhaustive within those bounds; nothing beyond them.",
    "Trusted: the Vec<Vec<Rat>> model and the exact-rational type (i128, checked). One generic filling per shape is assumed to decide index arithmetic (operators are polynomial identities in the entries).",
    "DESIGN.md section 6 C03")

add("C01", "exploration",
    "exhaustive input-lattice enumeration (bounded model checking of a sequential API) against exact rational arithmetic",
    "Every n x n matrix over a small signed alphabet (n<=3 quick, n<=4 thorough) with every right-hand side over {0,+-1}, every permutation P in the P*L*U family up to n=6, the tiny-pivot lattice {0,1,-1,2,+-1e-20}, uniformly scaled twins (2^-60 .. 1e18), every 3x3 matrix over {0,+-1,2^20,2^-20} whose exact condition number is at most 2^44, Complex<f64> lattices, and every nonsingular 3x3 matrix over {0,+-1} reached through six construction/editing paths (delete_row, resize, set_col + transposes, grown from empty + row swaps) are solved by the real solve_basic and solve_lu; exact equality A*x=b over rationals, normwise backward error <= 1e-12 over floats (worst observed ~1e-16 is recorded), mutual agreement. Exhaustive within the alphabets/orders; silent about larger orders and general f64 bit patterns.",
    "Trusted: cofactor determinant deciding nonsingularity, the checked-i128 rational type, the fma-based residual. f64 lattices contain only well-conditioned systems (tiny perturbations of nonsingular integer matrices) so any backward-stable solver passes.",
    "DESIGN.md section 6 C01")
add("C02", "exploration",
    "exhaustive input-lattice enumeration including all singular members, against cofactor/Bareiss determinant over exact rationals",
    "All matrices over {0,+-1,+-2} (n<=2), {0,+-1} (n=3; n=4 and 5-letter n=3 thorough), all signed permutation matrices n<=6, transposition products with sign flips for n=7,8, triangular and rank-deficient families up to n=8: determinant() must equal the exact determinant (0 on singular input, correct sign), A*inv=inv*A=I exactly, operand equal to its pre-call clone; f64/Complex<f64> twins within 1e-12 (Hadamard-scaled) / 1e-10; every 3x3 matrix over {0,+-1,2^20,2^-20} (1.95e6, singular members included) against the exact integer determinant and adjugate of the scaled matrix in the normwise backward-stable measure.",
    "Trusted: independent cofactor (n<=5) and fraction-free Bareiss (n>5) determinants; orders 5..8 only through structured families.",
    "DESIGN.md section 6 C02")

add("C04", "model_checking",
    "exhaustive enumeration of band fillings for every (n,m1,m2) + explicit-state BFS over mutation histories of real Banded<Rat> objects, dense twin as reference model",
    "Every size/bandwidth triple up to n=4 (quick) / 5 (thorough) with every filling of the band over small signed alphabets, Toeplitz and deviation-bounded families up to n=10, each under several padding values (0, 7, NaN): index, product, det and solve are compared with the dense twin exactly over rationals; f64/Complex<f64> twins with 1e-20 letters by backward error and bit-identity across paddings; every n = 3 band over {0,+-1,2^20,2^-20} for all nine bandwidth pairs. BFS over set/fill/arithmetic histories with the complete compact storage (padding included) as state.",
    "Trusted: dense reference (cofactor determinant, exact rationals). f64 lattices restricted to well-conditioned members. n>5 through structured families only.",
    "DESIGN.md section 6 C04")
add("C05", "model_checking",
    "exhaustive enumeration of all three diagonals for n<=5 against the dense twin and exact pivot-free elimination + explicit-state BFS over mutation histories",
    "All tridiagonal matrices over 5 letters for n<=3 (n=4 over 4/5 letters, n=5 over 3 letters; deeper in thorough), Toeplitz families n=6..12 with the pivot of each step forced to zero: convert/transpose/index/det/product must equal the dense twin and solve must return the exact solution iff exact Thomas elimination meets no zero pivot, else panic with the zero-pivot message; Complex<f64> bands over {0,1,i,-1+i,-2i,3} (n <= 3, every filling): determinant, conjugate, product and solve against exact Thomas elimination over the Gaussian rationals. BFS over index writes, transposes, arithmetic and resizes for orders 1..3.",
    "Trusted: dense reference and an independent exact Thomas recurrence that decides which outcome is required. f64 stability only checked on strictly diagonally dominant families.",
    "DESIGN.md section 6 C05")

add("C06", "model_checking",
    "explicit-state BFS over insert/overwrite/scale/transpose histories of the real Sparse<Rat> (state = public CSC arrays) + exhaustive pattern x triplet-order enumeration against a BTreeMap",
    "Every sparsity pattern of every shape with r*c<=12 (quick) / r,c<=4 (thorough), built in every permutation of its triplet list (nnz<=5) or 8 fixed orders and through from_vecs, plus structured families up to 8x8: get for every (i,j), to_triplets, to_dense, col_index and the compressed-column invariants are compared with a map model. BFS explores every history up to depth 5 (quick) / 7 (thorough) from three empty shapes, deduplicating on the full public state, cross-checked against stateright's BFS. Sparse<f64> and Sparse<Complex<f64>> on exactly representable data of mixed magnitude (every pattern of five small shapes): views, transpose, scale by eight real/imaginary/general factors, overwrite, insert against exact Gaussian-rational arithmetic.",
    "Trusted: BTreeMap reference. Duplicate triplets are outside the claim.",
    "DESIGN.md section 6 C06")
add("C07", "model_checking",
    "exhaustive pattern enumeration with every unit vector + explicit-state BFS over construction histories, dense product over exact rationals as oracle",
    "Every sparsity pattern for shapes with r*c<=12 (quick) / <=20 (thorough) in two triplet orders and pattern families up to 10x10: multiply, transpose_multiply, transpose().multiply, the adjoint identity and scale against the dense definition for every unit vector and four generic vectors, exactly; the same oracles in every state of the insert/scale/transpose BFS (storage orders from_triplets alone never produces). f64 and Complex<f64> products on exactly representable data for every pattern of five small shapes.",
    "Trusted: dense reference product over checked i128 rationals.",
    "DESIGN.md section 6 C07")

add("C08", "exploration",
    "exhaustive enumeration of small hostile systems x every iteration budget 0..8 x every solver entry point, true residual from an independent dense copy",
    "Every 2x2 system over 6 letters, every 3x3 system over {0,1,-1} and deviation-bounded neighbourhoods of SPD / nonsymmetric / indefinite / singular bases (thorough: every 3x3 over 4 letters, 2.5e8 solver runs), with general, zero and badly scaled right-hand sides, two guesses, three tolerances, every budget 0..8 and all five solver entry points; mixed-scale lattices (every 2x2 matrix over {0,+-1,2,+-1e-6,+-1e6,1/2,-3}; every 3x3 matrix over {0,+-1,1e-6,1e6} in the thorough tier, the <=2-entry neighbourhoods of three near-breakdown members in the quick tier); benign families to order 60, also row/column-scaled by powers of ten up to 1e+-3 with budgets up to 40n. Whenever a solver answers Ok the true residual (double-double accumulation) must be within tol plus the measured drift allowance, k <= budget, x finite; budget 0 leaves x bit-identical. Err answers are never judged.",
    "Trusted: dense residual computation; drift allowance uses the largest iterate obtained by re-running with budgets 1..k (solvers deterministic). Silent about systems outside the lattices and about drift inside one update.",
    "DESIGN.md section 6 C08")
add("C09", "exploration",
    "exhaustive enumeration over families x orders x triplet orders x right-hand sides x guesses x tolerances x solvers, independent dense LU as reference",
    "Six well-posed families (SPD and strictly diagonally dominant, symmetric and nonsymmetric, mixed-sign diagonals) of order 1..60 through seven construction paths (three triplet orders, insert by insert, double transpose, overwrite + scale, explicitly stored zeros) with right-hand sides A x*, 0, 1e6 A x*, 2^332 A x* and 2^-332 A x*, guesses 0 / exact / generic (at the problem's scale) and three tolerances: each applicable solver must answer Ok within 6n+30 iterations and agree with an independent dense LU solution within 10 tol ||A^-1|| ||b||; exact guesses and zero/zero starts must be accepted with x finite. Plus every strictly dominant SPD 2x2/3x3 matrix over a 5-letter alphabet for all five solvers.",
    "Trusted: independent dense LU and condition estimate. Known finding (listed by exact input in known_findings.txt, printed as KNOWN-FINDING): exact Lanczos breakdowns of BiCG/BiCGSTAB/QMR on some strictly dominant systems; the Lanczos-type solvers are therefore judged for convergence on the irreducible families only. Second known finding (six listed inputs): right-hand sides beyond about 1e+-155 overflow / underflow r.r in CG, BiCG and BiCGSTAB.",
    "DESIGN.md section 6 C09")

add("C10", "model_checking",
    "explicit-state BFS over query/edit/query histories of one polynomial object (differential oracle against a fresh twin) + exhaustive enumeration of root multisets and coefficient vectors, backward error in the property's own measure",
    "Every multiset of up to 7 (quick) / 11 (thorough) roots from a 12-letter alphabet (zero, unit, conjugate, repeated, 1e3 and 1e-3 roots) with four leading coefficients, every integer and Gaussian-integer coefficient vector of degree <= 6/9 with non-zero lead, conjugate-closed multisets through the f64 entry point, degree 8..12 products with x^k-1, nearly binomial polynomials lead x^n + a x^k + c (n = 4..12, |c| up to 1e6), and EVERY coefficient vector over the wide-scale complex letters (1, i, +-1e3, +-1e3 i, +-1e-3, +-1e-3 i) of degree 2..5 (quick, 2.2e6 polynomials) / 2..6 (thorough, 7.7e7 in total), each with and without refinement: exactly n finite values, each with |p(z)|/(max|a_k| max(1,|z|)^n) below a per-path threshold (1e-9 refined and unrefined, quadratic 1e-12, Cardano 1e-7), one-to-one matching for simple separated roots, degree 0 rejected. BFS: roots() queried, coefficients edited through IndexMut / coeffs() / trim, roots() queried again - bit-identical to a freshly built polynomial.",
    "Trusted: independent complex Horner evaluation. Thresholds are >= 100x the worst value observed on the repaired tree (recorded in the evidence); polynomials outside the alphabets / degree > 12 are not covered.",
    "DESIGN.md section 6 C10")
add("C11", "model_checking",
    "exhaustive pair enumeration over three element types + explicit-state BFS over ring-operation histories against a coefficient-list model",
    "All ordered pairs of coefficient vectors of length 0..3 (quick) / 0..4 (thorough) over {-1,0,1,2} for rationals, f64 and Complex<f64>, plus a structured family up to length 9: every operator (owned and borrowed), evaluation homomorphism at six points, derivative_n for every order 0..deg+1, linearity and product rule, is_zero and trim (element equality decided by the harness, not by the element type's PartialEq); evaluation of every integer polynomial of length <= 5 (7) at +-2^600 and +-2^-600 against the correctly rounded exact value; BFS over histories of add/sub/mul/neg/scale/derivative/trim/coefficient writes on a real Polynomial<Rat>.",
    "Trusted: termwise/convolution list model. Comparison is modulo trailing zeros as the property states; stored length may not exceed the natural one.",
    "DESIGN.md section 6 C11")
add("C12", "exploration",
    "exhaustive enumeration of dividend/divisor pairs over exact and floating alphabets with a per-call hang watchdog",
    "Every dividend of length 0..4 and divisor of length 0..3 over {0,+-1,+-2} exactly; 2.7e6 (quick) / 1.75e8 (thorough) f64 pairs over {1,-3,0.1,49,1e-6,-7.3e5,0,1/3} whose leading terms mostly do not cancel exactly, f64 dividends of degree 5..10 with divisors of degree 0..6 built from letter cycles; integer-valued f64 and Complex<f64> lattices: Ok iff the divisor is non-zero (leading coefficient non-zero), u = q*v + r exactly / to 1e-13 (double-double residual), deg r < deg v or r = 0, Err on empty/zero divisors, no panic, no spin (20 s watchdog per call).",
    "Trusted: independent convolution; divisors with zero stored leading coefficient are outside the claim.",
    "DESIGN.md section 6 C12")

add("C13", "model_checking",
    "exhaustive pair/triple enumeration over exact and f64 components + explicit-state BFS over compound-assignment histories, independent Gaussian-rational formulae and double-double as oracles",
    "All 1296 pairs of Complex<Rat> over a 6-letter component alphabet (every operator, mixed real form and compound assignment exactly equal to the field formulae; identities; lexicographic order with trichotomy), all 10^4 Complex<f64> pairs with components from 1e-100 to 1e100 (normwise error <= 8 eps against double-double; compound and mixed forms bit-identical to binary forms), all 15625 triples for transitivity, and a BFS over sequences of in-place operations on one Complex<Rat>.",
    "Trusted: independent CQ field formulae, double-double arithmetic (fma). NaN and overflow ranges are outside the claim.",
    "DESIGN.md section 6 C13")
add("C14", "exploration",
    "exhaustive evaluation of all 38 functions on a branch-cut-aware lattice of the complex plane against an independent series implementation",
    "Rectangular, polar and cut-adjacent grids (1.6e3 points quick, 2.6e5 thorough) covering every quadrant, both axes, both sides (+-1e-9, +-1e-13, +-0) of every cut and 1e-6 neighbourhoods of the branch points: forward functions against exp by scaling-and-squaring Taylor series (1e-9), every inverse pinned by forward_oracle(inverse(z)) = z (1e-8) plus its principal range, reciprocals, Pythagorean identities, z^w = exp(w ln z) for 7 exponents, polar round trip, reduction to f64 on the real axis.",
    "Trusted: own complex arithmetic and Taylor exp. The continuum between lattice points is not covered; which side of a cut is continuous is not prescribed.",
    "DESIGN.md section 6 C14")

add("C15", "model_checking",
    "exhaustive enumeration of short vectors / pairs / ranges + explicit-state BFS over editing histories to closure, Vec model as oracle",
    "All vectors of length 0..4 over {0,1,-1,2,1/2}: every same-length pair (4e5) for +, -, dot and the assignment forms, every (start,end) range for partial sums/products, scalar forms, abs, norm_1, find, sort, constructors, conj/real; lengths up to 64 through a family; all integer-valued f64 vectors of length 0..6 for the 1-, 2-, p-, inf-norms with inequalities, homogeneity, triangle inequality; linspace/powspace for every n in 2..64, also with coinciding limits and limits 1..80 ulp apart (monotone, inside [a,b]); Vector<Complex<f64>> over nine Gaussian integers on both axes and in all quadrants (every ordered pair of length <= 2, lengths to 64): operators, scalar forms with real/imaginary/general scalars, dot, abs, 1- and inf-norms with homogeneity under units, conj/real, against exact Gaussian-rational arithmetic. BFS over push/push_front/insert/pop/swap/resize/assign/clear/sort/index writes on a real Vector<Rat> (length <= 5) runs to closure: all 1365 reachable states, every reduction re-checked in each.",
    "Trusted: Vec model; norms judged on integer-valued data so reference values are exact. random() only by length and range.",
    "DESIGN.md section 6 C15")
add("C16", "model_checking",
    "stateless exploration of ALL thread interleavings of the real dot_f64 under shuttle's DFS scheduler + exhaustive (length, worker-count) sweep with real threads and real CPU affinity",
    "Guard on: for workers 1..4 (quick) / 1..6 (thorough) and lengths {0,1,W-1,W,W+1,2W+1,4W+3} on integer and cancellation-prone data, shuttle enumerates every schedule (1/5/44/550/... per configuration); the set of results over all schedules must be a singleton, exact on integer data, and the enumeration is repeated to prove the explorer owns every choice. Guard off: every worker count 1..16 obtained through CPU affinity (num_cpus::get() asserted) x every length 0..200: bit-identical to dot and to an exact i128 product on integer data, within the reassociation bound and bit-identical across repeated calls otherwise; one infinite / NaN / 1e308 entry among small integers gives the sequential result; shorter calls right after long ones see no stale state.",
    "Trusted: shuttle 0.9.3 as scheduler (scoped threads, join, Mutex/atomics if a rewrite introduces them are interception points). Unsynchronised unsafe sharing would be invisible to a cooperative scheduler. Worker counts above the CPUs available cannot be swept.",
    "DESIGN.md section 6 C16")

add("C17", "model_checking",
    "stateless depth-first exploration of all answer scripts of the user closure (deviation-bounded) + explicit-state BFS over configuration / solve histories of one Newton object + exhaustive family x guess x tolerance x iteration-limit lattices with an exact Newton reference",
    "Termination half: for all six solve / solve_jacobian entry points, max_iter 0..3 (thorough 0..5) and seven base functions (root-free, non-differentiable, ordinary, started at 1.5 and at 0; a linear one started at its root) every script that replaces the closure's answer (for systems: either residual component) at any call position by 0, NaN, +inf, 1e300 or the negated value is executed, up to 1 (quick) / 2..4 (thorough) deviations, each twice: the call returns, evaluations <= 3 (scalar) / n+2 per iteration, root-free => Err, a system never reports success unless some residual was small, the user-Jacobian system entries agree call for call with a reference model of the stopping rule (first residual with every component modulus <= tol, a NaN component never counts), identical observations; BFS over every configuration (tolerance, delta, iteration limit, guess setters) and solve history of depth 4 (6): each solve bit-identical to that of a freshly configured object. Convergence half: 11 real scalar, 5 complex scalar families and real/complex systems of dimension 1..6 with guesses across a conservative basin, 5 tolerances, 7 iteration limits: Ok => near the analytic root, enough iterations => Ok, Err carries the max_iter-th Newton iterate, max_iter 0 => Err(guess) bit for bit, parameters() unchanged.",
    "Trusted: analytic roots/derivatives of the families, the harness' own Newton reference and dense LU. Closures outside the families and scripts with more deviations are not covered.",
    "DESIGN.md section 6 C17")
add("C18", "exploration",
    "exhaustive enumeration of shapes, dyadic affine maps, points and steps with a call log of the user closure",
    "Every shape (m,n) in 1..6 x 1..6, two dyadic matrices and each of their single-entry deviations, every point of a 5-letter lattice (all for n<=3), every step 2^-4..2^-26 and 1e-8, real and complex entry points: the Jacobian has exactly m rows and n columns, equals M bit for bit for dyadic steps, and the logged evaluation points are x, x + delta e_0, x + delta e_1, ... with every other coordinate restored; smooth maps within 10 delta max|F''|.",
    "Trusted: exactness argument for dyadic data (all products/sums fit 53 bits).",
    "DESIGN.md section 6 C18")
add("C19", "model_checking",
    "exhaustive enumeration of spacing words / node counts + explicit-state BFS over write histories (object rebuilt by replay), map model",
    "1-D meshes with every spacing word over {1/4,1/2,1,2} for 2..7 (thorough 2..9) nodes, deviation-bounded words up to 12 nodes and a non-dyadic family: every access path bit for bit (stored -0.0 included), interpolation at every node and at interior points of every cell, trapezium = cell sum and exact on linear data, output->read round trip; 2-D meshes over all node-count pairs 2..8 (thorough 2..12): both cross-section orientations, var_as_matrix, apply, assign, trapezium/square_trapezium, exact on bilinear data. BFS over set/index-write/assign/apply histories on 2x3 and 3x2 meshes.",
    "Trusted: integer-valued / dyadic nodal data make f64 results exact on power-of-two grids. Interpolation is never probed within 1e-6 of a node except at it.",
    "DESIGN.md section 6 C19")

add("C20", "model_checking",
    "exhaustive entry-point x size-pair table under panic capture with operand snapshots + explicit-state BFS over interleaved mutations of a value and its clone",
    "92 entry points (every binary operator in owned and borrowed form, solver entry and checked accessor of Vector, Matrix, Banded, Tridiagonal, Sparse, Mesh1D/2D, Polynomial) x all size/shape pairs up to 6 (matrices to 3x3 quick / 6x6 thorough) and every index argument up to size+2 (about 12 400 calls quick): panic iff mismatched / out of range, operands equal their snapshots after a refusal and after every by-reference call, owned == borrowed results; the owned and borrowed forms of every operator of Matrix, Vector, Banded, Tridiagonal and Polynomial compared bit for bit on all 4-tuples of f64 / Complex<f64> letters with signed zeros and infinities. BFS over mutations applied to a value or its clone and re-cloning, for five container types, with independent models.",
    "Trusted: Debug/field snapshots as the observation of operand state. Raw (i,j) index operators of Matrix, Banded and Mesh2D are excluded, as the property states.",
    "DESIGN.md section 6 C20")
