# table read by gen_manifest.py
HOOK_COMMITS = []
NOT_APPLICABLE = {}
NOTES = ("Every check runs the real ohsl code on every element of an explicitly described finite space "
         "(inputs over small alphabets, operation histories up to a depth, thread schedules, closure answer scripts); "
         "nothing is sampled. Exit 0 = held on all, 1 = VIOLATION, 2/3 = machinery error (no verdict).")

add("C03", "model_checking",
    "explicit-state BFS over editing histories of the real Matrix<Rat> (state = full content, dedup) + exhaustive shape lattice 0..8 against a Vec<Vec<Rat>> model",
    "All 729 product shape triples, all 81 shapes for every other operator/editor with every row/column/offset argument, all 6561 resizes, and every editing history up to depth 4 (quick) / 5-6 (thorough) from four initial matrices are executed on the real code and compared with a naive model through the derived PartialEq (raw buffer) and every getter. Exhaustive within those bounds; nothing beyond them.",
    "Trusted: the Vec<Vec<Rat>> model and the exact-rational type (i128, checked). One generic filling per shape is assumed to decide index arithmetic (operators are polynomial identities in the entries).",
    "DESIGN.md section 6 C03")
