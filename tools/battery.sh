#!/bin/bash
# Runs one tier of all twenty checks on /repo as it stands and writes <tier>_last.log (used by tools/cost_table.py).
# usage: tools/battery.sh quick|thorough
cd "$(dirname "$0")/.." || exit 2
tier=${1:-quick}
out=${tier}_last.log
: > "$out"
rc=0
for p in C01 C02 C03 C04 C05 C06 C07 C08 C09 C10 C11 C12 C13 C14 C15 C16 C17 C18 C19 C20; do
  /usr/bin/time -f "$p wall=%es rss=%MKB" ./check $p $tier 2>&1 | grep -E "^\[$p\] $tier|^$p wall|VIOLATION|KNOWN-FINDING|machinery" | grep -v "^KNOWN-FINDING" >> "$out"
  grep -q "^\[$p\] $tier ok" "$out" || { echo "$p NOT OK" >> "$out"; rc=1; }
done
cat "$out"
exit $rc
