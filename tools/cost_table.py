#!/usr/bin/env python3
"""Prints the cost table of DESIGN.md section 6 from quick_last.log and thorough_last.log (written by tools/battery.sh)."""
import re, os, sys
root = os.path.join(os.path.dirname(os.path.abspath(__file__)), "..")
sys.path.insert(0, os.path.dirname(os.path.abspath(__file__)))
ENG = {"C01": "E1", "C02": "E1", "C03": "E1 + E2", "C04": "E1 + E2", "C05": "E1 + E2", "C06": "E1 + E2", "C07": "E1 + E2", "C08": "E1", "C09": "E1",
       "C10": "E1 + E2", "C11": "E1 + E2", "C12": "E1", "C13": "E1 + E2", "C14": "E1", "C15": "E1 + E2", "C16": "E1 sweep + E3", "C17": "E1 + E2 + E4",
       "C18": "E1", "C19": "E1 + E2", "C20": "E1 + E2"}
def sp(n):
    return "-" if n == "-" else f"{int(n):,}".replace(",", " ")
def parse(tier):
    d = {}
    for l in open(os.path.join(root, f"{tier}_last.log")):
        m = re.match(r"\[(C\d\d)\] \w+ ok: (\d+) evaluations, (\d+) non-trivial, (\S+) states, (\S+) transitions, ([\d.]+)s", l)
        if m:
            d[m.group(1)] = m.groups()[1:]
    return d
q, t = parse("quick"), parse("thorough")
print("| id | engines | quick: evaluations / non-trivial | quick: states / transitions | quick s | thorough: evaluations | thorough: states / transitions | thorough s | claimed level |")
print("|---|---|---|---|---|---|---|---|---|")
tot = 0.0
for p in sorted(ENG):
    a, b = q[p], t[p]
    lvl = "model_checking" if "E2" in ENG[p] or "E3" in ENG[p] else "exploration"
    st = lambda x: "-" if x[2] == "-" else f"{sp(x[2])} / {sp(x[3])}"
    print(f"| {p} | {ENG[p]} | {sp(a[0])} / {sp(a[1])} | {st(a)} | {float(a[4]):.0f} | {sp(b[0])} | {st(b)} | {float(b[4]):.0f} | {lvl} |")
    tot += float(b[4])
print(f"\nthorough total {tot/60:.0f} min")
