#!/usr/bin/env python3
"""audit_entry_points.py: every `pub fn` of the source files C20 names is either probed by harness/src/bin/c20.rs (its name occurs in an
entry of the table) or listed below with the reason why it has no size / index / range argument to get wrong. Prints what is neither;
exit 0 when the list is complete, 2 otherwise (a coverage audit of the checker, not a verdict on the crate)."""
import re, sys, glob
FILES = glob.glob('/repo/src/vector/*.rs') + glob.glob('/repo/src/matrix/*.rs') + glob.glob('/repo/src/polynomial/*.rs') + \
        ['/repo/src/banded.rs', '/repo/src/tridiagonal.rs', '/repo/src/sparse.rs', '/repo/src/mesh1d.rs', '/repo/src/mesh2d.rs']
NO_RANGE_ARGUMENT = {
    # constructors / getters / whole-object operations without an index or a second operand
    'conj', 'convert', 'cubic', 'quadratic', 'degree', 'empty', 'eye', 'fill_diag', 'fill_tridiag', 'numel', 'nvars', 'ones', 'zeros', 'random',
    'real', 'scale', 'size_above', 'sort', 'sort_by', 'sum', 'product', 'to_dense', 'to_triplets', 'with_elements', 'xnodes', 'ynodes', 'push_front',
    'norm_1', 'norm_2', 'norm_frob', 'norm_inf', 'norm_max', 'norm_p', 'linspace', 'powspace', 'roots',
    # any order is meaningful (a derivative beyond the degree is the zero polynomial)
    'derivative', 'derivative_at', 'derivative_n',
    # documented fallbacks, not range-checked accessors: find returns the last index for a missing value, the interpolation argument is a position
    'find', 'get_interpolated_vars',
    # the callback's output length defines the shape; there is no second size to disagree with
    'jacobian', 'jacobian_cmplx',
}
table = open('/verif/harness/src/bin/c20.rs').read()
missing = []
for f in sorted(FILES):
    for name in re.findall(r'pub fn ([a-z_0-9]+)', open(f).read()):
        if name in NO_RANGE_ARGUMENT:
            continue
        if not re.search(r'[:.]' + name + r'\b', table):
            missing.append((f.replace('/repo/', ''), name))
for f, n in missing:
    print(f"NOT COVERED: {f}::{n}")
print(f"{'complete' if not missing else 'INCOMPLETE'}: {len(missing)} uncovered pub fn")
sys.exit(2 if missing else 0)
