#!/bin/bash
# usage: rebase_seeded.sh <id>...  -- re-base seeded patches that no longer apply onto /repo HEAD by 3-way merge in a scratch
# worktree; re-verifies (suite 236/0, demo fails) and rewrites patch.diff. Conflicts are left for manual work.
WT=/tmp/wtr
git -C /repo worktree remove --force $WT 2>/dev/null; git -C /repo worktree prune
git -C /repo worktree add -q $WT HEAD || exit 2
cd $WT
for id in "$@"; do
  D=/verif/seeded/$id
  git reset -q --hard HEAD; git clean -qfd -e target
  if git apply --3way $D/patch.diff >/dev/null 2>&1 && ! git diff --name-only --diff-filter=U | grep -q .; then
    git diff HEAD > /tmp/rebased_$id.diff
    SUITE=$(CARGO_NET_OFFLINE=true cargo test --offline 2>&1 | grep "^test result" | sed -n 2p)
    DEMO="(no demo)"
    if [ -f $D/demo.rs ]; then cp $D/demo.rs tests/demo_seeded.rs; DEMO=$(CARGO_NET_OFFLINE=true cargo test --offline --test demo_seeded 2>&1 | grep "^test result" | tail -1); rm -f tests/demo_seeded.rs; fi
    OKS=0; echo "$SUITE" | grep -q "236 passed; 0 failed" && OKS=1
    OKD=1; [ -f $D/demo.rs ] && { echo "$DEMO" | grep -q FAILED || OKD=0; }
    if [ $OKS = 1 ] && [ $OKD = 1 ]; then
      cp /tmp/rebased_$id.diff $D/patch.diff
      echo "patch.diff re-based by 3-way merge onto /repo $(git -C /repo rev-parse --short HEAD) (re-verified: suite 236/0, demo fails)" >> $D/notes.txt
      echo "$id: rebased ok | $DEMO"
    else
      echo "$id: merged but verification failed | suite: $SUITE | demo: $DEMO"
    fi
  else
    echo "$id: CONFLICT (manual)"
  fi
done
cd /; git -C /repo worktree remove --force $WT; git -C /repo worktree prune
