#!/usr/bin/env python3
"""Regenerate /verif/MANIFEST.json from the table below (kept in one place so it stays valid)."""
import json, os
ROOT = os.path.dirname(os.path.dirname(os.path.abspath(__file__)))

BASELINE_OFF = ("cd /repo && cargo nextest run --workspace --no-fail-fast --offline --test-threads 8 "
                "|| cargo test --workspace --no-fail-fast --offline")

# id -> (category, technique, text, note, design_ref)
CHECKS = {}
def add(pid, cat, tech, text, note, ref):
    CHECKS[pid] = (cat, tech, text, note, ref)

exec(open(os.path.join(ROOT, "tools", "manifest_table.py")).read())

PENDING = {}
props = [json.loads(l) for l in open(os.path.join(ROOT, "properties.jsonl"))]
checks, na = [], []
for p in props:
    pid = p["id"]
    if pid in CHECKS:
        cat, tech, text, note, ref = CHECKS[pid]
        checks.append({
            "property_id": pid,
            "quick_cmd": "./check %s quick" % pid,
            "thorough_cmd": "./check %s thorough" % pid,
            "evidence_file": "/verif/evidence/%s.json" % pid,
            "replay_cmd_template": "./check %s --replay {path}" % pid,
            "engine": "ohsl-mc" + ("+sched" if pid == "C16" else ""),
            "level_claimed": {"category": cat, "text": text, "design_ref": ref},
            "level_note": note,
            "technique": tech,
        })
    else:
        na.append({"property_id": pid, "reason": NOT_APPLICABLE.get(pid, "check not built yet in this session (work in progress; see DESIGN.md section 6 for the planned design)")})
m = {
    "version": 1,
    "setup_cmd": "./check --setup",
    "hooks": {
        "guard": "--cfg ohsl_verif",
        "enable": "RUSTFLAGS='--cfg ohsl_verif' via /verif/harness_sched (its [lib] path is /repo/src/lib.rs, shuttle supplied as an extra dependency); all other checks build /repo unhooked as a path dependency",
        "baseline_off_cmd": BASELINE_OFF,
        "source_commits": HOOK_COMMITS,
        "add_only": True,
    },
    "engines": [
        {"name": "ohsl-mc", "path": "/verif/harness", "serves_properties": sorted(CHECKS.keys()),
         "kind_free_text": "Rust crate driving the real ohsl API: E1 exhaustive input-lattice enumerator (rayon), E2 deterministic level-synchronous explicit-state BFS over operation histories (cross-checked against stateright 0.31), E4 answer-script DFS; exact-rational element type as oracle"},
        {"name": "sched", "path": "/verif/harness_sched", "serves_properties": ["C16"],
         "kind_free_text": "shuttle 0.9.3 check_dfs over all interleavings of the real dot_f64 (std::thread::scope and num_cpus shadowed under --cfg ohsl_verif)"},
    ],
    "checks": checks,
    "not_applicable": na,
    "notes": NOTES,
}
json.dump(m, open(os.path.join(ROOT, "MANIFEST.json"), "w"), indent=1)
print("MANIFEST.json: %d checks, %d not_applicable" % (len(checks), len(na)))
