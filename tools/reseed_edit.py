#!/usr/bin/env python3
"""reseed_edit.py <id> <edits.json>: re-create a seeded change whose patch no longer applies. edits.json is a list of
[file, old, new] literal replacements (each old must occur exactly once) made in a scratch worktree (/tmp/wtr) of /repo HEAD;
the repo suite must pass (236/0) and, if the entry has a demo.rs, the demo must fail; then patch.diff is rewritten."""
import sys, json, subprocess, os
wt = '/tmp/wtr'
id, edits = sys.argv[1], json.load(open(sys.argv[2]))
D = '/verif/seeded/' + id
def sh(*a): return subprocess.run(a, cwd=wt, capture_output=True, text=True)
if not os.path.isdir(wt):
    subprocess.run(['git', '-C', '/repo', 'worktree', 'add', '-q', wt, 'HEAD'], check=True)
sh('git', 'reset', '-q', '--hard', 'HEAD'); sh('git', 'clean', '-qfd', '-e', 'target')
for f, old, new in edits:
    p = os.path.join(wt, f); s = open(p).read()
    assert s.count(old) == 1, (id, f, s.count(old), old[:60])
    open(p, 'w').write(s.replace(old, new, 1))
diff = sh('git', 'diff', 'HEAD').stdout
out = sh('cargo', 'test', '--offline')
suite = [l for l in out.stdout.split('\n') if l.startswith('test result')]
ok = any('236 passed; 0 failed' in l for l in suite)
okd, demo = True, '(no demo)'
if os.path.exists(D + '/demo.rs'):
    subprocess.run(['cp', D + '/demo.rs', wt + '/tests/demo_seeded.rs'])
    o = sh('cargo', 'test', '--offline', '--test', 'demo_seeded').stdout
    demo = [l for l in o.split('\n') if l.startswith('test result')][-1:]
    okd = any('FAILED' in l for l in demo)
    os.remove(wt + '/tests/demo_seeded.rs')
print(id, 'suite ok' if ok else 'SUITE FAIL ' + (out.stdout + out.stderr)[-600:], 'demo fails' if okd else 'DEMO PASSES', demo)
if ok and okd:
    open(D + '/patch.diff', 'w').write(diff)
    head = subprocess.run(['git', '-C', '/repo', 'rev-parse', '--short', 'HEAD'], capture_output=True, text=True).stdout.strip()
    open(D + '/notes.txt', 'a').write('patch.diff re-created by hand on /repo %s (same change, placed in the code as rewritten by the later fixes; re-verified: suite 236/0, demo fails)\n' % head)
