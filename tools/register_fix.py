#!/usr/bin/env python3
"""register_fix.py <property> <what failed (one line)> [<needs>] (env FIX_COMMIT=<hash> for a commit other than HEAD): records a /repo commit as a fix: 'fixed:' line in known_findings.txt and a seeded/revert-<hash> entry"""
import sys, subprocess, json, os
prop, text = sys.argv[1], sys.argv[2]
needs = sys.argv[3] if len(sys.argv) > 3 else "see DESIGN.md section 7"
h = subprocess.run(['git','-C','/repo','rev-parse','--short',os.environ.get('FIX_COMMIT','HEAD')],capture_output=True,text=True).stdout.strip()
subj = subprocess.run(['git','-C','/repo','log','-1','--format=%s',h],capture_output=True,text=True).stdout.strip()
assert subj.startswith('fix:'), subj
p='/verif/known_findings.txt'; s=open(p).read()
line=f"fixed: property={prop} {h} {text}\n"
idx=s.rfind("fixed:"); end=s.index("\n",idx)+1
s=s[:end]+line+s[end:]
open(p,'w').write(s)
d=f'/verif/seeded/revert-{h}'; os.makedirs(d,exist_ok=True)
diff=subprocess.run(['git','-C','/repo','diff',h,h+'~1'],capture_output=True,text=True).stdout
if subprocess.run(['git','-C','/repo','apply','--check','-'],input=diff,text=True,capture_output=True).returncode!=0:
    # later commits touch the same lines: let git revert do the three-way merge in a scratch worktree
    wt='/tmp/wt_revert_'+h
    subprocess.run(['git','-C','/repo','worktree','add','-q',wt,'HEAD'],check=True)
    r=subprocess.run(['git','-C',wt,'revert','--no-commit',h],capture_output=True,text=True)
    diff=subprocess.run(['git','-C',wt,'diff','HEAD'],capture_output=True,text=True).stdout
    subprocess.run(['git','-C','/repo','worktree','remove','--force',wt],check=True)
    assert r.returncode==0 and diff, ('revert needs a manual merge', r.stderr)
open(d+'/patch.diff','w').write(diff)
json.dump({"id":f"revert-{h}","property":prop,"origin":f"revert of the fix commit {h} ({subj[5:].strip()})","what":"re-introduces: "+text,"needs":needs,"ran":["the existing suite passes with and without the fix (236/0)"]},open(d+'/meta.json','w'),indent=1)
print("registered",h)
