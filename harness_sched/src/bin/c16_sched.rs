//! C16 (schedule half): every interleaving of the real `Vector<f64>::dot_f64` under shuttle's
//! controlled scheduler. Built with `--cfg ohsl_verif`, so `std::thread::scope`, `std::sync::*`
//! and `num_cpus::get()` inside /repo/src/vector/vec_f64.rs resolve to shuttle / the harness.
//!
//! For every configuration (workers W, length n, data set) `DfsScheduler` enumerates ALL schedules;
//! the set of results over all schedules must be a singleton (scheduling independence), equal to the
//! exact value on integer data (bit-identical to the sequential `dot`) and within the reassociation
//! bound on cancellation-prone data. The whole enumeration is run twice and the per-schedule result
//! sequences compared (the explorer owns every choice).
use ohsl::Vector;
use serde_json::{json, Value};
use shuttle::scheduler::DfsScheduler;
use shuttle::{Config, FailurePersistence, Runner};
use std::collections::BTreeSet;
use std::panic::{catch_unwind, AssertUnwindSafe};
use std::sync::atomic::{AtomicBool, Ordering};
use std::sync::{Arc, Mutex};
use std::time::Instant;

fn data(kind: usize, n: usize) -> (Vec<f64>, Vec<f64>) {
    match kind {
        // integer valued: every partial sum is exact
        0 => ((0..n).map(|i| (i % 7) as f64 - 3.0).collect(), (0..n).map(|i| (i % 5) as f64 + 1.0).collect()),
        // two non-finite contributions of different kinds (and a third, NaN-free variant: products overflowing with both signs): NaN
        // under every schedule and every association; a worker that is told to stop early by another makes it schedule dependent
        2 => {
            let mut a: Vec<f64> = (0..n).map(|i| (i % 7) as f64 - 3.0).collect();
            let b: Vec<f64> = (0..n).map(|i| (i % 5) as f64 + 1.0).collect();
            if n >= 2 {
                a[0] = f64::INFINITY;
                a[n - 1] = f64::NEG_INFINITY;
            }
            if n >= 3 {
                a[n / 2] = f64::NAN;
            }
            (a, b)
        }
        // cancellation prone: the value depends on the association order, so a completion-order reduction shows
        _ => ((0..n).map(|i| match i % 4 { 0 => 1e16, 1 => 1.0, 2 => -1e16, _ => 3.0 }).collect(), vec![1.0; n]),
    }
}

/// bits of a result, every NaN mapped to one representative (sign and payload of a NaN are not part of the property)
fn canon(r: f64) -> u64 {
    if r.is_nan() {
        f64::NAN.to_bits()
    } else {
        r.to_bits()
    }
}
/// schedules explored per configuration before the enumeration is cut (reported as a cap, never as exhaustive): the unchanged
/// tree needs 1.5e6 for its largest configuration; code that adds a synchronisation point per element needs astronomically many
static DFS_CAP: std::sync::atomic::AtomicUsize = std::sync::atomic::AtomicUsize::new(200_000);

const SCHED_DIR: &str = "/verif/target_sched/run/schedules";
/// shuttle installs its panic hook once per process with the first config it sees: every runner uses the same one
fn cfg(_dir: Option<std::path::PathBuf>) -> Config {
    let _ = std::fs::create_dir_all(SCHED_DIR);
    let mut c = Config::new();
    c.failure_persistence = FailurePersistence::File(Some(std::path::PathBuf::from(SCHED_DIR)));
    c.silence_warnings = true;
    c
}

/// run all schedules; returns the result (bits) of every schedule in exploration order, or a panic message
fn explore(w: usize, a: &[f64], b: &[f64]) -> Result<Vec<u64>, String> {
    let out: Arc<Mutex<Vec<u64>>> = Arc::new(Mutex::new(vec![]));
    let o2 = out.clone();
    let (av, bv) = (a.to_vec(), b.to_vec());
    let res = catch_unwind(AssertUnwindSafe(|| {
        Runner::new(DfsScheduler::new(Some(DFS_CAP.load(Ordering::Relaxed)), false), cfg(None)).run(move || {
            ohsl::verif_shim::set_workers(w);
            let va = Vector::create(av.clone());
            let vb = Vector::create(bv.clone());
            let r = va.dot_f64(&vb);
            o2.lock().unwrap().push(canon(r));
        })
    }));
    match res {
        Ok(_) => Ok(out.lock().unwrap().clone()),
        Err(e) => {
            let msg = e.downcast_ref::<String>().cloned().or(e.downcast_ref::<&str>().map(|s| s.to_string())).unwrap_or("<panic>".into());
            Err(msg)
        }
    }
}

/// find a schedule whose result differs from `expect` and persist it (for the replay file)
fn persist_failing(w: usize, a: &[f64], b: &[f64], expect: u64, dir: &std::path::Path) -> Option<String> {
    let _ = std::fs::create_dir_all(dir);
    for e in std::fs::read_dir(dir).ok()? {
        let _ = std::fs::remove_file(e.ok()?.path());
    }
    let (av, bv) = (a.to_vec(), b.to_vec());
    let _ = catch_unwind(AssertUnwindSafe(|| {
        Runner::new(DfsScheduler::new(Some(DFS_CAP.load(Ordering::Relaxed)), false), cfg(Some(dir.to_path_buf()))).run(move || {
            ohsl::verif_shim::set_workers(w);
            let r = Vector::create(av.clone()).dot_f64(&Vector::create(bv.clone()));
            assert!(canon(r) == expect, "schedule-dependent result");
        })
    }));
    let f = dir.join("schedule000.txt");
    std::fs::read_to_string(f).ok()
}

fn replay(w: usize, a: &[f64], b: &[f64], schedule: &str) -> Result<u64, String> {
    let out: Arc<Mutex<Vec<u64>>> = Arc::new(Mutex::new(vec![]));
    let o2 = out.clone();
    let (av, bv) = (a.to_vec(), b.to_vec());
    let sched = schedule.to_string();
    let res = catch_unwind(AssertUnwindSafe(|| {
        shuttle::replay(
            move || {
                ohsl::verif_shim::set_workers(w);
                let r = Vector::create(av.clone()).dot_f64(&Vector::create(bv.clone()));
                o2.lock().unwrap().push(canon(r));
            },
            &sched,
        )
    }));
    match res {
        Ok(_) => out.lock().unwrap().first().copied().ok_or("no result".to_string()),
        Err(_) => Err("replay diverged or panicked".to_string()),
    }
}

fn exact_value(a: &[f64], b: &[f64]) -> Option<f64> {
    // integer data only
    let mut s: i128 = 0;
    for i in 0..a.len() {
        if a[i].fract() != 0.0 || b[i].fract() != 0.0 || a[i].abs() > 1e6 || b[i].abs() > 1e6 {
            return None;
        }
        s += (a[i] as i128) * (b[i] as i128);
    }
    Some(s as f64)
}

fn main() {
    std::panic::set_hook(Box::new(|_| {}));
    let args: Vec<String> = std::env::args().collect();
    let mut tier = "quick".to_string();
    let mut out = None;
    let mut replay_file = None;
    let mut i = 1;
    while i < args.len() {
        match args[i].as_str() {
            "quick" | "thorough" => tier = args[i].clone(),
            "--out" => {
                i += 1;
                out = Some(args[i].clone());
            }
            "--replay" => {
                i += 1;
                replay_file = Some(args[i].clone());
            }
            _ => {}
        }
        i += 1;
    }
    let t0 = Instant::now();
    let mut viols: Vec<Value> = vec![];
    let mut machinery: Vec<String> = vec![];
    let mut spaces: Vec<Value> = vec![];
    let mut samples: Vec<Value> = vec![];
    let mut schedules_total = 0u64;
    let mut configs = 0u64;
    let mut multi = 0u64;
    let mut nontrivial = 0u64;

    if let Some(rf) = replay_file {
        let v: Value = serde_json::from_str(&std::fs::read_to_string(&rf).expect("replay file")).expect("json");
        let e = &v["extra"];
        let w = e["workers"].as_u64().unwrap() as usize;
        let n = e["length"].as_u64().unwrap() as usize;
        let kind = e["data"].as_u64().unwrap() as usize;
        let sched = e["schedule"].as_str().unwrap_or("");
        let expect = e["expected_bits"].as_u64().unwrap();
        let (a, b) = data(kind, n);
        let r1 = replay(w, &a, &b, sched);
        let r2 = replay(w, &a, &b, sched);
        eprintln!("REPLAY workers={} length={} data={} -> {:?} / {:?} (expected bits {})", w, n, kind, r1, r2, expect);
        if r1 != r2 {
            machinery.push("replaying the same schedule twice gave different observations".into());
        }
        let mut total = 0;
        if let Ok(bits) = r1 {
            if bits != expect {
                total = 1;
                viols.push(json!({"space": v["space"], "idx": 0, "key": v["key"], "detail": format!("replayed schedule gives {} instead of {}", f64::from_bits(bits), f64::from_bits(expect)), "extra": e}));
            }
        } else {
            // the recorded schedule no longer applies to the current code: fall back to the full exploration of this configuration
            match explore(w, &a, &b) {
                Ok(rs) => {
                    let set: BTreeSet<u64> = rs.iter().copied().collect();
                    if set.len() != 1 || !set.contains(&expect) {
                        total = 1;
                        viols.push(json!({"space": v["space"], "idx": 0, "key": v["key"], "detail": format!("outcomes over all schedules: {:?}", set.iter().map(|b| f64::from_bits(*b)).collect::<Vec<_>>()), "extra": e}));
                    }
                }
                Err(m) => {
                    total = 1;
                    viols.push(json!({"space": v["space"], "idx": 0, "key": v["key"], "detail": format!("panic under the scheduler: {}", m), "extra": e}));
                }
            }
        }
        let result = json!({"property_id": "C16", "tier": tier, "level": "model_checking", "coverage": {"evaluations": 1, "distinct_nontrivial": 0, "rule": "replay", "samples": [], "spaces": []},
            "assumptions": [], "wall_s": t0.elapsed().as_secs_f64(), "violations_total": total, "violations": viols, "machinery_errors": machinery, "replay": true});
        std::fs::write(out.expect("--out"), serde_json::to_string_pretty(&result).unwrap()).unwrap();
        std::process::exit(if total > 0 { 1 } else { 0 });
    }

    DFS_CAP.store(if tier == "quick" { 200_000 } else { 6_000_000 }, Ordering::Relaxed);
    let wmax: usize = if tier == "quick" { 4 } else { 6 };
    let deadline = if tier == "quick" { 40.0 } else { 1200.0 };
    let mut cap_hit = false;
    'outer: for w in 1..=wmax {
        let mut lens: Vec<usize> = vec![0, 1, w.saturating_sub(1), w, w + 1, 2 * w + 1, 4 * w + 3];
        lens.sort();
        lens.dedup();
        for &n in &lens {
            for kind in 0..3usize {
                if t0.elapsed().as_secs_f64() > deadline {
                    cap_hit = true;
                    break 'outer;
                }
                let (a, b) = data(kind, n);
                let name = format!("all schedules: workers={} length={} data={}", w, n, ["integer", "cancellation-prone", "non-finite (inf, NaN, -inf)"][kind]);
                let ts = Instant::now();
                let r1 = explore(w, &a, &b);
                configs += 1;
                match r1 {
                    Err(m) => {
                        viols.push(json!({"space": name, "idx": 0, "key": format!("workers={} length={} data={}", w, n, kind), "detail": format!("panic or deadlock under the scheduler: {}", m),
                            "extra": {"workers": w, "length": n, "data": kind, "schedule": "", "expected_bits": 0}}));
                    }
                    Ok(rs) => {
                        let r2 = explore(w, &a, &b);
                        if r2.as_ref().ok() != Some(&rs) {
                            machinery.push(format!("{}: two enumerations of the schedules disagree (uncontrolled nondeterminism)", name));
                        }
                        schedules_total += rs.len() as u64;
                        if rs.len() >= DFS_CAP.load(Ordering::Relaxed) {
                            cap_hit = true;
                            eprintln!("[C16] {}: enumeration cut at {} schedules (cap)", name, rs.len());
                        }
                        if rs.len() > 1 {
                            multi += 1;
                        }
                        let set: BTreeSet<u64> = rs.iter().copied().collect();
                        let seq = Vector::create(a.clone()).dot(&Vector::create(b.clone()));
                        let mut detail = None;
                        let mut expect = *set.iter().next().unwrap_or(&0);
                        if set.len() != 1 {
                            detail = Some(format!("{} distinct results over {} schedules: {:?}", set.len(), rs.len(), set.iter().map(|b| f64::from_bits(*b)).collect::<Vec<_>>()));
                            expect = rs[0];
                        } else if let Some(ex) = exact_value(&a, &b) {
                            if f64::from_bits(expect) != ex || seq != ex {
                                detail = Some(format!("result {} differs from the exact / sequential value {} / {}", f64::from_bits(expect), ex, seq));
                                expect = ex.to_bits();
                            }
                        } else {
                            // reassociation bound
                            let mag: f64 = a.iter().zip(b.iter()).map(|(x, y)| (x * y).abs()).sum();
                            let got = f64::from_bits(expect);
                            if seq.is_nan() {
                                if !got.is_nan() {
                                    detail = Some(format!("result {} but the sequential dot product is NaN", got));
                                    expect = canon(seq);
                                }
                            } else if !((got - seq).abs() <= 4.0 * (n.max(1) as f64) * f64::EPSILON * mag) {
                                detail = Some(format!("result {} differs from the sequential dot product {} by more than reassociation allows", got, seq));
                                expect = seq.to_bits();
                            }
                        }
                        if n > w && w > 1 {
                            nontrivial += 1;
                        }
                        if let Some(d) = detail {
                            let dir = std::path::PathBuf::from(SCHED_DIR);
                            let sched = persist_failing(w, &a, &b, expect, &dir).unwrap_or_default();
                            viols.push(json!({"space": name, "idx": 0, "key": format!("workers={} length={} data={}", w, n, kind), "detail": d,
                                "extra": {"workers": w, "length": n, "data": kind, "schedule": sched, "expected_bits": expect}}));
                        }
                        if samples.len() < 6 && rs.len() > 1 {
                            samples.push(json!({"workers": w, "length": n, "data": kind, "schedules": rs.len(), "distinct_results": set.len(), "result": f64::from_bits(*set.iter().next().unwrap())}));
                        }
                        spaces.push(json!({"space": name, "engine": "E3-shuttle-dfs", "schedules": rs.len(), "distinct_results": set.len(), "wall_s": ts.elapsed().as_secs_f64()}));
                        eprintln!("[C16] {:<70} schedules={:<7} distinct results={} {:.2}s", name, rs.len(), set.len(), ts.elapsed().as_secs_f64());
                    }
                }
            }
        }
    }
    if multi == 0 {
        machinery.push("vacuity: no configuration had more than one schedule".into());
    }
    // does the harness own every choice? (shuttle's own check, on one non-trivial configuration)
    {
        let (a, b) = data(1, 7);
        let ok = AtomicBool::new(true);
        let r = catch_unwind(AssertUnwindSafe(|| {
            shuttle::check_uncontrolled_nondeterminism(
                move || {
                    ohsl::verif_shim::set_workers(3);
                    let _ = Vector::create(a.clone()).dot_f64(&Vector::create(b.clone()));
                },
                50,
            )
        }));
        if r.is_err() {
            ok.store(false, Ordering::SeqCst);
            machinery.push("shuttle::check_uncontrolled_nondeterminism failed".into());
        }
    }
    let total = viols.len() as u64;
    let result = json!({
        "property_id": "C16", "tier": tier, "level": "model_checking",
        "coverage": {
            "evaluations": configs, "distinct_nontrivial": nontrivial,
            "rule": format!("E3: shuttle DfsScheduler enumerates every interleaving of the real dot_f64 (std::thread::scope / num_cpus shadowed under --cfg ohsl_verif) for workers 1..{} x lengths {{0,1,W-1,W,W+1,2W+1,4W+3}} x {{integer, cancellation-prone, non-finite (inf, NaN, -inf)}} data; the set of results over all schedules must be a singleton, exact on integer data. Non-trivial: more than one worker and more elements than workers.", wmax),
            "samples": samples, "states": schedules_total.max(1), "transitions": schedules_total.max(1), "traces_validated_against_impl": schedules_total,
            "exhaustive": !cap_hit, "cap_hit": cap_hit, "schedules": schedules_total, "configurations": configs, "configurations_with_more_than_one_schedule": multi, "spaces": spaces,
            "classes": {}, "numeric_margins": {}
        },
        "assumptions": ["unsynchronised unsafe sharing is invisible to a cooperative scheduler", "every schedule is an execution of the real dot_f64: states/transitions count complete schedules"],
        "wall_s": t0.elapsed().as_secs_f64(), "violations_total": total, "violations": viols, "machinery_errors": machinery, "replay": false
    });
    std::fs::write(out.expect("--out"), serde_json::to_string_pretty(&result).unwrap()).unwrap();
    std::process::exit(if !result["machinery_errors"].as_array().unwrap().is_empty() { 3 } else if total > 0 { 1 } else { 0 });
}
